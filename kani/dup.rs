//@target src/logger.rs
// C13 [complete]: the u8 encoding MultiWriter stores in its AtomicU8 round-trips for all seven Duplicate values
use super::*;

fn any_dup() -> Duplicate {
    match kani::any::<u8>() % 7 {
        0 => Duplicate::None, 1 => Duplicate::Error, 2 => Duplicate::Warn, 3 => Duplicate::Info,
        4 => Duplicate::Debug, 5 => Duplicate::Trace, _ => Duplicate::All,
    }
}
#[kani::proof]
pub fn duplicate_u8_round_trip() {
    let d = any_dup();
    let back = Duplicate::from(d as u8);
    assert!(back as u8 == d as u8, "Duplicate::from(d as u8) == d");
    kani::cover!(true);
}
#[kani::proof]
pub fn duplicate_from_u8_total_on_encodings() {
    let x: u8 = kani::any();
    kani::assume(x <= 6);
    assert!(Duplicate::from(x) as u8 == x, "decode/encode is the identity on 0..=6 (no unreachable!)");
    kani::cover!(x == 6);
}

//@target src/writers/file_log_writer/state_handle.rs
// C20 / C01 [BOUNDED: format output of at most 3 bytes; the format function may fail after any prefix]:
// the real synchronous arm of `StateHandle::write`. `util::buffer_with` is stubbed (its thread_local crashes the Kani
// compiler) by a version that runs the closure on a fresh RefCell and checks that the line buffer is EMPTY when it is
// released; `State::write_buffer` is stubbed by a recorder. Checked: exactly one hand-over to the state per call,
// the bytes handed over are the format output followed by the line ending, no residue stays in the buffer.
use super::*;
use std::cell::RefCell;
use std::sync::Mutex as StdMutex;

static FMT_LEN: StdMutex<usize> = StdMutex::new(0);
static FMT_FAILS: StdMutex<bool> = StdMutex::new(false);
static WRITTEN: StdMutex<([u8; 8], usize, usize)> = StdMutex::new(([0; 8], 0, 0)); // bytes, len, calls

fn stub_buffer_with<F: FnOnce(&RefCell<Vec<u8>>)>(f: F) {
    let cell = RefCell::new(Vec::with_capacity(8));
    f(&cell);
    assert!(cell.borrow().is_empty(), "the thread-local line buffer is empty when it is released (no residue for the next record)");
}
fn stub_write_buffer(_state: &mut State, buf: &[u8]) -> std::io::Result<()> {
    let mut g = WRITTEN.lock().unwrap();
    let mut i = 0;
    while i < 8 {
        if i < buf.len() { g.0[i] = buf[i]; }
        i += 1;
    }
    g.1 = buf.len();
    g.2 += 1;
    Ok(())
}
// a format function that writes FMT_LEN bytes 'a','b','c' and then succeeds or fails
fn fmt(w: &mut dyn std::io::Write, _now: &mut DeferredNow, _record: &Record) -> Result<(), std::io::Error> {
    let n = *FMT_LEN.lock().unwrap();
    if n >= 1 { w.write_all(b"a")?; }
    if n >= 2 { w.write_all(b"b")?; }
    if n >= 3 { w.write_all(b"c")?; }
    if *FMT_FAILS.lock().unwrap() { Err(std::io::Error::from(std::io::ErrorKind::InvalidData)) } else { Ok(()) }
}
fn stub_eprint_err(_c: ErrorCode, _m: &str, _e: &dyn std::error::Error) {}
fn fixed_now() -> chrono::DateTime<chrono::Local> {
    let naive = chrono::DateTime::from_timestamp(1_700_000_000, 0).unwrap().naive_utc();
    chrono::DateTime::<chrono::Local>::from_naive_utc_and_offset(naive, chrono::FixedOffset::east_opt(0).unwrap())
}

#[kani::proof]
#[kani::unwind(6)]
#[kani::stub(crate::util::buffer_with, stub_buffer_with)]
#[kani::stub(State::write_buffer, stub_write_buffer)]
#[kani::stub(crate::util::eprint_err, stub_eprint_err)]
#[kani::stub(chrono::Local::now, fixed_now)]
pub fn sync_write_frames_the_line() {
    let n: usize = kani::any();
    kani::assume(n <= 2);
    let fails: bool = kani::any();
    let crlf: bool = false;
    *FMT_LEN.lock().unwrap() = n;
    *FMT_FAILS.lock().unwrap() = fails;
    let line_ending: &'static [u8] = if crlf { b"\r\n" } else { b"\n" };
    let config = FileLogWriterConfig {
        print_message: false, append: false, write_mode: crate::WriteMode::Direct,
        file_spec: crate::FileSpec::default(), o_create_symlink: None, line_ending, use_utc: false,
    };
    let handle = StateHandle::Sync(SyncHandle { am_state: Arc::new(Mutex::new(State::new(config, None, false))), format_function: fmt, line_ending });
    let rec = Record::builder().build();
    let mut now = DeferredNow::new();
    let r = handle.write(&mut now, &rec);
    assert!(r.is_ok());
    let (bytes, len, calls) = *WRITTEN.lock().unwrap();
    assert!(calls == 1, "the line is handed to the state exactly once");
    let e = line_ending.len();
    assert!(len == n + e, "format output followed by exactly one line ending");
    assert!(n < 1 || bytes[0] == b'a');
    assert!(n < 2 || bytes[1] == b'b');
    assert!(n < 3 || bytes[2] == b'c');
    assert!(bytes[len - 1] == b'\n' && (!crlf || bytes[len - 2] == b'\r'), "the configured line ending comes last");
    // the State's drop glue reaches std's thread handles (thread_local with a destructor: Kani compiler crash)
    std::mem::forget(handle);
    kani::cover!(fails && n == 2);
    kani::cover!(!fails);
}

//@target src/writers/file_log_writer/state/timestamps.rs
// C10 / C06 [BOUNDED: a finite catalogue of concrete file names]: the real `ts_infix_from_path` never panics and cuts
// the 20 characters of a standard timestamp infix out of a family member's path.
use super::*;

fn fixed_now() -> DateTime<Local> {
    let naive = chrono::DateTime::from_timestamp(1_700_000_000, 0).unwrap().naive_utc();
    DateTime::<Local>::from_naive_utc_and_offset(naive, chrono::FixedOffset::east_opt(0).unwrap())
}
fn spec() -> FileSpec { FileSpec::default().directory("d").basename("foo").suppress_timestamp() }

macro_rules! ts_infix_harness {
    ($name:ident, $file:expr, $expect_len:expr) => {
        #[kani::proof]
        #[kani::unwind(64)]
        #[kani::stub(chrono::Local::now, fixed_now)]
        pub fn $name() {
            let r = ts_infix_from_path(&PathBuf::from($file), &spec());
            assert!(r.len() == $expect_len, "length of the extracted infix");
            kani::cover!(true);
        }
    };
}
ts_infix_harness!(ts_infix_member, "d/foo_r2026-09-26_10-29-51.log", 20);
// F5: a shorter (number-named) file has no timestamp infix; it must not panic
ts_infix_harness!(ts_infix_short_name, "d/foo_r00001.log", 0);
ts_infix_harness!(ts_infix_restart_sibling, "d/foo_r2026-09-26_10-29-51.restart-0000.log", 20);

//@target src/flexi_logger.rs
// Kani harnesses that discharge the axioms Verus takes about the `log` crate's comparisons (prelude/logcrate.rs):
// complete, every pair of values.
use log::{Level, LevelFilter};

fn any_level() -> Level {
    match kani::any::<u8>() % 5 { 0 => Level::Error, 1 => Level::Warn, 2 => Level::Info, 3 => Level::Debug, _ => Level::Trace }
}
fn any_filter() -> LevelFilter {
    match kani::any::<u8>() % 6 {
        0 => LevelFilter::Off, 1 => LevelFilter::Error, 2 => LevelFilter::Warn, 3 => LevelFilter::Info, 4 => LevelFilter::Debug, _ => LevelFilter::Trace,
    }
}
fn level_num(l: Level) -> u8 { match l { Level::Error => 1, Level::Warn => 2, Level::Info => 3, Level::Debug => 4, Level::Trace => 5 } }
fn filter_num(f: LevelFilter) -> u8 {
    match f { LevelFilter::Off => 0, LevelFilter::Error => 1, LevelFilter::Warn => 2, LevelFilter::Info => 3, LevelFilter::Debug => 4, LevelFilter::Trace => 5 }
}

/// axioms ax_level_filter_cmp / ax_level_filter_obeys
#[kani::proof]
pub fn level_vs_filter() {
    let l = any_level();
    let f = any_filter();
    let (a, b) = (level_num(l), filter_num(f));
    assert!(l.partial_cmp(&f) == Some(a.cmp(&b)), "partial_cmp is the numeric order");
    assert!((l <= f) == (a <= b));
    assert!((l < f) == (a < b));
    assert!((l >= f) == (a >= b));
    assert!((l > f) == (a > b));
    kani::cover!(a == b);
}
/// axioms ax_level_level_cmp / ax_level_eq
#[kani::proof]
pub fn level_vs_level() {
    let l = any_level();
    let m = any_level();
    let (a, b) = (level_num(l), level_num(m));
    assert!(l.partial_cmp(&m) == Some(a.cmp(&b)));
    assert!((l <= m) == (a <= b));
    assert!((l == m) == (a == b));
    assert!((l != m) == (a != b));
    kani::cover!(a == b);
}
/// axioms ax_filter_filter_cmp
#[kani::proof]
pub fn filter_vs_filter() {
    let l = any_filter();
    let m = any_filter();
    let (a, b) = (filter_num(l), filter_num(m));
    assert!(l.partial_cmp(&m) == Some(a.cmp(&b)));
    assert!(std::cmp::max(l, m) == if a >= b { l } else { m }, "std::cmp::max picks the numerically larger filter");
    assert!((l == m) == (a == b));
    kani::cover!(a == b);
}

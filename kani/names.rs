//@target src/writers/file_log_writer/state/numbers.rs
// C06 / C14 [BOUNDED: a finite catalogue of concrete directory listings]: the real `get_highest_index` with a stub for the
// directory listing. The string code (file_stem, rsplit, parse) runs on concrete names; which listing is used is symbolic.
use super::*;
use std::path::PathBuf;
use std::sync::Mutex;

static WHICH: Mutex<usize> = Mutex::new(0);

// (basename, listing, expected highest index)
fn listing_for(which: usize) -> Vec<PathBuf> {
    match which {
        0 => vec![],
        1 => vec![PathBuf::from("d/app_r00000.log")],
        2 => vec![PathBuf::from("d/app_r00002.log"), PathBuf::from("d/app_r00001.log"), PathBuf::from("d/app_r00000.log")],
        // the fixed name part itself contains "_r": the infix is what follows the LAST "_r"
        3 => vec![PathBuf::from("d/web_requests_r00003.log"), PathBuf::from("d/web_requests_r00001.log")],
        4 => vec![PathBuf::from("d/app_r00012.log"), PathBuf::from("d/app_r00007.log")],
        // only compressed files are left (C06: "plain or compressed")
        _ => vec![PathBuf::from("d/app_r00003.log.gz")],
    }
}
fn stub_listing(_file_spec: &FileSpec, _infix_filter: &InfixFilter) -> Vec<PathBuf> {
    listing_for(*WHICH.lock().unwrap())
}

macro_rules! highest_index_harness {
    ($name:ident, $which:expr, $base:expr, $expect:expr) => {
        #[kani::proof]
        #[kani::unwind(40)]
        #[kani::stub(crate::writers::file_log_writer::state::list_and_cleanup::list_of_log_and_compressed_files, stub_listing)]
        pub fn $name() {
            *WHICH.lock().unwrap() = $which;
            let fs = FileSpec::default().basename($base).suppress_timestamp();
            let r = get_highest_index(&fs);
            assert!(r == $expect, "highest existing rotation index");
            kani::cover!(true);
        }
    };
}
highest_index_harness!(highest_index_empty, 0, "app", None);
highest_index_harness!(highest_index_single, 1, "app", Some(0));
highest_index_harness!(highest_index_three, 2, "app", Some(2));
highest_index_harness!(highest_index_name_with_r, 3, "web_requests", Some(3));
highest_index_harness!(highest_index_two_digit, 4, "app", Some(12));
highest_index_harness!(highest_index_gz_only, 5, "app", Some(3));

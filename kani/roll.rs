//@target src/writers/file_log_writer/state.rs
//@contract src/writers/file_log_writer/state.rs impl RollState / fn size_rotation_necessary :: #[cfg_attr(kani, kani::ensures(|r: &bool| *r == (current_size > max_size)))]
// Kani harnesses for the integer / enum leaves of state.rs (complete: loop-free, full-domain symbolic inputs).
use super::*;

fn fixed_dt() -> DateTime<Local> {
    let naive = chrono::DateTime::from_timestamp(1_700_000_000, 0).unwrap().naive_utc();
    DateTime::<Local>::from_naive_utc_and_offset(naive, chrono::FixedOffset::east_opt(0).unwrap())
}
fn any_age() -> Age {
    match kani::any::<u8>() % 4 { 0 => Age::Day, 1 => Age::Hour, 2 => Age::Minute, _ => Age::Second }
}

/// C08 [complete]: in-place contract `r == (current_size > max_size)` for all 2^128 argument pairs
#[kani::proof_for_contract(RollState::size_rotation_necessary)]
pub fn size_rotation_necessary_contract() {
    let max: u64 = kani::any();
    let cur: u64 = kani::any();
    RollState::size_rotation_necessary(max, cur);
    kani::cover!(true);
}

/// C08 [complete]: the contract Verus assumes for `RollState::increase_size` (or-pattern with `ref mut` is outside
/// Verus): `*self == old.plus(add)` — size grows by exactly `add`, nothing else changes — under A5 (no u64 overflow)
#[kani::proof]
pub fn increase_size_contract() {
    let max: u64 = kani::any();
    let cur: u64 = kani::any();
    let add: u64 = kani::any();
    kani::assume(cur.checked_add(add).is_some());
    let which: u8 = kani::any();
    kani::assume(which < 3);
    let dt = fixed_dt();
    let age = any_age();
    let mut rs = match which {
        0 => RollState::Size { max_size: max, current_size: cur },
        1 => RollState::Age { age, created_at: dt },
        _ => RollState::AgeOrSize { age, created_at: dt, max_size: max, current_size: cur },
    };
    rs.increase_size(add);
    match rs {
        RollState::Size { max_size, current_size } => {
            assert!(which == 0, "variant unchanged");
            assert!(max_size == max, "max_size unchanged");
            assert!(current_size == cur + add, "current_size grows by add");
        }
        RollState::Age { age: a2, created_at } => {
            assert!(which == 1, "variant unchanged");
            assert!(a2 as u8 == age as u8 && created_at == dt, "Age state untouched");
        }
        RollState::AgeOrSize { age: a2, created_at, max_size, current_size } => {
            assert!(which == 2, "variant unchanged");
            assert!(a2 as u8 == age as u8 && created_at == dt, "age part untouched");
            assert!(max_size == max, "max_size unchanged");
            assert!(current_size == cur + add, "current_size grows by add");
        }
    }
    kani::cover!(true);
}

/// C08 [complete]: rotation_necessary for the Size criterion is exactly `current_size > max_size`
#[kani::proof]
#[kani::stub(chrono::Local::now, fixed_dt)] // Local::now() is statically reachable (Age arms); its thread_local crashes the Kani compiler
pub fn rotation_necessary_size() {
    let max: u64 = kani::any();
    let cur: u64 = kani::any();
    let rs = RollState::Size { max_size: max, current_size: cur };
    assert!(rs.rotation_necessary() == (cur > max), "rotate iff current file already exceeds the limit");
    kani::cover!(cur == max);
}

/// C07 [complete]: NamingState::writes_direct — the file being written carries a rotated-style infix exactly for
/// NumbersDirect and for timestamps without a current infix
#[kani::proof]
pub fn naming_state_writes_direct() {
    let idx: u32 = kani::any();
    assert!(NamingState::NumbersDirect(idx).writes_direct());
    assert!(!NamingState::NumbersRCurrent(idx).writes_direct());
    let dt = fixed_dt();
    assert!(NamingState::Timestamps { current_timestamp: dt, the_current_infix: None, infix_format: InfixFormat::Std }.writes_direct());
    assert!(!NamingState::Timestamps { current_timestamp: dt, the_current_infix: Some(String::new()), infix_format: InfixFormat::Std }.writes_direct());
    kani::cover!(true);
}

//@target src/log_specification.rs
// C02 [BOUNDED: list length 3, name lengths 0..3]: the real `level_sort` establishes the list invariant that
// `LogSpecification::enabled` relies on (Verus lemma_longest_prefix): descending name length, default entry last,
// and it only permutes the entries. `max_level` is the maximum of the level filters.
use super::*;

fn name_of_len(n: u8) -> Option<String> {
    match n { 0 => None, 1 => Some(String::from("a")), 2 => Some(String::from("ab")), _ => Some(String::from("abc")) }
}
fn len_of(mf: &ModuleFilter) -> usize { mf.module_name.as_ref().map_or(0, String::len) }
fn any_filter(k: u8) -> LevelFilter {
    match k % 6 { 0 => LevelFilter::Off, 1 => LevelFilter::Error, 2 => LevelFilter::Warn, 3 => LevelFilter::Info, 4 => LevelFilter::Debug, _ => LevelFilter::Trace }
}

#[kani::proof]
#[kani::unwind(8)]
pub fn level_sort_sorts_by_descending_name_length() {
    let (a, b, c): (u8, u8, u8) = (kani::any(), kani::any(), kani::any());
    kani::assume(a <= 3 && b <= 3 && c <= 3);
    // the level filter serves as the identity of an entry
    let v = vec![
        ModuleFilter { module_name: name_of_len(a), level_filter: LevelFilter::Error },
        ModuleFilter { module_name: name_of_len(b), level_filter: LevelFilter::Warn },
        ModuleFilter { module_name: name_of_len(c), level_filter: LevelFilter::Info },
    ];
    let s = v.level_sort();
    assert!(s.len() == 3, "same number of entries");
    assert!(len_of(&s[0]) >= len_of(&s[1]) && len_of(&s[1]) >= len_of(&s[2]), "descending name length, default (no name) last");
    let mut seen = [false; 3];
    let mut i = 0;
    while i < 3 {
        let (id, want) = match s[i].level_filter { LevelFilter::Error => (0, a), LevelFilter::Warn => (1, b), _ => (2, c) };
        assert!(!seen[id], "a permutation: no entry twice");
        seen[id] = true;
        assert!(len_of(&s[i]) == want as usize, "entries keep their name");
        i += 1;
    }
    kani::cover!(a < b && b < c);
}

#[kani::proof]
#[kani::unwind(8)]
pub fn max_level_is_the_maximum() {
    let (a, b, c): (u8, u8, u8) = (kani::any(), kani::any(), kani::any());
    let v = vec![
        ModuleFilter { module_name: Some(String::from("ab")), level_filter: any_filter(a) },
        ModuleFilter { module_name: Some(String::from("a")), level_filter: any_filter(b) },
        ModuleFilter { module_name: None, level_filter: any_filter(c) },
    ];
    let spec = LogSpecification { module_filters: v, #[cfg(feature = "textfilter")] textfilter: None };
    let m = spec.max_level();
    let mut want = any_filter(a);
    if any_filter(b) > want { want = any_filter(b); }
    if any_filter(c) > want { want = any_filter(c); }
    assert!(m == want, "max_level == maximum of the level filters");
    kani::cover!(m == LevelFilter::Off);
}

#[kani::proof]
#[kani::unwind(4)]
pub fn max_level_of_the_empty_specification_is_off() {
    let spec = LogSpecification { module_filters: Vec::new(), #[cfg(feature = "textfilter")] textfilter: None };
    assert!(spec.max_level() == LevelFilter::Off);
    kani::cover!(true);
}

//@target src/writers/file_log_writer/state/list_and_cleanup.rs
// C07 / C14 [BOUNDED: listing length <= MAXN]: the real `remove_or_compress_too_old_logfiles_impl` with recording stubs
// for the directory listing and `std::fs::remove_file`. Paths are identified by a tag (the length of the path), never
// by PathBuf ==. Limits k are full-domain symbolic usize, `writes_direct` symbolic, the position of a failing removal
// symbolic.
use super::*;
use std::path::Path;
use std::sync::Mutex;

const MAXN: usize = 5;
static N: Mutex<usize> = Mutex::new(0);
static FAIL_AT: Mutex<usize> = Mutex::new(usize::MAX);
static REMOVED: Mutex<([usize; MAXN], usize)> = Mutex::new(([0; MAXN], 0));
static LISTED: Mutex<usize> = Mutex::new(0);

const NAMES: [&str; MAXN] = ["d/f_r1", "d/f_r02", "d/f_r003", "d/f_r0004", "d/f_r00005"];
fn tag(i: usize) -> usize { NAMES[i].len() }

fn stub_listing(_file_spec: &FileSpec, _infix_filter: &InfixFilter) -> Vec<PathBuf> {
    *LISTED.lock().unwrap() += 1;
    let n = *N.lock().unwrap();
    let mut v = Vec::new();
    let mut i = 0;
    while i < MAXN {
        if i < n { v.push(PathBuf::from(NAMES[i])); }
        i += 1;
    }
    v
}
fn stub_remove_file<P: AsRef<Path>>(p: P) -> std::io::Result<()> {
    let t = p.as_ref().as_os_str().len();
    let mut g = REMOVED.lock().unwrap();
    let pos = g.1;
    if pos == *FAIL_AT.lock().unwrap() {
        return Err(std::io::Error::from(std::io::ErrorKind::PermissionDenied));
    }
    if pos < MAXN { g.0[pos] = t; }
    g.1 = pos + 1;
    Ok(())
}

fn file_spec() -> FileSpec { FileSpec::default() }
fn stub_basename() -> String { String::from("f") }

fn cleanup_keeps_newest(n: usize) {
    *N.lock().unwrap() = n;
    let k: usize = kani::any();
    let writes_direct: bool = kani::any();
    let fail_at: usize = kani::any();
    *FAIL_AT.lock().unwrap() = fail_at;
    let never: bool = kani::any();
    let cfg = if never { Cleanup::Never } else { Cleanup::KeepLogFiles(k) };
    let fs = file_spec();
    let r = remove_or_compress_too_old_logfiles_impl(&cfg, &fs, &InfixFilter::Numbrs, writes_direct);
    let (removed, cnt) = *REMOVED.lock().unwrap();
    if never {
        assert!(r.is_ok() && cnt == 0, "Cleanup::Never has no effect");
        assert!(*LISTED.lock().unwrap() == 0, "Cleanup::Never does not even list");
    } else {
        // the listing is newest first: keep the first keep entries, remove the rest in listing order
        let keep = if writes_direct && k == 0 { 1 } else { k };
        let expect = if n > keep { n - keep } else { 0 };
        let done = if fail_at < expect { fail_at } else { expect };
        assert!(cnt == done, "exactly the files beyond the limit are removed (up to the first failing removal)");
        assert!(r.is_ok() == (fail_at >= expect), "the first failing removal aborts with its error");
        let mut j = 0;
        while j < MAXN {
            if j < done {
                assert!(removed[j] == tag(keep + j), "removed file j is listing[keep + j]: only listed files, oldest kept out, in order");
            }
            j += 1;
        }
        assert!(!(writes_direct && n >= 1 && cnt == n), "with direct naming the newest (= current) file is never removed");
    }
    kani::cover!(!never && cnt == n);
    kani::cover!(n == 0 || (!never && r.is_err()));
}

// one harness per listing length (a symbolic Vec length makes every allocation symbolic: > 10 min)
macro_rules! cleanup_harness {
    ($name:ident, $n:expr) => {
        #[kani::proof]
        #[kani::unwind(7)]
        #[kani::stub(list_of_log_and_compressed_files, stub_listing)]
        #[kani::stub(std::fs::remove_file, stub_remove_file)]
        pub fn $name() { cleanup_keeps_newest($n); }
    };
}
cleanup_harness!(cleanup_keeps_newest_n0, 0);
cleanup_harness!(cleanup_keeps_newest_n1, 1);
cleanup_harness!(cleanup_keeps_newest_n2, 2);
cleanup_harness!(cleanup_keeps_newest_n3, 3);
cleanup_harness!(cleanup_keeps_newest_n4, 4);
cleanup_harness!(cleanup_keeps_newest_n5, 5);


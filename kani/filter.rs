//@target src/writers/file_log_writer/state.rs
// C14 / C10 [BOUNDED: a finite catalogue of concrete file names]: the real `FileSpec::filter_files` + `InfixFilter::filter_infix`
// on near misses of the family pattern, including a multi-byte character right after the fixed name part.
use super::*;
use crate::FileSpec;

// Local::now() is statically reachable through the start-time part of the name (not used here: suppress_timestamp);
// its thread_local crashes the Kani compiler, hence the stub
fn fixed_now() -> chrono::DateTime<chrono::Local> {
    let naive = chrono::DateTime::from_timestamp(1_700_000_000, 0).unwrap().naive_utc();
    chrono::DateTime::<chrono::Local>::from_naive_utc_and_offset(naive, chrono::FixedOffset::east_opt(0).unwrap())
}
// the timestamp filter parses with chrono::Local (another thread_local): stubbed, the catalogue uses Numbrs / Equls only
fn stub_ts(_infix: &str, _fmt: &InfixFormat) -> Result<chrono::DateTime<chrono::Local>, String> {
    Err(String::new())
}
fn spec() -> FileSpec { FileSpec::default().basename("foo").suppress_timestamp() }

macro_rules! filter_harness {
    ($name:ident, $file:expr, $filter:expr, $suffix:expr, $expect:expr) => {
        #[kani::proof]
        #[kani::unwind(24)]
        #[kani::stub(chrono::Local::now, fixed_now)]
        #[kani::stub(timestamps::timestamp_from_ts_infix, stub_ts)]
        pub fn $name() {
            let files = vec![PathBuf::from($file)];
            let r = spec().filter_files(&files, &$filter, $suffix);
            assert!((r.len() == 1) == $expect, "member of the family <=> fixed part, '_', infix accepted by the filter, suffix");
            kani::cover!(true);
        }
    };
}
filter_harness!(filter_member, "d/foo_r00001.log", InfixFilter::Numbrs, Some("log"), true);
filter_harness!(filter_longer_basename, "d/foobar_r00002.log", InfixFilter::Numbrs, Some("log"), false);
filter_harness!(filter_other_suffix, "d/foo_r00003.txt", InfixFilter::Numbrs, Some("log"), false);
filter_harness!(filter_current_is_not_numbered, "d/foo_rCURRENT.log", InfixFilter::Numbrs, Some("log"), false);
filter_harness!(filter_no_infix, "d/foo.log", InfixFilter::Numbrs, Some("log"), false);
// F2: a foreign file whose name continues with a multi-byte character must be skipped, not panic
filter_harness!(filter_multibyte_neighbour, "d/foo\u{e9}.log", InfixFilter::Numbrs, Some("log"), false);
filter_harness!(filter_equals_current, "d/foo_rCURRENT.log", InfixFilter::Equls("rCURRENT".to_string()), Some("log"), true);
filter_harness!(filter_compressed, "d/foo_r00004.log.gz", InfixFilter::Numbrs, Some("gz"), true);
// near misses of the suffix: the name merely ends in the letters of the suffix
filter_harness!(filter_suffix_tail_catalog, "d/foo_r00950.catalog", InfixFilter::Numbrs, Some("log"), false);
filter_harness!(filter_suffix_tail_tgz, "d/foo_r00000.tgz", InfixFilter::Numbrs, Some("gz"), false);
filter_harness!(filter_suffix_no_dot, "d/foo_r00777_backlog", InfixFilter::Numbrs, Some("log"), false);

//@target src/parameters/file_spec.rs
// C10 / C01 [BOUNDED: a finite catalogue of concrete names]: the real `restart_number`
// (the parser of the ".restart-NNNN" discriminant, introduced by the repair of F13) never panics and reads a
// well-formed number exactly.
use super::*;

macro_rules! restart_number_harness {
    ($name:ident, $file:expr, $expect:expr) => {
        #[kani::proof]
        #[kani::unwind(40)]
        pub fn $name() {
            let r = restart_number($file);
            assert!(r == $expect, "number read from the name");
            kani::cover!(true);
        }
    };
}
restart_number_harness!(restart_number_member, "app_2026-09-26.restart-0017", Some(17));
// F13: a trimmed / foreign sibling must not panic (was: byte index out of bounds in a log call)
restart_number_harness!(restart_number_short, "app_2026-09-26.restart-1", None);
restart_number_harness!(restart_number_not_numeric, "app_2026-09-26.restart-ab12", None);
restart_number_harness!(restart_number_multibyte, "a.restart-001\u{e9}", None);
restart_number_harness!(restart_number_no_marker, "app_2026-09-26", None);

restart_number_harness!(restart_number_plus_sign, "a.restart-+123", Some(123));
// (a harness with even one symbolic character after the marker did not finish in 10 minutes: str::parse under CBMC)

// ---- TRUSTED prelude: str operations -----------------------------------------------------------------
pub open spec fn is_prefix_chars(a: Seq<char>, b: Seq<char>) -> bool {
    a.len() <= b.len() && forall|i: int| 0 <= i < a.len() ==> a[i] == b[i]
}
/// the character sequence a `Pattern` argument stands for (only string-like patterns are used)
pub uninterp spec fn pat_seq<P>(p: P) -> Seq<char>;
pub broadcast axiom fn ax_pat_seq_ref_string(p: &String)
    ensures #[trigger] pat_seq::<&String>(p) == p@;
pub broadcast axiom fn ax_pat_seq_str(p: &str)
    ensures #[trigger] pat_seq::<&str>(p) == p@;
pub broadcast axiom fn ax_pat_seq_char(p: char)
    ensures #[trigger] pat_seq::<char>(p) == seq![p];
pub broadcast group group_pat_seq { ax_pat_seq_ref_string, ax_pat_seq_str, ax_pat_seq_char }
#[verifier::allow(undeclared_external_trait)]
pub assume_specification<P: core::str::pattern::Pattern>[ str::starts_with ](s: &str, pat: P) -> (r: bool)
    ensures r == is_prefix_chars(pat_seq::<P>(pat), s@);
pub open spec fn is_suffix_chars(a: Seq<char>, b: Seq<char>) -> bool {
    a.len() <= b.len() && forall|i: int| 0 <= i < a.len() ==> a[i] == b[b.len() - a.len() + i]
}
#[verifier::allow(undeclared_external_trait)]
pub assume_specification<P: core::str::pattern::Pattern>[ str::ends_with ](s: &str, pat: P) -> (r: bool)
    where for<'b> <P as core::str::pattern::Pattern>::Searcher<'b>: core::str::pattern::ReverseSearcher<'b>,
    ensures r == is_suffix_chars(pat_seq::<P>(pat), s@);
pub open spec fn opt_str_view(o: Option<&str>) -> Option<Seq<char>> { match o { Some(s) => Some(s@), None => None } }
pub open spec fn strip_prefix_spec(s: Seq<char>, p: Seq<char>) -> Option<Seq<char>> {
    if is_prefix_chars(p, s) { Some(s.subrange(p.len() as int, s.len() as int)) } else { None }
}
pub open spec fn strip_suffix_spec(s: Seq<char>, p: Seq<char>) -> Option<Seq<char>> {
    if is_suffix_chars(p, s) { Some(s.subrange(0, s.len() - p.len())) } else { None }
}
#[verifier::allow(undeclared_external_trait)]
pub assume_specification<'a, P: core::str::pattern::Pattern>[ str::strip_prefix ](s: &'a str, pat: P) -> (r: Option<&'a str>)
    ensures opt_str_view(r) == strip_prefix_spec(s@, pat_seq::<P>(pat));
#[verifier::allow(undeclared_external_trait)]
pub assume_specification<'a, P: core::str::pattern::Pattern>[ str::strip_suffix ](s: &'a str, pat: P) -> (r: Option<&'a str>)
    where for<'b> <P as core::str::pattern::Pattern>::Searcher<'b>: core::str::pattern::ReverseSearcher<'b>,
    ensures opt_str_view(r) == strip_suffix_spec(s@, pat_seq::<P>(pat));

// splitting: the pieces are an oracle of (string, separator); only membership / order of the pieces is used
#[verifier::external_type_specification]
#[verifier::external_body]
#[verifier::reject_recursive_types(P)]
pub struct ExSplit<'a, P: core::str::pattern::Pattern>(core::str::Split<'a, P>);
pub uninterp spec fn split_seq(s: Seq<char>, sep: Seq<char>) -> Seq<Seq<char>>;
pub uninterp spec fn split_view<'a, P: core::str::pattern::Pattern>(it: &core::str::Split<'a, P>) -> Seq<Seq<char>>;
#[verifier::allow(undeclared_external_trait)]
pub assume_specification<'a, P: core::str::pattern::Pattern>[ str::split ](s: &'a str, pat: P) -> (r: core::str::Split<'a, P>)
    ensures split_view(&r) == split_seq(s@, pat_seq::<P>(pat));
/// R8 shim: `e.split(c).collect::<Vec<&str>>()` yields the pieces of the split oracle, in order
pub trait VSplitCollect {
    fn vsplit_collect<'a>(&'a self, sep: char) -> (r: Vec<&'a str>)
        ensures r@.len() == split_seq(self.vsc_view(), seq![sep]).len(),
            forall|k: int| 0 <= k < r@.len() ==> (#[trigger] r@[k])@ == split_seq(self.vsc_view(), seq![sep])[k];
    spec fn vsc_view(&self) -> Seq<char>;
}
impl VSplitCollect for str {
    #[verifier::external_body]
    fn vsplit_collect<'a>(&'a self, sep: char) -> (r: Vec<&'a str>) { unimplemented!() }
    open spec fn vsc_view(&self) -> Seq<char> { self@ }
}

/// `s.trim_start_matches(p)`: the prefix is stripped repeatedly (not used by the code as it is)
pub open spec fn trim_start_spec(s: Seq<char>, p: Seq<char>) -> Seq<char>
    decreases s.len()
{
    if p.len() > 0 && is_prefix_chars(p, s) { trim_start_spec(s.subrange(p.len() as int, s.len() as int), p) } else { s }
}
#[verifier::allow(undeclared_external_trait)]
pub assume_specification<'a, P: core::str::pattern::Pattern>[ str::trim_start_matches ](s: &'a str, pat: P) -> (r: &'a str)
    ensures r@ == trim_start_spec(s@, pat_seq::<P>(pat));
/// R41 SHIM for `[a, b].concat()` on two string slices
#[verifier::external_body]
pub fn vconcat2(a: &str, b: &str) -> (r: String)
    ensures r@ == a@ + b@
{ [a, b].concat() }

// ---- TRUSTED prelude: str operations -----------------------------------------------------------------
pub open spec fn is_prefix_chars(a: Seq<char>, b: Seq<char>) -> bool {
    a.len() <= b.len() && forall|i: int| 0 <= i < a.len() ==> a[i] == b[i]
}
/// the character sequence a `Pattern` argument stands for (only string-like patterns are used)
pub uninterp spec fn pat_seq<P>(p: P) -> Seq<char>;
pub broadcast axiom fn ax_pat_seq_ref_string(p: &String)
    ensures #[trigger] pat_seq::<&String>(p) == p@;
pub broadcast axiom fn ax_pat_seq_str(p: &str)
    ensures #[trigger] pat_seq::<&str>(p) == p@;
pub broadcast axiom fn ax_pat_seq_char(p: char)
    ensures #[trigger] pat_seq::<char>(p) == seq![p];
pub broadcast group group_pat_seq { ax_pat_seq_ref_string, ax_pat_seq_str, ax_pat_seq_char }
#[verifier::allow(undeclared_external_trait)]
pub assume_specification<P: core::str::pattern::Pattern>[ str::starts_with ](s: &str, pat: P) -> (r: bool)
    ensures r == is_prefix_chars(pat_seq::<P>(pat), s@);

// ---- TRUSTED prelude: log::Record / log::Metadata accessors as uninterpreted field functions (A4) ----
#[verifier::external_type_specification]
#[verifier::external_body]
pub struct ExRecord<'a>(log::Record<'a>);
#[verifier::external_type_specification]
#[verifier::external_body]
pub struct ExMetadata<'a>(log::Metadata<'a>);
#[verifier::external_type_specification]
#[verifier::external_body]
pub struct ExRegex(regex::Regex);

pub uninterp spec fn record_level(r: &log::Record) -> log::Level;
pub uninterp spec fn record_target(r: &log::Record) -> Seq<char>;
pub uninterp spec fn record_module_path(r: &log::Record) -> Option<Seq<char>>;
pub uninterp spec fn record_msg(r: &log::Record) -> Seq<char>;
pub uninterp spec fn metadata_level(m: &log::Metadata) -> log::Level;
pub uninterp spec fn metadata_target(m: &log::Metadata) -> Seq<char>;

pub assume_specification<'a>[ log::Record::<'a>::level ](r: &log::Record<'a>) -> (l: log::Level)
    ensures l == record_level(r);
pub assume_specification<'a>[ log::Record::<'a>::target ](r: &log::Record<'a>) -> (t: &'a str)
    ensures t@ == record_target(r);
pub assume_specification<'a>[ log::Record::<'a>::module_path ](r: &log::Record<'a>) -> (t: Option<&'a str>)
    ensures opt_str_view(t) == record_module_path(r);
pub assume_specification<'a, 'b>[ log::Record::<'a>::metadata ](r: &'b log::Record<'a>) -> (m: &'b log::Metadata<'a>)
    ensures metadata_level(m) == record_level(r), metadata_target(m) == record_target(r);
pub assume_specification<'a>[ log::Metadata::<'a>::level ](m: &log::Metadata<'a>) -> (l: log::Level)
    ensures l == metadata_level(m);
pub assume_specification<'a>[ log::Metadata::<'a>::target ](m: &log::Metadata<'a>) -> (t: &'a str)
    ensures t@ == metadata_target(m);
/// oracle: regex matching (regex semantics are outside the verifier)
pub uninterp spec fn regex_is_match(re: &regex::Regex, text: Seq<char>) -> bool;
pub assume_specification[ regex::Regex::is_match ](re: &regex::Regex, hay: &str) -> (r: bool)
    ensures r == regex_is_match(re, hay@);
pub assume_specification<'a, 'b>[ log::Record::<'a>::args ](r: &'b log::Record<'a>) -> (a: &'b core::fmt::Arguments<'a>)
    // `args().to_string()` (vstd: to_string_from_display_ensures) renders the message text
    ensures forall|s: String| #[trigger] vstd::string::to_string_from_display_ensures::<core::fmt::Arguments<'a>>(a, s) ==> s@ == record_msg(r);

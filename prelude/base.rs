// ================================================================================================
// TRUSTED prelude (hand written): external type specifications, oracles and assumed specifications
// for the std / chrono functions that the copied flexi_logger bodies call. Nothing in here is proved.
// ================================================================================================
#[verifier::external_type_specification]
#[verifier::external_body]
pub struct ExPath(std::path::Path);

#[verifier::external_type_specification]
#[verifier::external_body]
pub struct ExPathBuf(std::path::PathBuf);

#[verifier::external_type_specification]
#[verifier::external_body]
pub struct ExIoError(std::io::Error);

#[verifier::external_type_specification]
pub struct ExIoErrorKind(std::io::ErrorKind);

#[verifier::external_type_specification]
#[verifier::external_body]
#[verifier::reject_recursive_types(Tz)]
pub struct ExDateTime<Tz: chrono::TimeZone>(chrono::DateTime<Tz>);

#[verifier::external_type_specification]
#[verifier::external_body]
pub struct ExLocal(chrono::Local);

#[verifier::external_type_specification]
#[verifier::external_body]
pub struct ExFile(std::fs::File);

#[verifier::external_type_specification]
#[verifier::external_body]
pub struct ExOpenOptions(std::fs::OpenOptions);

#[verifier::external_type_specification]
#[verifier::external_body]
pub struct ExMetadata(std::fs::Metadata);

// ---- paths ---------------------------------------------------------------------------------------
/// Abstract value of a path: the sequence of its characters (lossy view is never inspected here).
pub uninterp spec fn path_view(p: &std::path::Path) -> Seq<char>;
pub uninterp spec fn pathbuf_view(p: &std::path::PathBuf) -> Seq<char>;

pub assume_specification[ <std::path::PathBuf as core::ops::Deref>::deref ](p: &std::path::PathBuf) -> (r: &std::path::Path)
    ensures path_view(r) == pathbuf_view(p);

pub assume_specification[ <std::path::PathBuf as Clone>::clone ](p: &std::path::PathBuf) -> (r: std::path::PathBuf)
    ensures pathbuf_view(&r) == pathbuf_view(p);

// ---- io::Error -----------------------------------------------------------------------------------
pub uninterp spec fn io_error_kind(e: &std::io::Error) -> std::io::ErrorKind;

pub assume_specification[ std::io::Error::kind ](e: &std::io::Error) -> (k: std::io::ErrorKind)
    ensures k == io_error_kind(e);

// ---- clock (A2: frozen during one verified call) ---------------------------------------------------
pub uninterp spec fn clock_now() -> chrono::DateTime<chrono::Local>;

pub assume_specification[ chrono::Local::now ]() -> (r: chrono::DateTime<chrono::Local>)
    ensures r == clock_now();

// chrono accessors as uninterpreted field functions (A3)
pub uninterp spec fn dt_year<Tz: chrono::TimeZone>(d: &chrono::DateTime<Tz>) -> i32;
pub uninterp spec fn dt_month<Tz: chrono::TimeZone>(d: &chrono::DateTime<Tz>) -> u32;
pub uninterp spec fn dt_day<Tz: chrono::TimeZone>(d: &chrono::DateTime<Tz>) -> u32;
pub uninterp spec fn dt_hour<Tz: chrono::TimeZone>(d: &chrono::DateTime<Tz>) -> u32;
pub uninterp spec fn dt_minute<Tz: chrono::TimeZone>(d: &chrono::DateTime<Tz>) -> u32;
pub uninterp spec fn dt_second<Tz: chrono::TimeZone>(d: &chrono::DateTime<Tz>) -> u32;

pub assume_specification<Tz: chrono::TimeZone>[ <chrono::DateTime<Tz> as chrono::Datelike>::year ](d: &chrono::DateTime<Tz>) -> (r: i32)
    ensures r == dt_year(d);
pub assume_specification<Tz: chrono::TimeZone>[ <chrono::DateTime<Tz> as chrono::Datelike>::month ](d: &chrono::DateTime<Tz>) -> (r: u32)
    ensures r == dt_month(d);
pub assume_specification<Tz: chrono::TimeZone>[ <chrono::DateTime<Tz> as chrono::Datelike>::day ](d: &chrono::DateTime<Tz>) -> (r: u32)
    ensures r == dt_day(d);
pub assume_specification<Tz: chrono::TimeZone>[ <chrono::DateTime<Tz> as chrono::Timelike>::hour ](d: &chrono::DateTime<Tz>) -> (r: u32)
    ensures r == dt_hour(d);
pub assume_specification<Tz: chrono::TimeZone>[ <chrono::DateTime<Tz> as chrono::Timelike>::minute ](d: &chrono::DateTime<Tz>) -> (r: u32)
    ensures r == dt_minute(d);
pub assume_specification<Tz: chrono::TimeZone>[ <chrono::DateTime<Tz> as chrono::Timelike>::second ](d: &chrono::DateTime<Tz>) -> (r: u32)
    ensures r == dt_second(d);

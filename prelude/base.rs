// ================================================================================================
// TRUSTED prelude (hand written): external type specifications, oracles and assumed specifications
// for the std / chrono functions that the copied flexi_logger bodies call. Nothing in here is proved.
// ================================================================================================
//@ include prelude/types.rs
#[verifier::external_type_specification]
#[verifier::external_body]
#[verifier::reject_recursive_types(Tz)]
pub struct ExDateTime<Tz: chrono::TimeZone>(chrono::DateTime<Tz>);

#[verifier::external_type_specification]
#[verifier::external_body]
pub struct ExLocal(chrono::Local);

#[verifier::external_type_specification]
#[verifier::external_body]
pub struct ExFile(std::fs::File);

#[verifier::external_type_specification]
#[verifier::external_body]
pub struct ExOpenOptions(std::fs::OpenOptions);

#[verifier::external_type_specification]
#[verifier::external_body]
pub struct ExMetadata(std::fs::Metadata);

// ---- paths ---------------------------------------------------------------------------------------
/// Abstract value of a path: the sequence of its characters (lossy view is never inspected here).
pub uninterp spec fn path_view(p: &std::path::Path) -> Seq<char>;
pub uninterp spec fn pathbuf_view(p: &std::path::PathBuf) -> Seq<char>;

pub assume_specification[ <std::path::PathBuf as core::ops::Deref>::deref ](p: &std::path::PathBuf) -> (r: &std::path::Path)
    ensures path_view(r) == pathbuf_view(p);

pub assume_specification[ <std::path::PathBuf as Clone>::clone ](p: &std::path::PathBuf) -> (r: std::path::PathBuf)
    ensures pathbuf_view(&r) == pathbuf_view(p);

// ---- io::Error -----------------------------------------------------------------------------------
pub uninterp spec fn io_error_kind(e: &std::io::Error) -> std::io::ErrorKind;

pub assume_specification[ std::io::Error::kind ](e: &std::io::Error) -> (k: std::io::ErrorKind)
    ensures k == io_error_kind(e);

// ---- clock (A2: frozen during one verified call) ---------------------------------------------------
pub uninterp spec fn clock_now() -> chrono::DateTime<chrono::Local>;

pub assume_specification[ chrono::Local::now ]() -> (r: chrono::DateTime<chrono::Local>)
    ensures r == clock_now();

// chrono accessors as uninterpreted field functions (A3)
pub uninterp spec fn dt_year<Tz: chrono::TimeZone>(d: &chrono::DateTime<Tz>) -> i32;
pub uninterp spec fn dt_month<Tz: chrono::TimeZone>(d: &chrono::DateTime<Tz>) -> u32;
pub uninterp spec fn dt_day<Tz: chrono::TimeZone>(d: &chrono::DateTime<Tz>) -> u32;
pub uninterp spec fn dt_hour<Tz: chrono::TimeZone>(d: &chrono::DateTime<Tz>) -> u32;
pub uninterp spec fn dt_minute<Tz: chrono::TimeZone>(d: &chrono::DateTime<Tz>) -> u32;
pub uninterp spec fn dt_second<Tz: chrono::TimeZone>(d: &chrono::DateTime<Tz>) -> u32;

pub assume_specification<Tz: chrono::TimeZone>[ <chrono::DateTime<Tz> as chrono::Datelike>::year ](d: &chrono::DateTime<Tz>) -> (r: i32)
    ensures r == dt_year(d);
pub assume_specification<Tz: chrono::TimeZone>[ <chrono::DateTime<Tz> as chrono::Datelike>::month ](d: &chrono::DateTime<Tz>) -> (r: u32)
    ensures r == dt_month(d);
pub assume_specification<Tz: chrono::TimeZone>[ <chrono::DateTime<Tz> as chrono::Datelike>::day ](d: &chrono::DateTime<Tz>) -> (r: u32)
    ensures r == dt_day(d);
pub assume_specification<Tz: chrono::TimeZone>[ <chrono::DateTime<Tz> as chrono::Timelike>::hour ](d: &chrono::DateTime<Tz>) -> (r: u32)
    ensures r == dt_hour(d);
pub assume_specification<Tz: chrono::TimeZone>[ <chrono::DateTime<Tz> as chrono::Timelike>::minute ](d: &chrono::DateTime<Tz>) -> (r: u32)
    ensures r == dt_minute(d);
pub assume_specification<Tz: chrono::TimeZone>[ <chrono::DateTime<Tz> as chrono::Timelike>::second ](d: &chrono::DateTime<Tz>) -> (r: u32)
    ensures r == dt_second(d);

// ---- file system oracles (A2: answers are functions of their arguments during one verified call) ----
pub uninterp spec fn fs_rename_result(from: Seq<char>, to: Seq<char>) -> Result<(), std::io::Error>;
pub uninterp spec fn fs_remove_result(p: Seq<char>) -> Result<(), std::io::Error>;
pub uninterp spec fn fs_metadata_result(p: Seq<char>) -> Result<std::fs::Metadata, std::io::Error>;
pub uninterp spec fn metadata_len(m: &std::fs::Metadata) -> u64;

/// how a file was opened
pub ghost struct OpenFlags { pub write: bool, pub create: bool, pub append: bool, pub truncate: bool }
pub uninterp spec fn oo_flags(o: &std::fs::OpenOptions) -> OpenFlags;
/// identity of an open file: the path it was opened at and the flags used
pub uninterp spec fn file_path(f: &std::fs::File) -> Seq<char>;
pub uninterp spec fn file_flags(f: &std::fs::File) -> OpenFlags;

pub uninterp spec fn aspath<P>(p: P) -> Seq<char>;
pub broadcast axiom fn ax_aspath_pathbuf(p: std::path::PathBuf)
    ensures #[trigger] aspath::<std::path::PathBuf>(p) == pathbuf_view(&p);
pub broadcast axiom fn ax_aspath_ref_pathbuf(p: &std::path::PathBuf)
    ensures #[trigger] aspath::<&std::path::PathBuf>(p) == pathbuf_view(p);
pub broadcast axiom fn ax_aspath_ref_path(p: &std::path::Path)
    ensures #[trigger] aspath::<&std::path::Path>(p) == path_view(p);
pub broadcast group group_aspath { ax_aspath_pathbuf, ax_aspath_ref_pathbuf, ax_aspath_ref_path }

pub assume_specification[ std::fs::OpenOptions::new ]() -> (r: std::fs::OpenOptions)
    ensures oo_flags(&r) == (OpenFlags { write: false, create: false, append: false, truncate: false });
pub assume_specification[ std::fs::OpenOptions::write ](o: &mut std::fs::OpenOptions, b: bool) -> (r: &mut std::fs::OpenOptions)
    ensures oo_flags(r) == (OpenFlags { write: b, ..oo_flags(old(o)) });
pub assume_specification[ std::fs::OpenOptions::create ](o: &mut std::fs::OpenOptions, b: bool) -> (r: &mut std::fs::OpenOptions)
    ensures oo_flags(r) == (OpenFlags { create: b, ..oo_flags(old(o)) });
pub assume_specification[ std::fs::OpenOptions::append ](o: &mut std::fs::OpenOptions, b: bool) -> (r: &mut std::fs::OpenOptions)
    ensures oo_flags(r) == (OpenFlags { append: b, ..oo_flags(old(o)) });
pub assume_specification[ std::fs::OpenOptions::truncate ](o: &mut std::fs::OpenOptions, b: bool) -> (r: &mut std::fs::OpenOptions)
    ensures oo_flags(r) == (OpenFlags { truncate: b, ..oo_flags(old(o)) });
/// `open`: whether it succeeds is not modelled (it may be called several times with the same
/// arguments in one body); a successful open yields a file identified by path and flags.
#[verifier::allow(undeclared_external_trait)]
pub assume_specification<P: AsRef<std::path::Path>>[ std::fs::OpenOptions::open ](o: &std::fs::OpenOptions, p: P) -> (r: Result<std::fs::File, std::io::Error>)
    ensures r is Ok ==> file_flags(&r->Ok_0) == oo_flags(o) && file_path(&r->Ok_0) == aspath::<P>(p) && opened_token();
/// token fact: a file has been opened (created) with success in this call - only `OpenOptions::open` establishes it
pub uninterp spec fn opened_token() -> bool;

#[verifier::allow(undeclared_external_trait)]
pub assume_specification<P: AsRef<std::path::Path>, Q: AsRef<std::path::Path>>[ std::fs::rename ](from: P, to: Q) -> (r: Result<(), std::io::Error>)
    ensures r == fs_rename_result(aspath::<P>(from), aspath::<Q>(to));
#[verifier::allow(undeclared_external_trait)]
pub assume_specification<P: AsRef<std::path::Path>>[ std::fs::remove_file ](p: P) -> (r: Result<(), std::io::Error>)
    ensures r == fs_remove_result(aspath::<P>(p));
#[verifier::allow(undeclared_external_trait)]
pub assume_specification<P: AsRef<std::path::Path>>[ std::fs::metadata ](p: P) -> (r: Result<std::fs::Metadata, std::io::Error>)
    ensures r == fs_metadata_result(aspath::<P>(p));
/// (not used by the code as it is) the metadata of an open file: an oracle of the file
pub uninterp spec fn file_metadata_result(f: &std::fs::File) -> Result<std::fs::Metadata, std::io::Error>;
pub assume_specification[ std::fs::File::metadata ](f: &std::fs::File) -> (r: Result<std::fs::Metadata, std::io::Error>)
    ensures r == file_metadata_result(f);
#[verifier::external_type_specification]
#[verifier::external_body]
pub struct ExSystemTime(std::time::SystemTime);
pub assume_specification[ std::fs::Metadata::len ](m: &std::fs::Metadata) -> (r: u64)
    ensures r == metadata_len(m);

/// token fact: a write of exactly these bytes was attempted on a log writer - only `VWriter::write_all` establishes it ("only records whose OWN
/// write failed may be missing": an error result without an attempted write is not a failed write)
pub uninterp spec fn write_attempted(buf: Seq<u8>) -> bool;
// ---- the writer shim (rule R1): Box<dyn Write + Send> of state.rs -----------------------------------
/// What has been handed to a writer object since it was created, and how much of it is known to be flushed.
pub ghost struct WView { pub written: Seq<u8>, pub flushed: nat, pub flush_calls: nat }
/// What a writer object is attached to.
pub ghost struct WSrc { pub path: Seq<char>, pub flags: OpenFlags, pub buffered: Option<usize> }

#[verifier::external_body]
pub struct VWriter { _w: Box<dyn std::io::Write + Send> }

pub trait VWritable: Sized { spec fn wsrc(&self) -> WSrc; }
impl VWritable for std::fs::File {
    open spec fn wsrc(&self) -> WSrc { WSrc { path: file_path(self), flags: file_flags(self), buffered: None } }
}
#[verifier::external_type_specification]
#[verifier::external_body]
#[verifier::reject_recursive_types(W)]
pub struct ExBufWriter<W: ?Sized + std::io::Write>(std::io::BufWriter<W>);
pub uninterp spec fn bufwriter_inner<W: std::io::Write>(b: &std::io::BufWriter<W>) -> W;
pub uninterp spec fn bufwriter_cap<W: std::io::Write>(b: &std::io::BufWriter<W>) -> usize;
impl VWritable for std::io::BufWriter<std::fs::File> {
    open spec fn wsrc(&self) -> WSrc {
        WSrc { path: file_path(&bufwriter_inner(self)), flags: file_flags(&bufwriter_inner(self)), buffered: Some(bufwriter_cap(self)) }
    }
}
#[verifier::allow(undeclared_external_trait)]
pub assume_specification<W: std::io::Write>[ std::io::BufWriter::<W>::with_capacity ](cap: usize, f: W) -> (r: std::io::BufWriter<W>)
    ensures bufwriter_inner(&r) == f, bufwriter_cap(&r) == cap;

pub open spec fn is_prefix(a: Seq<u8>, b: Seq<u8>) -> bool {
    a.len() <= b.len() && forall|i: int| 0 <= i < a.len() ==> a[i] == b[i]
}

impl VWriter {
    pub uninterp spec fn view(&self) -> WView;
    pub uninterp spec fn src(&self) -> WSrc;

    /// R1b: `Box::new(w)` at a writer-typed position
    #[verifier::external_body]
    pub fn from_write<W: VWritable>(w: W) -> (r: VWriter)
        ensures r@ == (WView { written: Seq::<u8>::empty(), flushed: 0, flush_calls: 0 }), r.src() == w.wsrc(),
    { unimplemented!() }

    /// `Write::write_all` (A1): all of `buf` is appended or an error is returned after a prefix of it
    #[verifier::external_body]
    pub fn write_all(&mut self, buf: &[u8]) -> (r: Result<(), std::io::Error>)
        ensures
            final(self).src() == old(self).src(),
            final(self)@.flush_calls == old(self)@.flush_calls,
            final(self)@.flushed >= old(self)@.flushed,
            r is Ok ==> final(self)@.written == old(self)@.written + buf@,
            r is Err ==> is_prefix(old(self)@.written, final(self)@.written) && is_prefix(final(self)@.written, old(self)@.written + buf@),
            write_attempted(buf@),
    { unimplemented!() }

    /// `Write::flush` (A1)
    #[verifier::external_body]
    pub fn flush(&mut self) -> (r: Result<(), std::io::Error>)
        ensures
            final(self).src() == old(self).src(),
            final(self)@.written == old(self)@.written,
            final(self)@.flush_calls == old(self)@.flush_calls + 1,
            final(self)@.flushed >= old(self)@.flushed,
            r is Ok ==> final(self)@.flushed == final(self)@.written.len(),
    { unimplemented!() }
}

//@ include prelude/combinators.rs
pub assume_specification[ std::time::Duration::from_secs ](secs: u64) -> (r: std::time::Duration);

// ---- equality on std::io::ErrorKind (fieldless enum; `==` / `!=` are the derived comparisons) --------
pub mod cmp_axioms {
    use super::*;
    use vstd::std_specs::cmp::PartialEqSpec;
    pub broadcast axiom fn ax_errorkind_eq(a: std::io::ErrorKind, b: std::io::ErrorKind)
        ensures #[trigger] a.eq_spec(&b) == (a == b);
    pub broadcast axiom fn ax_errorkind_obeys()
        ensures #[trigger] <std::io::ErrorKind as PartialEqSpec>::obeys_eq_spec();
    pub broadcast group group_errorkind_eq { ax_errorkind_eq, ax_errorkind_obeys }
}

// ---- printing (effects on stdout/stderr are not modelled) -------------------------------------------
pub assume_specification[ std::io::_print ](_0: std::fmt::Arguments<'_>);
pub assume_specification[ std::io::_eprint ](_0: std::fmt::Arguments<'_>);
#[verifier::external_type_specification]
#[verifier::external_body]
pub struct ExPathDisplay<'a>(std::path::Display<'a>);
pub assume_specification<'a>[ std::path::Path::display ](p: &'a std::path::Path) -> (r: std::path::Display<'a>);
/// formatting a `std::path::Display` has no precondition (vstd's `fmt_req`)
pub broadcast axiom fn ax_fmt_req_all_path_display<'a>()
    ensures #[trigger] vstd::std_specs::fmt::fmt_req_all::<std::path::Display<'a>>();

// ---- PathBuf construction used by reopen_outputfile -------------------------------------------------
pub uninterp spec fn path_with_extension(p: Seq<char>, ext: Seq<char>) -> Seq<char>;
#[verifier::allow(undeclared_external_trait)]
pub assume_specification<'a, T: ?Sized + AsRef<std::ffi::OsStr>>[ <std::path::PathBuf as From<&'a T>>::from ](p: &T) -> (r: std::path::PathBuf)
    ensures pathbuf_view(&r) == aspath::<&T>(p);
#[verifier::allow(undeclared_external_trait)]
pub assume_specification<S: AsRef<std::ffi::OsStr>>[ std::path::PathBuf::set_extension ](p: &mut std::path::PathBuf, ext: S) -> (r: bool)
    ensures pathbuf_view(final(p)) == path_with_extension(pathbuf_view(old(p)), asosstr::<S>(ext));
pub uninterp spec fn asosstr<S>(s: S) -> Seq<char>;
pub broadcast axiom fn ax_asosstr_str(s: &str)
    ensures #[trigger] asosstr::<&str>(s) == s@;

// ---- further std / chrono API, specified so that code using it is verified against the contracts ------------
// (uninterpreted where the semantics is outside the verifier: a change that switches to these functions then
//  fails the postcondition it no longer implements instead of leaving the unit undecided)
pub uninterp spec fn dt_timestamp<Tz: chrono::TimeZone>(d: &chrono::DateTime<Tz>) -> i64;
pub assume_specification<Tz: chrono::TimeZone>[ chrono::DateTime::<Tz>::timestamp ](d: &chrono::DateTime<Tz>) -> (r: i64)
    ensures r == dt_timestamp(d);
pub uninterp spec fn dt_timestamp_millis<Tz: chrono::TimeZone>(d: &chrono::DateTime<Tz>) -> i64;
pub assume_specification<Tz: chrono::TimeZone>[ chrono::DateTime::<Tz>::timestamp_millis ](d: &chrono::DateTime<Tz>) -> (r: i64)
    ensures r == dt_timestamp_millis(d);
pub uninterp spec fn i64_div_euclid(a: i64, b: i64) -> i64;
pub uninterp spec fn i64_rem_euclid(a: i64, b: i64) -> i64;
pub assume_specification[ i64::div_euclid ](a: i64, b: i64) -> (r: i64)
    requires b != 0 && !(a == i64::MIN && b == -1),
    ensures r == i64_div_euclid(a, b);
pub assume_specification[ i64::rem_euclid ](a: i64, b: i64) -> (r: i64)
    requires b != 0 && !(a == i64::MIN && b == -1),
    ensures r == i64_rem_euclid(a, b);

pub assume_specification<T>[ core::mem::drop ](x: T);

#[verifier::external_type_specification]
#[verifier::external_body]
pub struct ExSink(std::io::Sink);
pub assume_specification[ std::io::sink ]() -> (r: std::io::Sink);
/// a writer that discards everything is attached to nothing
pub uninterp spec fn nowhere() -> Seq<char>;
impl VWritable for std::io::Sink {
    open spec fn wsrc(&self) -> WSrc { WSrc { path: nowhere(), flags: OpenFlags { write: false, create: false, append: false, truncate: false }, buffered: None } }
}
pub assume_specification<T>[ core::mem::replace ](dest: &mut T, src: T) -> (r: T)
    ensures *final(dest) == src, r == *old(dest);
pub uninterp spec fn fs_exists(p: Seq<char>) -> bool;
pub assume_specification[ std::path::Path::exists ](p: &std::path::Path) -> (r: bool)
    ensures r == fs_exists(path_view(p));
pub uninterp spec fn fs_is_file(p: Seq<char>) -> bool;
pub assume_specification[ std::path::Path::is_file ](p: &std::path::Path) -> (r: bool)
    ensures r == fs_is_file(path_view(p));
pub uninterp spec fn fs_is_dir(p: Seq<char>) -> bool;
pub assume_specification[ std::path::Path::is_dir ](p: &std::path::Path) -> (r: bool)
    ensures r == fs_is_dir(path_view(p));

// ---- combinators on Option / Result that vstd does not specify (closure contracts flow through) ------
pub assume_specification<T, F: FnOnce() -> Option<T>>[ Option::<T>::or_else ](o: Option<T>, f: F) -> (r: Option<T>)
    requires o is None ==> f.requires(()),
    ensures o is Some ==> r == o, o is None ==> f.ensures((), r);
pub assume_specification<T, E, F2, O: FnOnce(E) -> Result<T, F2>>[ Result::<T, E>::or_else ](res: Result<T, E>, op: O) -> (r: Result<T, F2>)
    requires res is Err ==> op.requires((res->Err_0,)),
    ensures res is Ok ==> r is Ok && r->Ok_0 == res->Ok_0, res is Err ==> op.ensures((res->Err_0,), r);
pub assume_specification<T, E, F: FnOnce(E) -> T>[ Result::<T, E>::unwrap_or_else ](res: Result<T, E>, op: F) -> (r: T)
    requires res is Err ==> op.requires((res->Err_0,)),
    ensures res is Ok ==> r == res->Ok_0, res is Err ==> op.ensures((res->Err_0,), r);
pub assume_specification<T, U, F: FnOnce(T) -> U>[ Option::<T>::map_or ](o: Option<T>, default: U, f: F) -> (r: U)
    requires o is Some ==> f.requires((o->Some_0,)),
    ensures o is None ==> r == default, o is Some ==> f.ensures((o->Some_0,), r);
pub assume_specification<'a, T: Copy>[ Option::<&'a T>::copied ](o: Option<&'a T>) -> (r: Option<T>)
    ensures r == match o { Some(x) => Some(*x), None => None };
// (not used by the code as it is; specified so that a refactoring through them is decided instead of rejected)
pub assume_specification<T, E, F: FnOnce(T) -> bool>[ Result::<T, E>::is_ok_and ](res: Result<T, E>, f: F) -> (r: bool)
    requires res is Ok ==> f.requires((res->Ok_0,)),
    ensures res is Err ==> !r, res is Ok ==> f.ensures((res->Ok_0,), r);
pub assume_specification<T, E, F: FnOnce(E) -> bool>[ Result::<T, E>::is_err_and ](res: Result<T, E>, f: F) -> (r: bool)
    requires res is Err ==> f.requires((res->Err_0,)),
    ensures res is Ok ==> !r, res is Err ==> f.ensures((res->Err_0,), r);
pub assume_specification<T, F: FnOnce(T) -> bool>[ Option::<T>::is_some_and ](o: Option<T>, f: F) -> (r: bool)
    requires o is Some ==> f.requires((o->Some_0,)),
    ensures o is None ==> !r, o is Some ==> f.ensures((o->Some_0,), r);
pub assume_specification<T, F: FnOnce(T) -> bool>[ Option::<T>::is_none_or ](o: Option<T>, f: F) -> (r: bool)
    requires o is Some ==> f.requires((o->Some_0,)),
    ensures o is None ==> r, o is Some ==> f.ensures((o->Some_0,), r);
pub assume_specification<T>[ bool::then_some ](b: bool, t: T) -> (r: Option<T>)
    ensures r == (if b { Some(t) } else { None });
pub assume_specification<T, P: FnOnce(&T) -> bool>[ Option::<T>::filter ](o: Option<T>, p: P) -> (r: Option<T>)
    requires o is Some ==> p.requires((&o->Some_0,)),
    ensures o is None ==> r is None, o is Some ==> (r == o || r is None) && p.ensures((&o->Some_0,), r is Some);
pub assume_specification<T, U, D: FnOnce() -> U, F: FnOnce(T) -> U>[ Option::<T>::map_or_else ](o: Option<T>, default: D, f: F) -> (r: U)
    requires o is None ==> default.requires(()), o is Some ==> f.requires((o->Some_0,)),
    ensures o is None ==> default.ensures((), r), o is Some ==> f.ensures((o->Some_0,), r);
pub assume_specification<T>[ Option::<T>::or ](o: Option<T>, optb: Option<T>) -> (r: Option<T>)
    ensures r == (if o is Some { o } else { optb });
pub assume_specification<T>[ Option::<T>::replace ](o: &mut Option<T>, value: T) -> (r: Option<T>)
    ensures r == *old(o), *final(o) == Some(value);
pub assume_specification<T, E, U, F: FnOnce(T) -> Result<U, E>>[ Result::<T, E>::and_then ](res: Result<T, E>, op: F) -> (r: Result<U, E>)
    requires res is Ok ==> op.requires((res->Ok_0,)),
    ensures res is Err ==> r is Err && r->Err_0 == res->Err_0, res is Ok ==> op.ensures((res->Ok_0,), r);
pub assume_specification<T, E, F: FnOnce(&T)>[ Result::<T, E>::inspect ](res: Result<T, E>, f: F) -> (r: Result<T, E>)
    requires res is Ok ==> f.requires((&res->Ok_0,)),
    ensures r == res;
pub assume_specification<T, E, U, F: FnOnce(T) -> U>[ Result::<T, E>::map_or ](res: Result<T, E>, default: U, f: F) -> (r: U)
    requires res is Ok ==> f.requires((res->Ok_0,)),
    ensures res is Err ==> r == default, res is Ok ==> f.ensures((res->Ok_0,), r);
pub assume_specification<T, E>[ Result::<T, E>::unwrap_or ](res: Result<T, E>, default: T) -> (r: T)
    ensures r == (match res { Ok(t) => t, Err(_) => default });

// ---- TRUSTED prelude (axioms, shims) + PROVED lemmas: UTF-8 byte offsets of character positions (units ffilter, hindex) ----
/// UTF-8 (as in unit `infix`): the length of a string in bytes is the sum of the widths of its characters
pub uninterp spec fn byte_len(s: Seq<char>) -> nat;
pub uninterp spec fn utf8_width(c: char) -> nat;
pub broadcast axiom fn ax_byte_len_empty(s: Seq<char>)
    requires s.len() == 0,
    ensures #[trigger] byte_len(s) == 0;
pub broadcast axiom fn ax_byte_len_step(s: Seq<char>)
    requires s.len() > 0,
    ensures #[trigger] byte_len(s) == utf8_width(s[0]) + byte_len(s.subrange(1, s.len() as int));
pub broadcast axiom fn ax_utf8_width(c: char)
    ensures 1 <= #[trigger] utf8_width(c) <= 4, (c as u32) < 128 ==> utf8_width(c) == 1;
/// byte offset of the character position k
pub open spec fn offset_of(s: Seq<char>, k: int) -> nat { byte_len(s.subrange(0, k)) }
/// position of the first occurrence of c, or the length
pub open spec fn first_pos(s: Seq<char>, c: char) -> int
    decreases s.len()
{
    if s.len() == 0 { 0 } else if s[0] == c { 0 } else { 1 + first_pos(s.subrange(1, s.len() as int), c) }
}
pub broadcast proof fn lemma_first_pos(s: Seq<char>, c: char)
    ensures 0 <= #[trigger] first_pos(s, c) <= s.len(),
        forall|i: int| 0 <= i < first_pos(s, c) ==> s[i] != c,
        first_pos(s, c) < s.len() ==> s[first_pos(s, c)] == c,
    decreases s.len()
{
    if s.len() > 0 && s[0] != c {
        let t = s.subrange(1, s.len() as int);
        lemma_first_pos(t, c);
        assert forall|i: int| 0 <= i < first_pos(s, c) implies s[i] != c by {
            if i > 0 { assert(s[i] == t[i - 1]); }
        }
        if first_pos(s, c) < s.len() { assert(s[first_pos(s, c)] == t[first_pos(t, c)]); }
    }
}
/// R25 SHIM for `str::len()`
pub trait VLen { fn vlen(&self) -> usize; }
impl VLen for str {
    #[verifier::external_body]
    fn vlen(&self) -> (r: usize)
        ensures r == byte_len(self@), r == offset_of(self@, self@.len() as int)
    { self.len() }
}
impl VLen for String {
    #[verifier::external_body]
    fn vlen(&self) -> (r: usize)
        ensures r == byte_len(self@), r == offset_of(self@, self@.len() as int)
    { self.len() }
}
/// R28 SHIMS: `s.find(c)` -> `s.vfind(c)`: the byte offset of the first occurrence; `&s[..end]` -> `s.vslice_to(end)`: the text
/// before a byte offset, which must be a character boundary (the panic of str slicing is the precondition, C10);
/// `&cow[..]` -> `vfull(&cow)`: the whole text
pub open spec fn boundary(s: Seq<char>, end: nat) -> bool { exists|k: int| 0 <= k <= s.len() && #[trigger] offset_of(s, k) == end }
pub trait VFind: vstd::view::View<V = Seq<char>> {
    fn vfind(&self, c: char) -> (r: Option<usize>)
        ensures
            r is None <==> first_pos(self@, c) == self@.len(),
            r is Some ==> r->Some_0 == offset_of(self@, first_pos(self@, c));
    fn vslice_to(&self, end: usize) -> (r: &str)
        requires
            boundary(self@, end as nat), //@label str_slice.char_boundary C10
        ensures
            // the text before the position whose offset is `end` (an offset identifies its position: lemma_offset_injective)
            forall|k: int| 0 <= k <= self@.len() && #[trigger] offset_of(self@, k) == end ==> r@ == self@.subrange(0, k);
    /// `s.get(start..)` (not used by the code as it is)
    fn vget_from(&self, start: usize) -> (r: Option<&str>)
        ensures
            r is Some <==> boundary(self@, start as nat),
            r is Some ==> forall|k: int| 0 <= k <= self@.len() && #[trigger] offset_of(self@, k) == start ==> (r->Some_0)@ == self@.subrange(k, self@.len() as int);
}
impl VFind for str {
    #[verifier::external_body]
    fn vfind(&self, c: char) -> (r: Option<usize>)
    { self.find(c) }
    #[verifier::external_body]
    fn vslice_to(&self, end: usize) -> (r: &str)
    { &self[..end] }
    #[verifier::external_body]
    fn vget_from(&self, start: usize) -> (r: Option<&str>)
    { self.get(start..) }
}
#[verifier::external_body]
pub fn vfull<'a>(c: &'a std::borrow::Cow<'a, str>) -> (r: &'a str)
    ensures r@ == cow_text(*c)
{ &c[..] }

/// offsets grow strictly with the position: an offset identifies its position
pub proof fn lemma_offset_step(s: Seq<char>, k: int)
    requires 0 <= k < s.len(),
    ensures offset_of(s, k + 1) == offset_of(s, k) + utf8_width(s[k]),
    decreases k
{
    broadcast use ax_byte_len_empty, ax_byte_len_step, ax_utf8_width;
    if k == 0 {
        assert(s.subrange(0, 1).subrange(1, 1).len() == 0);
        assert(s.subrange(0, 0).len() == 0);
        assert(s.subrange(0, 1)[0] == s[0]);
    } else {
        let t = s.subrange(1, s.len() as int);
        lemma_offset_step(t, k - 1);
        assert(s.subrange(0, k + 1).subrange(1, k + 1) =~= t.subrange(0, k));
        assert(s.subrange(0, k).subrange(1, k) =~= t.subrange(0, k - 1));
        assert(s.subrange(0, k + 1)[0] == s[0] && s.subrange(0, k)[0] == s[0]);
        assert(t[k - 1] == s[k]);
    }
}
pub proof fn lemma_offset_mono(s: Seq<char>, i: int, j: int)
    requires 0 <= i < j <= s.len(),
    ensures offset_of(s, i) < offset_of(s, j),
    decreases j - i
{
    broadcast use ax_utf8_width;
    lemma_offset_step(s, j - 1);
    if i < j - 1 { lemma_offset_mono(s, i, j - 1); }
}
pub proof fn lemma_offset_injective(s: Seq<char>, i: int, j: int)
    requires 0 <= i <= s.len(), 0 <= j <= s.len(), offset_of(s, i) == offset_of(s, j),
    ensures i == j,
{
    if i < j { lemma_offset_mono(s, i, j); }
    if j < i { lemma_offset_mono(s, j, i); }
}


// ---- TRUSTED prelude: external type specifications shared by all units --------------------------------
#[verifier::external_type_specification]
#[verifier::external_body]
pub struct ExPath(std::path::Path);

#[verifier::external_type_specification]
#[verifier::external_body]
pub struct ExPathBuf(std::path::PathBuf);

#[verifier::external_type_specification]
#[verifier::external_body]
pub struct ExIoError(std::io::Error);

#[verifier::external_type_specification]
pub struct ExIoErrorKind(std::io::ErrorKind);


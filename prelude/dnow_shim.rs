/// SHIM for DeferredNow where only its identity matters (C20 "all outputs of one record carry the same timestamp").
/// The type is abstract (no extensionality): two holders are not provably the same. `origin()` names the holder a value
/// descends from; every function that is handed a holder keeps its origin, and may hand on only a holder of that origin
/// (permission `now_ok`, stated per function as `forall o: now_ok(o) <==> o == old(now).origin()`). `DeferredNow::now()`
/// reads the clock once per holder (unit `dnow`), so one origin is one timestamp.
#[verifier::external_body]
pub struct DeferredNow { _o: () }
impl DeferredNow {
    pub uninterp spec fn origin(&self) -> int;
    /// a new holder: its origin is an unrelated unknown
    #[verifier::external_body]
    pub fn new() -> (r: DeferredNow) { unimplemented!() }
}
/// permission: the holder (by origin) that may be handed on to an output / a format function
pub uninterp spec fn now_ok(origin: int) -> bool;

// ---- TRUSTED prelude: eager iterators (rule R20) --------------------------------------------------------
// `x.into_iter()` is rewritten to `x.vinto_iter()`, which yields a `VIter<T>`: the elements as a vector, with *inherent*
// methods named like the Iterator adapters the code goes on to call (`map`, `filter`, `filter_map`, `reduce`, `collect`).
// Iterator's own adapters are provided trait methods, for which Verus accepts no specification. The adapters are specified
// through the `requires` / `ensures` of the closures they are given; evaluating eagerly instead of lazily is not
// observable for the pure closures of this code base.
pub struct VIter<T> { pub items: Vec<T> }
pub open spec fn vi_kept_if<T, F: Fn(&T) -> bool>(f: F, x: T, r: Seq<T>) -> bool {
    exists|b: bool| #[trigger] f.ensures((&x,), b) && (b ==> r.contains(x))
}
pub open spec fn vi_kept_if_some<T, U, F: Fn(T) -> Option<U>>(f: F, x: T, r: Seq<U>) -> bool {
    exists|y: Option<U>| #[trigger] f.ensures((x,), y) && (y is Some ==> r.contains(y->Some_0))
}
pub open spec fn vi_mark<T>(x: T) -> bool { true }
/// r is a result of folding f over s from the left
pub open spec fn vi_reduce_rel<T, F: Fn(T, T) -> T>(f: F, s: Seq<T>, r: T) -> bool
    decreases s.len()
{
    if s.len() == 0 { false }
    else if s.len() == 1 { r == s[0] }
    else { exists|acc: T| #[trigger] vi_mark(acc) && vi_reduce_rel(f, s.drop_last(), acc) && f.ensures((acc, s.last()), r) }
}
impl<T> VIter<T> {
    pub open spec fn seq(&self) -> Seq<T> { self.items@ }
    #[verifier::external_body]
    pub fn map<U, F: Fn(T) -> U>(self, f: F) -> (r: VIter<U>)
        requires forall|i: int| 0 <= i < self.seq().len() ==> #[trigger] f.requires((self.seq()[i],)),
        ensures r.seq().len() == self.seq().len(),
            forall|i: int| 0 <= i < r.seq().len() ==> f.ensures((self.seq()[i],), #[trigger] r.seq()[i]),
            forall|i: int| 0 <= i < r.seq().len() ==> f.ensures((#[trigger] self.seq()[i],), r.seq()[i]),
    { VIter { items: self.items.into_iter().map(f).collect() } }
    /// what is kept are elements of the input for which f answered true; every element for which f answers true is kept
    #[verifier::external_body]
    pub fn filter<F: Fn(&T) -> bool>(self, f: F) -> (r: VIter<T>)
        requires forall|i: int| 0 <= i < self.seq().len() ==> #[trigger] f.requires((&self.seq()[i],)),
        ensures r.seq().len() <= self.seq().len(),
            forall|j: int| 0 <= j < r.seq().len() ==> self.seq().contains(#[trigger] r.seq()[j]) && f.ensures((&r.seq()[j],), true),
            forall|i: int| 0 <= i < self.seq().len() ==> vi_kept_if(f, #[trigger] self.seq()[i], r.seq()),
            // nothing is dropped only if f answered true for every element
            r.seq().len() == self.seq().len() ==> r.seq() == self.seq(),
    { VIter { items: self.items.into_iter().filter(f).collect() } }
    #[verifier::external_body]
    pub fn filter_map<U, F: Fn(T) -> Option<U>>(self, f: F) -> (r: VIter<U>)
        requires forall|i: int| 0 <= i < self.seq().len() ==> #[trigger] f.requires((self.seq()[i],)),
        ensures r.seq().len() <= self.seq().len(),
            forall|j: int| 0 <= j < r.seq().len() ==> exists|i: int| 0 <= i < self.seq().len() && f.ensures((self.seq()[i],), Some(#[trigger] r.seq()[j])),
            forall|i: int| 0 <= i < self.seq().len() ==> vi_kept_if_some(f, #[trigger] self.seq()[i], r.seq()),
            r.seq().len() > 0 ==> exists|i: int| 0 <= i < self.seq().len() && #[trigger] f.ensures((self.seq()[i],), Some(r.seq()[0])),
    { VIter { items: self.items.into_iter().filter_map(f).collect() } }
    #[verifier::external_body]
    pub fn reduce<F: Fn(T, T) -> T>(self, f: F) -> (r: Option<T>)
        requires forall|a: T, b: T| #[trigger] f.requires((a, b)),
        ensures (r is None) == (self.seq().len() == 0), r is Some ==> vi_reduce_rel(f, self.seq(), r->Some_0),
    { self.items.into_iter().reduce(f) }
    /// `a.chain(b)`: the elements of a, then those of b
    #[verifier::external_body]
    pub fn chain(self, other: Vec<T>) -> (r: VIter<T>)
        ensures r.seq() == self.seq() + other@,
    { let mut items = self.items; items.extend(other); VIter { items } }
    /// `collect()` into a vector
    pub fn collect<B: VFromIter<T>>(self) -> (r: B)
        ensures r.vcollected() == self.seq(),
    { B::vfrom(self) }
}
pub trait VFromIter<T>: Sized {
    spec fn vcollected(&self) -> Seq<T>;
    fn vfrom(it: VIter<T>) -> (r: Self)
        ensures r.vcollected() == it.seq();
}
impl<T> VFromIter<T> for Vec<T> {
    open spec fn vcollected(&self) -> Seq<T> { self@ }
    fn vfrom(it: VIter<T>) -> (r: Vec<T>) { it.items }
}
pub trait VIntoIter<T>: Sized {
    spec fn vitems(&self) -> Seq<T>;
    fn vinto_iter(self) -> (r: VIter<T>)
        ensures r.seq() == self.vitems();
}
impl<T> VIntoIter<T> for Vec<T> {
    open spec fn vitems(&self) -> Seq<T> { self@ }
    fn vinto_iter(self) -> (r: VIter<T>) { VIter { items: self } }
}
/// the entries of a map in the order its iterator yields them (an oracle): every entry exactly once
pub uninterp spec fn map_entries<K, V>(m: Map<K, V>) -> Seq<(K, V)>;
pub broadcast axiom fn ax_map_entries<K, V>(m: Map<K, V>)
    requires m.dom().finite(),
    ensures
        (#[trigger] map_entries(m)).len() == m.dom().len(),
        forall|i: int| 0 <= i < map_entries(m).len() ==> m.contains_pair((#[trigger] map_entries(m)[i]).0, map_entries(m)[i].1),
        forall|i: int, j: int| 0 <= i < j < map_entries(m).len() ==> (#[trigger] map_entries(m)[i]).0 != (#[trigger] map_entries(m)[j]).0,
        forall|k: K| m.dom().contains(k) ==> map_entries(m).contains((k, #[trigger] m[k]));
impl<K, V> VIntoIter<(K, V)> for std::collections::HashMap<K, V> {
    open spec fn vitems(&self) -> Seq<(K, V)> { map_entries(self@) }
    #[verifier::external_body]
    fn vinto_iter(self) -> (r: VIter<(K, V)>) { VIter { items: self.into_iter().collect() } }
}

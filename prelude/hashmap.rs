// ---- TRUSTED prelude: HashMap<String, V> looked up by &str ---------------------------------------------
pub mod strmap_axioms {
    use super::*;
    use vstd::std_specs::hash::*;
    /// the entry of a String-keyed map whose key has the given characters (what `get(&str)` finds)
    pub uninterp spec fn str_lookup<V>(m: Map<String, V>, name: Seq<char>) -> Option<V>;
    pub broadcast axiom fn ax_string_obeys_key_model()
        ensures #[trigger] obeys_key_model::<String>();
    pub broadcast axiom fn ax_contains_str_key<V>(m: Map<String, V>, k: &str)
        ensures #[trigger] contains_borrowed_key::<String, V, str>(m, k) <==> str_lookup(m, k@) is Some;
    pub broadcast axiom fn ax_maps_str_key<V>(m: Map<String, V>, k: &str, v: V)
        ensures #[trigger] maps_borrowed_key_to_value::<String, V, str>(m, k, v) <==> str_lookup(m, k@) == Some(v);
    pub broadcast group group_strmap { ax_string_obeys_key_model, ax_contains_str_key, ax_maps_str_key }
}

// ---- TRUSTED prelude: std::sync locks (interior mutability is not modelled; A10: locks are not poisoned) ----
#[verifier::external_type_specification]
#[verifier::external_body]
#[verifier::reject_recursive_types(T)]
pub struct ExRwLock<T: ?Sized>(std::sync::RwLock<T>);
#[verifier::external_type_specification]
#[verifier::external_body]
#[verifier::reject_recursive_types(T)]
pub struct ExRwLockReadGuard<'a, T: ?Sized>(std::sync::RwLockReadGuard<'a, T>);
#[verifier::external_type_specification]
#[verifier::external_body]
#[verifier::reject_recursive_types(T)]
pub struct ExRwLockWriteGuard<'a, T: ?Sized + 'a>(std::sync::RwLockWriteGuard<'a, T>);
#[verifier::external_type_specification]
#[verifier::external_body]
#[verifier::reject_recursive_types(T)]
pub struct ExPoisonError<T>(std::sync::PoisonError<T>);

/// oracle: the value stored in a lock when it is read (a function of the lock *value*: a `&mut` shim may
/// replace the lock value to model a write, see units/handle_*.rs)
pub uninterp spec fn lock_content<T: ?Sized>(l: &std::sync::RwLock<T>) -> &T;
pub uninterp spec fn rguard_content<'a, T: ?Sized>(g: &std::sync::RwLockReadGuard<'a, T>) -> &'a T;
pub uninterp spec fn wguard_content<'a, T: ?Sized>(g: &std::sync::RwLockWriteGuard<'a, T>) -> &'a T;

pub assume_specification<T: ?Sized>[ std::sync::RwLock::<T>::read ](l: &std::sync::RwLock<T>) -> (r: std::sync::LockResult<std::sync::RwLockReadGuard<'_, T>>)
    ensures r is Ok, rguard_content(&r->Ok_0) == lock_content(l);
pub assume_specification<T: ?Sized>[ std::sync::RwLock::<T>::write ](l: &std::sync::RwLock<T>) -> (r: std::sync::LockResult<std::sync::RwLockWriteGuard<'_, T>>)
    ensures r is Ok, wguard_content(&r->Ok_0) == lock_content(l);
pub assume_specification<'a, 'b, T: ?Sized>[ <std::sync::RwLockReadGuard<'a, T> as core::ops::Deref>::deref ](g: &'b std::sync::RwLockReadGuard<'a, T>) -> (r: &'b T)
    ensures r == rguard_content(g);

// ---- Mutex ---------------------------------------------------------------------------------------------
#[verifier::external_type_specification]
#[verifier::external_body]
#[verifier::reject_recursive_types(T)]
pub struct ExMutex<T: ?Sized>(std::sync::Mutex<T>);
#[verifier::external_type_specification]
#[verifier::external_body]
#[verifier::reject_recursive_types(T)]
pub struct ExMutexGuard<'a, T: ?Sized + 'a>(std::sync::MutexGuard<'a, T>);
/// oracle: whether the lock is poisoned (both outcomes are considered)
pub uninterp spec fn mutex_poisoned<T: ?Sized>(l: &std::sync::Mutex<T>) -> bool;
pub assume_specification<T: ?Sized>[ std::sync::Mutex::<T>::lock ](l: &std::sync::Mutex<T>) -> (r: std::sync::LockResult<std::sync::MutexGuard<'_, T>>)
    ensures r is Ok <==> !mutex_poisoned(l);
pub assume_specification<'a, 'b, T: ?Sized>[ <std::sync::MutexGuard<'a, T> as core::ops::DerefMut>::deref_mut ](g: &'b mut std::sync::MutexGuard<'a, T>) -> (r: &'b mut T);
pub assume_specification<'a, 'b, T: ?Sized>[ <std::sync::MutexGuard<'a, T> as core::ops::Deref>::deref ](g: &'b std::sync::MutexGuard<'a, T>) -> (r: &'b T);

// ---- TRUSTED prelude: std::sync locks (interior mutability is not modelled; A10: locks are not poisoned) ----
#[verifier::external_type_specification]
#[verifier::external_body]
#[verifier::reject_recursive_types(T)]
pub struct ExRwLock<T: ?Sized>(std::sync::RwLock<T>);
#[verifier::external_type_specification]
#[verifier::external_body]
#[verifier::reject_recursive_types(T)]
pub struct ExRwLockReadGuard<'a, T: ?Sized>(std::sync::RwLockReadGuard<'a, T>);
#[verifier::external_type_specification]
#[verifier::external_body]
#[verifier::reject_recursive_types(T)]
pub struct ExRwLockWriteGuard<'a, T: ?Sized + 'a>(std::sync::RwLockWriteGuard<'a, T>);
#[verifier::external_type_specification]
#[verifier::external_body]
#[verifier::reject_recursive_types(T)]
pub struct ExPoisonError<T>(std::sync::PoisonError<T>);

/// oracle: the value stored in a lock when it is read (a function of the lock *value*: a `&mut` shim may
/// replace the lock value to model a write, see units/handle_*.rs)
pub uninterp spec fn lock_content<T: ?Sized>(l: &std::sync::RwLock<T>) -> &T;
pub uninterp spec fn rguard_content<'a, T: ?Sized>(g: &std::sync::RwLockReadGuard<'a, T>) -> &'a T;
pub uninterp spec fn wguard_content<'a, T: ?Sized>(g: &std::sync::RwLockWriteGuard<'a, T>) -> &'a T;

pub assume_specification<T: ?Sized>[ std::sync::RwLock::<T>::read ](l: &std::sync::RwLock<T>) -> (r: std::sync::LockResult<std::sync::RwLockReadGuard<'_, T>>)
    ensures r is Ok, rguard_content(&r->Ok_0) == lock_content(l);
pub assume_specification<T: ?Sized>[ std::sync::RwLock::<T>::write ](l: &std::sync::RwLock<T>) -> (r: std::sync::LockResult<std::sync::RwLockWriteGuard<'_, T>>)
    ensures r is Ok, wguard_content(&r->Ok_0) == lock_content(l), lock_after(l) == wguard_final(&r->Ok_0);
pub assume_specification<'a, 'b, T: ?Sized>[ <std::sync::RwLockReadGuard<'a, T> as core::ops::Deref>::deref ](g: &'b std::sync::RwLockReadGuard<'a, T>) -> (r: &'b T)
    ensures r == rguard_content(g);

// ---- Mutex ---------------------------------------------------------------------------------------------
#[verifier::external_type_specification]
#[verifier::external_body]
#[verifier::reject_recursive_types(T)]
pub struct ExMutex<T: ?Sized>(std::sync::Mutex<T>);
#[verifier::external_type_specification]
#[verifier::external_body]
#[verifier::reject_recursive_types(T)]
pub struct ExMutexGuard<'a, T: ?Sized + 'a>(std::sync::MutexGuard<'a, T>);
/// oracle: whether the lock is poisoned (both outcomes are considered)
pub uninterp spec fn mutex_poisoned<T: ?Sized>(l: &std::sync::Mutex<T>) -> bool;
/// oracle: the value a mutex holds when it is locked / the value behind a guard when it is (first) dereferenced
pub uninterp spec fn mutex_content<T: ?Sized>(l: &std::sync::Mutex<T>) -> &T;
pub uninterp spec fn mguard_content<'a, T: ?Sized>(g: &std::sync::MutexGuard<'a, T>) -> &'a T;
pub assume_specification<T: ?Sized>[ std::sync::Mutex::<T>::lock ](l: &std::sync::Mutex<T>) -> (r: std::sync::LockResult<std::sync::MutexGuard<'_, T>>)
    ensures r is Ok <==> !mutex_poisoned(l), r is Ok ==> mguard_content(&r->Ok_0) == mutex_content(l) && mutex_after(l) == mguard_final(&r->Ok_0);
/// prophecy-style oracles for a Mutex (as `lock_after` / `wguard_final` for the RwLock below; assumption A11)
pub uninterp spec fn mutex_after<T: ?Sized>(l: &std::sync::Mutex<T>) -> &T;
pub uninterp spec fn mguard_final<'a, T: ?Sized>(g: &std::sync::MutexGuard<'a, T>) -> &'a T;
/// a new mutex is not poisoned
pub assume_specification<T>[ std::sync::Mutex::<T>::new ](t: T) -> (r: std::sync::Mutex<T>)
    ensures !mutex_poisoned(&r), mutex_init(&r) == t;
/// the value a mutex was created with (not what it holds at a later lock: that is `mutex_content`)
pub uninterp spec fn mutex_init<T>(l: &std::sync::Mutex<T>) -> T;
pub assume_specification<'a, 'b, T: ?Sized>[ <std::sync::MutexGuard<'a, T> as core::ops::DerefMut>::deref_mut ](g: &'b mut std::sync::MutexGuard<'a, T>) -> (r: &'b mut T)
    ensures same_val::<T>(&*r, mguard_content(old(g))), same_val::<T>(&*final(r), mguard_final(old(g)));
pub assume_specification<'a, 'b, T: ?Sized>[ <std::sync::MutexGuard<'a, T> as core::ops::Deref>::deref ](g: &'b std::sync::MutexGuard<'a, T>) -> (r: &'b T)
    ensures same_val::<T>(r, mguard_content(g));

// ---- "the write did happen" for RwLock (A11) ---------------------------------------------------------------
/// prophecy-style oracles: the content of a lock after the verified call returns, and the content a write guard
/// has when it is dropped. `write()` ties them together; `deref_mut` says the value left behind through the (single)
/// mutable dereference of a guard is the value it is dropped with. Sound under A11: a write guard is dereferenced
/// mutably at most once before it is dropped (true for the temporaries of `lock.write()...?.method(..)` chains).
/// A path that returns without calling `write()` leaves `lock_after` unconstrained, so a postcondition over it
/// cannot be proved there: this is how an omitted update is detected.
pub uninterp spec fn lock_after<T: ?Sized>(l: &std::sync::RwLock<T>) -> &T;
pub uninterp spec fn wguard_final<'a, T: ?Sized>(g: &std::sync::RwLockWriteGuard<'a, T>) -> &'a T;
/// equality of (possibly unsized) referents
pub uninterp spec fn same_val<T: ?Sized>(a: &T, b: &T) -> bool;
pub broadcast axiom fn ax_same_val<T>(a: &T, b: &T)
    ensures #[trigger] same_val::<T>(a, b) == (*a == *b);

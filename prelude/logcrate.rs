// ---- TRUSTED prelude: the `log` crate ---------------------------------------------------------------
#[verifier::external_type_specification]
pub struct ExLevel(log::Level);
#[verifier::external_type_specification]
pub struct ExLevelFilter(log::LevelFilter);

/// Numeric order of the log crate's levels and filters and the cross comparison `Level <= LevelFilter`.
/// The axioms below are discharged by the Kani harnesses of kani/levels.rs over all value pairs.
pub mod level_axioms {
    use super::*;
    use vstd::std_specs::cmp::{PartialOrdSpec, PartialEqSpec, OrdSpec};
    use core::cmp::Ordering;
    pub open spec fn level_num(l: log::Level) -> int {
        match l { log::Level::Error => 1, log::Level::Warn => 2, log::Level::Info => 3, log::Level::Debug => 4, log::Level::Trace => 5 }
    }
    pub open spec fn filter_num(f: log::LevelFilter) -> int {
        match f { log::LevelFilter::Off => 0, log::LevelFilter::Error => 1, log::LevelFilter::Warn => 2, log::LevelFilter::Info => 3,
                  log::LevelFilter::Debug => 4, log::LevelFilter::Trace => 5 }
    }
    pub open spec fn ord_of(a: int, b: int) -> Ordering {
        if a < b { Ordering::Less } else if a == b { Ordering::Equal } else { Ordering::Greater }
    }
    pub broadcast axiom fn ax_level_filter_cmp(l: log::Level, f: log::LevelFilter)
        ensures #[trigger] l.partial_cmp_spec(&f) == Some(ord_of(level_num(l), filter_num(f)));
    pub broadcast axiom fn ax_level_filter_obeys()
        ensures #[trigger] <log::Level as PartialOrdSpec<log::LevelFilter>>::obeys_partial_cmp_spec();
    pub broadcast axiom fn ax_level_level_cmp(l: log::Level, f: log::Level)
        ensures #[trigger] l.partial_cmp_spec(&f) == Some(ord_of(level_num(l), level_num(f)));
    pub broadcast axiom fn ax_level_level_obeys()
        ensures #[trigger] <log::Level as PartialOrdSpec<log::Level>>::obeys_partial_cmp_spec();
    pub broadcast axiom fn ax_level_eq(a: log::Level, b: log::Level)
        ensures #[trigger] a.eq_spec(&b) == (a == b);
    pub broadcast axiom fn ax_level_eq_obeys()
        ensures #[trigger] <log::Level as PartialEqSpec<log::Level>>::obeys_eq_spec();
    pub broadcast axiom fn ax_filter_filter_cmp(l: log::LevelFilter, f: log::LevelFilter)
        ensures #[trigger] l.partial_cmp_spec(&f) == Some(ord_of(filter_num(l), filter_num(f)));
    pub broadcast axiom fn ax_filter_filter_obeys()
        ensures #[trigger] <log::LevelFilter as PartialOrdSpec<log::LevelFilter>>::obeys_partial_cmp_spec();
    /// `LevelFilter == LevelFilter` is equality of the values (Kani harness filter_vs_filter: `(l == m) == (num(l) == num(m))`)
    pub broadcast axiom fn ax_filter_eq(a: log::LevelFilter, b: log::LevelFilter)
        ensures #[trigger] a.eq_spec(&b) == (a == b);
    pub broadcast axiom fn ax_filter_eq_obeys()
        ensures #[trigger] <log::LevelFilter as PartialEqSpec<log::LevelFilter>>::obeys_eq_spec();
    pub broadcast group group_level_axioms {
        ax_level_filter_cmp, ax_level_filter_obeys, ax_level_level_cmp, ax_level_level_obeys, ax_level_eq, ax_level_eq_obeys,
        ax_filter_filter_cmp, ax_filter_filter_obeys, ax_filter_eq, ax_filter_eq_obeys,
    }
}

/// (not used by the code as it is) `LevelFilter::to_level` / `Level::to_level_filter`: the level of the same name, none for Off
pub assume_specification[ log::LevelFilter::to_level ](f: &log::LevelFilter) -> (r: Option<log::Level>)
    ensures r == (match *f { log::LevelFilter::Off => None::<log::Level>, log::LevelFilter::Error => Some(log::Level::Error), log::LevelFilter::Warn => Some(log::Level::Warn),
        log::LevelFilter::Info => Some(log::Level::Info), log::LevelFilter::Debug => Some(log::Level::Debug), log::LevelFilter::Trace => Some(log::Level::Trace) });
pub assume_specification[ log::Level::to_level_filter ](l: &log::Level) -> (r: log::LevelFilter)
    ensures r == (match *l { log::Level::Error => log::LevelFilter::Error, log::Level::Warn => log::LevelFilter::Warn, log::Level::Info => log::LevelFilter::Info,
        log::Level::Debug => log::LevelFilter::Debug, log::Level::Trace => log::LevelFilter::Trace });

/// (not used by the code as it is) the facade's process-global maximum level: an oracle - any part of the process may set it
pub uninterp spec fn facade_max_level() -> log::LevelFilter;
pub assume_specification[ log::max_level ]() -> (r: log::LevelFilter)
    ensures r == facade_max_level();

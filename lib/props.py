"""Which units and Kani groups decide which property (DESIGN.md section 5)."""

# unit name -> feature sets it is generated for (each is one Verus run)
UNITS = {
    "state": [()],
}

# property -> list of (unit, features)
PROP_UNITS = {
    "C01": [("state", ())],
    "C04": [("state", ())],
    "C06": [("state", ())],
    "C08": [("state", ())],
    "C09": [("state", ())],
    "C15": [("state", ())],
    "C18": [("state", ())],
    "C19": [("state", ())],
}

# property -> Kani groups (see lib/kani_unit.py)
PROP_KANI = {
}

# C10 (panic freedom) owns every safety obligation Verus generates in every unit
C10_UNITS = sorted({(u, f) for u, fs in UNITS.items() for f in fs})

CLAIMED = sorted(set(PROP_UNITS) | set(PROP_KANI))
C10_CLAIMED = False

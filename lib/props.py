"""Which units and Kani groups decide which property (DESIGN.md section 5)."""

TF = ("textfilter",)
# unit name -> feature sets it is generated for (each is one Verus run)
UNITS = {
    "state": [()],
    "spec": [TF],
    "handle_a": [TF], "handle_b": [TF], "handle_b2": [TF], "handle_c": [TF], "handle_d": [TF],
    "logger": [TF],
    "lh": [TF],
    "flw": [(), ("async",)],
    "multi": [()],
    "dispatch": [("async",)],
    "handle_async": [("async",)],
    "handle": [()],
    "builder": [(), ("async",)],
    "primary": [()],
    "timestamps": [()],
    "dnow": [()],
    "naming": [()],
    "listing": [()],
    "swrite": [()],
    "cleanup": [()],
    "lbuild": [()],
    "collide": [()],
    "latest": [()],
    "specbuilder": [TF],
    "infix": [()],
    "stdw": [("async",)],
    "wmode": [(), ("async",)],
    "symlink": [()],
    "ffilter": [()],
    "hindex": [()],
    "specparse": [TF],
    "errchan": [()],
    "restartnum": [()],
    "siblings": [()],
    "tsformat": [()],
    "cleanupcall": [()],
    "tsparse": [()],
}

# property -> list of (unit, features)
PROP_UNITS = {
    "C01": [("state", ()), ("handle", ()), ("swrite", ()), ("collide", ()), ("ffilter", ()), ("hindex", ()), ("restartnum", ()), ("siblings", ()), ("lh", TF), ("flw", ()), ("flw", ('async',))],
    "C02": [("spec", TF), ("logger", TF), ("handle_c", TF), ("handle_d", TF), ("lbuild", ()), ("specbuilder", TF), ("flw", ()), ("primary", ())],
    "C04": [("state", ()), ("handle", ()), ("flw", ()), ("primary", ()), ("dispatch", ("async",)), ("stdw", ("async",)), ("lh", TF), ("lbuild", ()), ("handle_async", ("async",)), ("logger", TF), ("wmode", ()), ("wmode", ("async",)), ("multi", ())],
    "C05": [("handle_a", TF), ("handle_b", TF), ("handle_b2", TF), ("handle_c", TF), ("spec", TF), ("lbuild", ()), ("specparse", TF), ("handle_d", TF)],
    "C06": [("state", ()), ("timestamps", ()), ("builder", ()), ("collide", ()), ("latest", ()), ("ffilter", ()), ("hindex", ()), ("restartnum", ()), ("siblings", ()), ("infix", ()), ("lbuild", ()), ("tsparse", ())],
    "C07": [("state", ()), ("listing", ()), ("cleanup", ()), ("collide", ()), ("builder", ()), ("builder", ("async",)), ("ffilter", ()), ("restartnum", ()), ("siblings", ()), ("infix", ()), ("lbuild", ()), ("cleanupcall", ()), ("tsparse", ())],
    "C08": [("state", ()), ("builder", ()), ("flw", ()), ("lbuild", ()), ("multi", ()), ("handle", ())],
    "C09": [("state", ()), ("timestamps", ()), ("builder", ()), ("lbuild", ())],
    "C13": [("logger", TF), ("flw", ()), ("multi", ()), ("primary", ()), ("lh", TF), ("lbuild", ()), ("builder", ())],
    "C14": [("state", ()), ("listing", ()), ("naming", ()), ("timestamps", ()), ("cleanup", ()), ("latest", ()), ("infix", ()), ("symlink", ()), ("ffilter", ()), ("siblings", ()), ("tsparse", ())],
    "C15": [("state", ()), ("handle", ()), ("flw", ()), ("dispatch", ("async",)), ("handle_async", ("async",)), ("swrite", ()), ("stdw", ("async",)), ("lbuild", ()), ("flw", ("async",)), ("primary", ()), ("wmode", ()), ("wmode", ("async",)), ("builder", ()), ("lh", TF)],
    "C16": [("naming", ()), ("listing", ()), ("state", ()), ("builder", ()), ("handle", ()), ("flw", ()), ("multi", ()), ("primary", ()), ("lh", TF), ("symlink", ()), ("ffilter", ()), ("tsformat", ()), ("lbuild", ())],
    "C17": [("specparse", TF)],
    "C18": [("state", ()), ("handle", ()), ("builder", ()), ("lh", TF), ("flw", ()), ("multi", ())],
    "C19": [("state", ()), ("logger", TF), ("multi", ()), ("timestamps", ()), ("swrite", ()), ("lbuild", ()), ("symlink", ()), ("errchan", ()), ("dispatch", ("async",)), ("stdw", ("async",)), ("handle", ())],
    "C20": [("swrite", ()), ("stdw", ("async",)), ("handle_async", ("async",)), ("dnow", ()), ("lbuild", ()), ("builder", ()), ("flw", ()), ("primary", ()), ("multi", ()), ("logger", TF)],
}

# property -> Kani groups (see lib/kani_unit.py)
ALL_KANI = ["size_rotation_necessary_contract", "increase_size_contract", "rotation_necessary_size", "naming_state_writes_direct",
            "level_vs_filter", "level_vs_level", "filter_vs_filter", "duplicate_u8_round_trip", "duplicate_from_u8_total_on_encodings",
            "cleanup_keeps_newest_n0", "cleanup_keeps_newest_n1", "cleanup_keeps_newest_n2", "cleanup_keeps_newest_n3",
            "cleanup_keeps_newest_n4", "cleanup_keeps_newest_n5",
            "highest_index_empty", "highest_index_single", "highest_index_three", "highest_index_name_with_r", "highest_index_two_digit",
            "highest_index_gz_only", "filter_member", "filter_longer_basename", "filter_other_suffix", "filter_current_is_not_numbered",
            "filter_no_infix", "filter_multibyte_neighbour", "filter_equals_current", "filter_compressed",
            "filter_suffix_tail_catalog", "filter_suffix_tail_tgz", "filter_suffix_no_dot",
            "ts_infix_member", "ts_infix_short_name", "ts_infix_restart_sibling",
            "restart_number_member", "restart_number_short", "restart_number_not_numeric", "restart_number_multibyte", "restart_number_no_marker", "restart_number_plus_sign",
            "level_sort_sorts_by_descending_name_length", "max_level_is_the_maximum", "max_level_of_the_empty_specification_is_off"]
# the harnesses are selected per property by their own property tags (lib/kani_unit.py HARNESSES)
PROP_KANI = {p: ALL_KANI for p in ("C01", "C02", "C05", "C06", "C07", "C08", "C10", "C13", "C14", "C16")}

# C10 (panic freedom) owns every safety obligation Verus generates in every unit
C10_UNITS = sorted({(u, f) for u, fs in UNITS.items() for f in fs})
C10_CLAIMED = True

CLAIMED = sorted(set(PROP_UNITS) | set(PROP_KANI) | ({"C10"} if C10_CLAIMED else set()))


def check_registration(verif_root):
    """every property a unit's clauses are tagged with must run that unit (found by seed S-C18-6: unit `multi` carried C18 clauses that
    the C18 check never ran)"""
    import glob, os, re
    reg = {}
    for p, us in PROP_UNITS.items():
        for u, _f in us:
            reg.setdefault(u, set()).add(p)
    bad = []
    for f in sorted(glob.glob(os.path.join(verif_root, "units", "*.rs"))):
        u = os.path.basename(f)[:-3]
        if u not in UNITS:
            continue
        txt = open(f, encoding="utf-8").read()
        tags = set()
        for m in re.finditer(r"//@\s+props\s+([C0-9,]+)", txt):
            tags |= set(m.group(1).split(","))
        for m in re.finditer(r"//@label\s+\S+\s+([C0-9,]+)", txt):
            tags |= set(m.group(1).split(","))
        tags.discard("C10")
        tags.discard("")
        for t in sorted(tags):
            if t not in reg.get(u, set()):
                bad.append((u, t))
    return bad

"""Which units and Kani groups decide which property (DESIGN.md section 5)."""

TF = ("textfilter",)
# unit name -> feature sets it is generated for (each is one Verus run)
UNITS = {
    "state": [()],
    "spec": [TF],
    "handle_a": [TF], "handle_b": [TF], "handle_b2": [TF], "handle_c": [TF],
    "logger": [TF],
}

# property -> list of (unit, features)
PROP_UNITS = {
    "C01": [("state", ())],
    "C02": [("spec", TF), ("logger", TF), ("handle_c", TF)],
    "C04": [("state", ())],
    "C05": [("handle_a", TF), ("handle_b", TF), ("handle_b2", TF), ("handle_c", TF), ("spec", TF)],
    "C06": [("state", ())],
    "C08": [("state", ())],
    "C09": [("state", ())],
    "C13": [("logger", TF)],
    "C15": [("state", ())],
    "C18": [("state", ())],
    "C19": [("state", ()), ("logger", TF)],
}

# property -> Kani groups (see lib/kani_unit.py)
PROP_KANI = {
}

# C10 (panic freedom) owns every safety obligation Verus generates in every unit
C10_UNITS = sorted({(u, f) for u, fs in UNITS.items() for f in fs})
C10_CLAIMED = True

CLAIMED = sorted(set(PROP_UNITS) | set(PROP_KANI) | ({"C10"} if C10_CLAIMED else set()))

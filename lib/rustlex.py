"""Minimal Rust lexer: enough to find items, match brackets and rewrite token sequences
without being fooled by strings, raw strings, chars, lifetimes or (nested) comments.

Token = (kind, text, start, end, line)   kind in {ws, lcomment, bcomment, str, char, life, ident, num, punct}
"""
import re
from collections import namedtuple

Tok = namedtuple("Tok", "kind text start end line")

_ident_re = re.compile(r"[A-Za-z_][A-Za-z0-9_]*")
_num_re = re.compile(r"[0-9][0-9A-Za-z_]*(\.[0-9][0-9A-Za-z_]*)?")
_ws_re = re.compile(r"\s+")


class LexError(Exception):
    pass


def lex(src):
    toks = []
    i = 0
    n = len(src)
    line = 1
    while i < n:
        c = src[i]
        start = i
        if c.isspace():
            m = _ws_re.match(src, i)
            i = m.end()
            kind = "ws"
        elif src.startswith("//", i):
            j = src.find("\n", i)
            i = n if j < 0 else j
            kind = "lcomment"
        elif src.startswith("/*", i):
            depth = 1
            i += 2
            while i < n and depth:
                if src.startswith("/*", i):
                    depth += 1
                    i += 2
                elif src.startswith("*/", i):
                    depth -= 1
                    i += 2
                else:
                    i += 1
            if depth:
                raise LexError("unterminated block comment at line %d" % line)
            kind = "bcomment"
        elif c == '"' or (c in "bc" and src.startswith('"', i + 1)):
            i = src.index('"', i) + 1
            while True:
                if i >= n:
                    raise LexError("unterminated string at line %d" % line)
                if src[i] == "\\":
                    i += 2
                elif src[i] == '"':
                    i += 1
                    break
                else:
                    i += 1
            kind = "str"
        elif (c == "r" or (c in "bc" and src.startswith("r", i + 1))) and re.match(r'[bc]?r#*"', src[i:i + 40]):
            m = re.match(r'[bc]?r(#*)"', src[i:i + 40])
            hashes = m.group(1)
            close = '"' + hashes
            j = src.find(close, i + m.end())
            if j < 0:
                raise LexError("unterminated raw string at line %d" % line)
            i = j + len(close)
            kind = "str"
        elif c == "'" or (c == "b" and src.startswith("'", i + 1)):
            q = i + (1 if c == "b" else 0)
            # char literal or lifetime
            m = re.match(r"'(\\(x[0-9a-fA-F]{2}|u\{[0-9a-fA-F_]+\}|.)|[^\\'])'", src[q:q + 16], re.S)
            if m:
                i = q + m.end()
                kind = "char"
            else:
                m2 = _ident_re.match(src, q + 1)
                if not m2:
                    raise LexError("stray quote at line %d" % line)
                i = m2.end()
                kind = "life"
        elif c.isalpha() or c == "_":
            m = _ident_re.match(src, i)
            i = m.end()
            kind = "ident"
        elif c.isdigit():
            m = _num_re.match(src, i)
            i = m.end()
            kind = "num"
        else:
            i += 1
            kind = "punct"
        text = src[start:i]
        toks.append(Tok(kind, text, start, i, line))
        line += text.count("\n")
    return toks


TRIVIA = ("ws", "lcomment", "bcomment")


def sig(toks):
    """indices of significant (non-trivia) tokens"""
    return [k for k, t in enumerate(toks) if t.kind not in TRIVIA]


OPEN = {"(": ")", "[": "]", "{": "}"}
CLOSE = {")": "(", "]": "[", "}": "{"}


def match_brackets(toks):
    """map index of each opening bracket token to its closing one and back"""
    stack = []
    m = {}
    for k, t in enumerate(toks):
        if t.kind != "punct":
            continue
        if t.text in OPEN:
            stack.append(k)
        elif t.text in CLOSE:
            if not stack or toks[stack[-1]].text != CLOSE[t.text]:
                raise LexError("unbalanced %r at line %d" % (t.text, t.line))
            o = stack.pop()
            m[o] = k
            m[k] = o
    if stack:
        raise LexError("unclosed %r at line %d" % (toks[stack[-1]].text, toks[stack[-1]].line))
    return m

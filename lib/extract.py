"""Mechanical extraction of items from /repo's working tree and weaving of contract clauses.

The *unit template* (units/<unit>.rs) is ordinary Verus source with directive comments:

    //@ include <path relative to /verif>
    //@ fn   <repo file> <item path>      function under contract: signature+body copied byte for byte
    //@ sig  <repo file> <item path>      callee: signature copied, body dropped (#[verifier::external_body])
    //@ item <repo file> <item path>      type / const / impl copied byte for byte
    //@ opaque <repo file> <item path>    struct/enum copied as field-less #[verifier::external_body] type
    //@ anchor <repo file> <item path> :: <text>   (see render_anchor)
 followed by option lines (`//@   <kw> ...`; unknown first word = continuation of the previous clause):
    ret <name>                           name the return value:  -> T   becomes   -> (name: T)
    req[label] <expr>      ens[label] <expr>      props C01,C08 (properties the clauses below serve)
    loop <n> iter <name> | inv[label] <expr> | dec <expr>
    closure <n> sig <text> | req <expr> | ens <expr>
    rule <R-name> <expected hits>
    attr <text>                          extra attribute line in front of the item
    dropattr <prefix>                    remove attributes whose text starts with prefix (derive etc.)
    canary                               also emit the vacuity twin (requires kept, body `assert(false)`)
    rename <new name>                    emit under another fn name (for anchors / twins only)

Item path: segments separated by ` / `, e.g.  `impl RollState / fn size_rotation_necessary`,
`impl log::Log for FlexiLogger / fn log`, `mod platform / fn unix_create_symlink`, `enum RollState`.
When several items match (cfg alternatives) all are emitted in source order.
"""
import os
import re
import sys

sys.path.insert(0, os.path.dirname(__file__))
from rustlex import lex, match_brackets, TRIVIA  # noqa: E402


class ExtractError(Exception):
    """anchor lost / unsupported shape: the run is undecided (exit 2), never a violation"""


ITEM_KW = ("fn", "struct", "enum", "union", "trait", "mod", "impl", "const", "static", "type", "use", "macro_rules")
MODIFIERS = ("pub", "unsafe", "async", "extern", "default")


def norm_tokens(toks):
    out = []
    prev_word = False
    for t in toks:
        if t.kind in TRIVIA:
            continue
        word = t.kind in ("ident", "num", "life")
        if word and prev_word:
            out.append(" ")
        out.append(t.text)
        prev_word = word
    return "".join(out)


def norm(s):
    return norm_tokens(lex(s))


class Item:
    def __init__(self, sf, kind, name, header, start, first, kw, body_open, body_close, end):
        self.sf = sf
        self.kind = kind
        self.name = name
        self.header = header      # normalised text from keyword to body/`;`
        self.start = start        # first token incl. attributes and doc comments
        self.first = first        # first token after attributes (visibility / keyword)
        self.kw = kw              # keyword token index
        self.body_open = body_open
        self.body_close = body_close
        self.end = end            # one past last token

    def __repr__(self):
        return "<%s %s @%d>" % (self.kind, self.name, self.sf.toks[self.first].line)


class SourceFile:
    cache = {}

    def __init__(self, path):
        self.path = path
        with open(path, encoding="utf-8") as f:
            self.text = f.read()
        self.toks = lex(self.text)
        self.br = match_brackets(self.toks)

    @classmethod
    def get(cls, path):
        st = os.stat(path)
        key = (path, st.st_mtime_ns, st.st_size)
        if key not in cls.cache:
            cls.cache[key] = SourceFile(path)
        return cls.cache[key]

    def next_sig(self, k, hi=None):
        hi = len(self.toks) if hi is None else hi
        while k < hi and self.toks[k].kind in TRIVIA:
            k += 1
        return k

    def items(self, lo=0, hi=None):
        toks = self.toks
        hi = len(toks) if hi is None else hi
        res = []
        k = lo
        while True:
            # leading trivia: doc comments belong to the item
            start = None
            j = k
            while j < hi and toks[j].kind in TRIVIA:
                if toks[j].kind == "lcomment" and (toks[j].text.startswith("///") or toks[j].text.startswith("//!")):
                    if start is None:
                        start = j
                elif toks[j].kind == "lcomment" or toks[j].kind == "bcomment":
                    start = None  # plain comment separates
                j += 1
            if j >= hi:
                break
            if start is None:
                start = j
            k = j
            # attributes
            while toks[k].text == "#":
                n = self.next_sig(k + 1, hi)
                if toks[n].text == "!":
                    n = self.next_sig(n + 1, hi)
                if toks[n].text != "[":
                    raise ExtractError("%s:%d: stray #" % (self.path, toks[k].line))
                k = self.next_sig(self.br[n] + 1, hi)
                if k >= hi:
                    break
            if k >= hi:
                break
            first = k
            # modifiers
            while True:
                t = toks[k]
                if t.kind == "ident" and t.text in MODIFIERS:
                    k = self.next_sig(k + 1, hi)
                    if toks[k].text == "(" and t.text == "pub":
                        k = self.next_sig(self.br[k] + 1, hi)
                    if t.text == "extern" and toks[k].kind == "str":
                        k = self.next_sig(k + 1, hi)
                    continue
                if t.text == "const":
                    n = self.next_sig(k + 1, hi)
                    if toks[n].text in ("fn", "unsafe", "async", "extern"):
                        k = n
                        continue
                break
            t = toks[k]
            kw = k
            if t.kind == "ident" and t.text in ITEM_KW:
                kind = t.text
                n = self.next_sig(k + 1, hi)
                if kind == "impl":
                    name = None
                elif kind == "use":
                    name = None
                elif kind == "macro_rules":
                    n = self.next_sig(n + 1, hi)  # skip !
                    name = toks[n].text
                else:
                    if kind == "extern":
                        pass
                    name = toks[n].text
                    if kind == "const" and name == "_":
                        name = "_"
                # find body or `;`
                j = k
                body_open = body_close = None
                end = None
                while j < hi:
                    tt = toks[j]
                    if tt.kind == "punct":
                        if tt.text in "([":
                            j = self.br[j] + 1
                            continue
                        if tt.text == "{" and kind not in ("const", "static", "type", "use"):
                            body_open = j
                            body_close = self.br[j]
                            end = body_close + 1
                            break
                        if tt.text == "{":
                            j = self.br[j] + 1
                            continue
                        if tt.text == ";":
                            end = j + 1
                            break
                    j += 1
                if end is None:
                    raise ExtractError("%s:%d: cannot find end of item" % (self.path, t.line))
                hdr_end = body_open if body_open is not None else end - 1
                header = norm_tokens(toks[kw:hdr_end])
                res.append(Item(self, kind, name, header, start, first, kw, body_open, body_close, end))
                k = end
            elif t.kind == "ident" and self.next_sig(k + 1, hi) < hi and toks[self.next_sig(k + 1, hi)].text == "!":
                # macro invocation item
                n = self.next_sig(self.next_sig(k + 1, hi) + 1, hi)
                if toks[n].kind == "ident":
                    n = self.next_sig(n + 1, hi)
                end = self.br[n] + 1
                e2 = self.next_sig(end, hi)
                if e2 < hi and toks[e2].text == ";":
                    end = e2 + 1
                res.append(Item(self, "macro", t.text, t.text + "!", start, first, kw, None, None, end))
                k = end
            else:
                raise ExtractError("%s:%d: unrecognised item start %r" % (self.path, t.line, t.text))
        return res

    def find(self, query):
        """query: 'impl RollState / fn size_rotation_necessary' -> list of Items"""
        segs = [s.strip() for s in query.split(" / ")]
        ranges = [(0, len(self.toks))]
        found = []
        for depth, seg in enumerate(segs):
            found = []
            kind = "impl" if re.match(r"impl\b", seg) else seg.split()[0]
            for lo, hi in ranges:
                for it in self.items(lo, hi):
                    if it.kind != kind:
                        continue
                    if kind == "impl":
                        if it.header == norm(seg):
                            found.append(it)
                    elif it.name == seg.split(None, 1)[1].strip():
                        found.append(it)
            if not found:
                raise ExtractError("anchor lost: %s: no item %r (segment %r)" % (self.path, query, seg))
            if depth < len(segs) - 1:
                ranges = []
                for it in found:
                    if it.body_open is None:
                        raise ExtractError("anchor lost: %s: %r has no body" % (self.path, seg))
                    ranges.append((it.body_open + 1, it.body_close))
        return found


# ----------------------------------------------------------------------------------------------
# rendering with edits

class Piece:
    __slots__ = ("text", "src", "off", "label")

    def __init__(self, text, src=None, off=None, label=None):
        self.text = text
        self.src = src      # SourceFile or None
        self.off = off      # offset in src.text
        self.label = label  # clause label / template origin


class Edits:
    def __init__(self):
        self.repl = {}      # tok index -> (end index, [Piece])
        self.before = {}    # tok index -> [Piece]

    def replace(self, i, j, pieces):
        for a in list(self.repl):
            b = self.repl[a][0]
            if i <= a and b <= j:
                del self.repl[a]      # swallowed by the larger rewrite
            elif not (j <= a or b <= i):
                raise ExtractError("overlapping rewrite")
        self.repl[i] = (j, pieces)

    def insert_before(self, i, pieces):
        self.before.setdefault(i, []).extend(pieces)


def render_tokens(sf, a, b, edits):
    out = []
    k = a
    toks = sf.toks
    while k < b:
        if k in edits.before:
            out.extend(edits.before[k])
        if k in edits.repl:
            j, pieces = edits.repl[k]
            for p in pieces:
                if p.src is None and p.label is None:
                    p.src, p.off = sf, toks[k].start
            out.extend(pieces)
            k = j
            continue
        t = toks[k]
        out.append(Piece(t.text, sf, t.start))
        k += 1
    if b in edits.before:
        out.extend(edits.before[b])
    return out


# token-level rewrite rules (see DESIGN.md 3.1); each maps a normalised token sequence to a replacement
RULES = {
    # R1: the writer type of state.rs becomes the shim VWriter
    "R1": [("Box<dyn Write+Send>", "VWriter")],
    # R1b: construction of a boxed writer
    "R1b": [("Box::new(", "VWriter::from_write(")],
    # R2: auto traits inside dyn types carry no methods
    "R2": [("+Send+Sync", ""), ("+Send", ""), ("+Sync", "")],
    # R3: closure parameters that are patterns get a name
    "R3": [("|_|", "|_v|"), ("|()|", "|_u: ()|")],
    # R6: consts inside verus! need the (implied) 'static lifetime spelled out
    "R6": [(":&str=", ":&'static str=")],
    # R8: `e.split(c).collect()` -> shim method `e.vsplit_collect(c)` ($C = one literal): vstd's
    #     `Iterator::collect` contract is not applied for core::str::Split, the shim states the result of both calls
    "R8": [(".split($C).collect()", ".vsplit_collect($C)"), ("inner.split($C)", "inner.vsplit_collect($C)")],
    # R10 (signature-only callees): `mut self` is a body-local binding mode, not part of the interface
    "R10": [("(mut self", "(self")],
    # R10b (computed, see apply_rule): a function *body* with a `mut self` receiver (Verus: "mut self" unsupported):
    # the receiver becomes `self`, the body starts with `let mut self_ = self;` and says `self_` wherever it said `self`
    "R10b": [],
    # R4c: calling a fn-pointer field `(x.f)(a, b, c)` becomes the shim method call `x.f.call(a, b, c)`
    "R4c": [("(self.format_for_stderr)(", "self.format_for_stderr.call("), ("(self.format_for_stdout)(", "self.format_for_stdout.call("),
            ("(handle.format_function)(", "handle.format_function.call("), ("(self.format_function)(", "self.format_function.call("),
            ("(format_function)(", "format_function.call("), ("(self.format)(", "self.format.call(")],
    # R11: std atomics (vstd owns their trivial specs): `.store(` / `.load(` -> shim methods with a permission / an oracle
    "R11": [(".store(", ".vstore("), (".load(", ".vload("), ("AtomicU8::new(", "vatomic_new(")],
    # R4: fn-pointer alias becomes an opaque shim
    "R4": [("FormatFunction", "VFormatFn")],
    # R16: iterator adapters on an owned Vec (provided trait methods: Verus accepts no specification) become eager shims on
    # vectors: `v.into_iter().map(f)` -> `v.vmap(f)`, then `.filter_map(g)` -> `.vfilter_map(g)`, `.reduce(h)` -> `.vreduce(h)`;
    # R16b: `.unwrap_or_else(Local::now)` -> `.unwrap_or_else(|| .. { Local::now() })` (a fn item as a closure value; the closure
    # carries the contract of the prelude's Local::now: `ensures r == clock_now()`)
    "R16": [(".into_iter().map(", ".vmap("), (".filter_map(", ".vfilter_map("), (".reduce(", ".vreduce("), (".find_map(", ".vfind_map(")],
    "R16b": [(".unwrap_or_else(Local::now)", ".unwrap_or_else(|| -> (r: DateTime<Local>) ensures r == clock_now() { Local::now() })")],
    # R3b (computed): a closure whose single parameter is a tuple pattern gets a variable parameter `p0__` and a destructuring `let`
    "R3b": [],
    # R25: `s.len()` on a str (vstd owns the specification of str::len, which says nothing usable about bytes vs. characters) ->
    # shim `s.vlen()`: the byte length as an oracle with the UTF-8 axioms of the unit
    "R25": [(".len()", ".vlen()")],
    # R24: `s.chars()` (the Chars iterator has no specification) -> shim `s.vchars()`: an eager cursor over the characters
    "R24": [(".chars()", ".vchars()")],
    # R23: `s.chunks(n)` (an iterator type without specification) -> shim `s.vchunks(n)`: the eager vector of the chunks
    "R23": [(".chunks(", ".vchunks(")],
    # R22: `new_spec.as_ref()` (S: AsRef<str>) -> shim `vas_ref(&new_spec)`
    "R22": [("new_spec.as_ref()", "vas_ref(&new_spec)")],
    # R21: `th.join().ok()` (JoinHandle::join returns Result<_, Box<dyn Any + Send>>: a dyn with two traits, outside Verus) -> shim `vjoin(th)`
    "R21": [("th.join().ok()", "vjoin(th)")],
    # R20: `x.into_iter()` -> `x.vinto_iter()`: the eager iterator of prelude/viter.rs, whose inherent methods carry the names of the
    # Iterator adapters (the general form of R16)
    "R20": [(".into_iter()", ".vinto_iter()")],
    # R19: the fn item `Into::into` as a closure value (argument type `S`, result String) -> a closure with the contract of into()
    "R19": [(".map(Into::into)", ".map(|x: S| -> (r: String) ensures r@ == into_string::<S>(x) { x.into() })")],
    # R26: `assert_eq!(a, b, "..")` becomes the unit's `vassert_eq!(a, b, "..")` (a call whose precondition is `a == b`)
    "R26": [("assert_eq!(", "vassert_eq!(")],
    # R19p: the same for `S: Into<PathBuf>`
    "R19p": [(".map(Into::into)", ".map(|x: S| -> (r: PathBuf) ensures pathbuf_view(&r) == into_path::<S>(x) { x.into() })")],
    # R18: the fn item `String::len` as a closure value -> a closure with the contract of the prelude's String::len
    "R18": [("map_or(0, String::len)", "map_or(0, |s: &String| -> (r: usize) ensures r == byte_len(s@) { s.len() })")],
    # R17 (computed): `v.iter().map(f).max()` -> shim `v.vmax_map(f)`, `.min()` -> `v.vmin_map(f)`; `m.values().map(f).max()` -> `m.vmax_values_map(f)`
    "R17": [],
    # R13 (computed): `v.iter().filter_map(f).max()` (provided trait methods) -> shim `v.vmax_filter_map(f)`; `.count()` -> `v.vcount_filter_map(f)`
    "R13": [],
    # R15: `String::add(&str)` (its std signature cannot be matched by assume_specification: two lifetime binders) -> shim method
    "R15": [(".add(", ".vadd(")],
    # R14: the one formatting of the restart discriminant -> shim with an oracle for the text
    "R14": [('format!(".restart-{next_number:04}")', "vfmt_restart(next_number)")],
    # R12: `v.into_iter().enumerate()` (Iterator::enumerate is a provided trait method: Verus accepts no specification for
    # it) becomes the shim `v.venumerate()`: the eagerly built vector of (index, element) pairs
    "R12": [(".into_iter().enumerate()", ".venumerate()")],
    # R27: `.lock()` on the state mutex -> shim method `.vlock_late()` whose precondition is the token fact "the user-supplied
    # format code of this record has already run" (C10: the state lock is never held while format / Display code runs, which may log
    # recursively and would re-lock the mutex on the same thread); same result specification as the prelude's Mutex::lock
    "R27": [(".lock()", ".vlock_late()")],
    # R29: `s == suffix` with `s: Cow<str>` (PartialEq<&str> for Cow<str> cannot be given a specification) -> shim `vcow_eq(&s, suffix)`
    "R29": [("s==suffix", "vcow_eq(&s, suffix)")],
    # R30: `continue` in the copied body of one loop iteration of get_highest_index (a `block` span: the wrapper function is one
    # iteration) -> `return o_highest_idx` (the iteration ends, the running value is unchanged)
    "R30": [("continue", "return o_highest_idx")],
    # R31: `s.rsplit(p).next()` -> `s.vrsplit_first(p)`, `s.split(c).next()` -> `s.vsplit_first(c)` (Split / RSplit iterators have no
    # specification), `&name[1..]` -> `name.vslice_from(1)`, `.parse()` -> `.vparse_u32()` (get_highest_index parses a u32)
    "R31": [(".rsplit($C).next()", ".vrsplit_first($C)"), (".split($C).next()", ".vsplit_first($C)"), ("&name[1..]", "name.vslice_from(1)"), (".parse()", ".vparse_u32()")],
    # R22m: `module_name.as_ref().to_owned()` (M: AsRef<str>) -> shim `vas_ref_owned(&module_name)`
    "R22m": [("module_name.as_ref().to_owned()", "vas_ref_owned(&module_name)")],
    # R22g: `x.as_ref()` for `x: S`, `S: AsRef<str>` (x = `s` or `spec`) -> shim `vas_ref(&x)` (the general form of R22)
    "R22g": [("s.as_ref()", "vas_ref(&s)"), ("spec.as_ref()", "vas_ref(&spec)")],
    # R30c: `continue` in the copied body of one iteration of the loop of LogSpecification::parse -> `return (parse_errs, dirs)`
    "R30c": [("continue", "return (parse_errs, dirs)")],
    # R32 (computed): `format!("..", ..)` whose literal has at least one character outside `{..}` placeholders -> `vformat!("..", ..)`
    # (the unit's macro: some non-empty String; `core::fmt` is outside the verifier)
    "R32": [],
    # R33: `s.chars().any(char::is_whitespace)` -> shim `s.vany_whitespace()`
    "R33": [(".chars().any(char::is_whitespace)", ".vany_whitespace()")],
    # R34: the fn items `ToString::to_string` / `str::trim` as closure values on `Option<&str>` -> a closure with the contract of the function / the shim method `vmap_trim()` (a closure over the `&'a str` pieces of a Split fails Option::map's precondition in this Verus)
    "R34": [(".map(ToString::to_string)", ".vmap_to_string()"),
            (".map(str::trim)", ".vmap_trim()")],
    # R35: `writeln!` on the error channel's sinks (util.rs) -> shims with permissions and token facts
    # (computed: any other text written to stderr is the note that accompanies a failing error file)
    "R35": [('writeln!(std::io::stdout(), "{s}")', "vwriteln_stdout(s)"), ('writeln!(file, "{s}")', "vwriteln_file(&mut file, s)")],
    # R36: `err: &dyn std::error::Error` (eprint_err's type-erased argument, only formatted) -> the opaque shim `&VDynError`;
    # R37: the one call inside util.rs that passes `&e` (a PoisonError) -> `vdyn(&e)`
    "R36": [("&dyn std::error::Error", "&VDynError")],
    "R37": [('"Error channel cannot be set", &e)', '"Error channel cannot be set", vdyn(&e))')],
    # R39: restart_number's byte-offset operations -> shims over the UTF-8 model: `name.find(".restart-")` -> `name.vfind_str(..)`,
    # `name.get((index + 9)..(index + 13))` -> `name.vget_range(index + 9, index + 13)`, `.parse::<usize>()` -> `.vparse_usize()`
    "R39": [("name.find($C)", "name.vfind_str($C)"), (".parse::<usize>()", ".vparse_usize()")],
    # R40 (computed): Display for LogSpecification: `std::fmt::Formatter<'_>` -> the shim `VFormatter` (the text written so far) and the three
    # shapes of `write!(f, ..)` used there -> shim methods: `write!(f, "{}", e)` -> `f.vwrite(e.as_str())`, `write!(f, "<literal>")` ->
    # `f.vwrite("<literal>")`, `write!(f, "{name} = {}", e)` -> `f.vwrite3(name, " = ", e.as_str())`
    "R40": [("std::fmt::Formatter<'_>", "VFormatter")],
    # R44: the error channel's lock (unit errchan): `.read()` -> `.vread_held()` (establishes the token "a read guard of the channel lock has
    # been taken in this call"), `.write()` -> `.vwrite_free()` (requires that none has: std's RwLock deadlocks / panics on a write lock
    # taken by the thread that holds a read guard)
    "R44": [(".read()", ".vread_held()"), (".write()", ".vwrite_free()")],
    # R45: `log_files.sort_unstable()` / `log_files.reverse()` on the Vec<PathBuf> of read_dir_related_files -> shims (`Ord for PathBuf` is an oracle order)
    "R45": [("log_files.sort_unstable()", "vsort_unstable(&mut log_files)"), ("log_files.reverse()", "vreverse(&mut log_files)")],
    # R48: `Duplicate::from(x)` (`impl From<u8> for Duplicate`, emitted as the inherent method `duplicate_from_u8` by R9) at its two call sites
    "R48": [("Duplicate::from(", "Duplicate::vfrom_u8(")],
    # R47: timestamp_from_ts_infix: chrono operations around the two parsers -> shims with oracles
    "R47": [("e.kind()==ParseErrorKind::NotEnough", "vnot_enough(&e)"), ("Local.from_local_datetime(&dt1).earliest()", "vlocal_earliest(&dt1)"),
            ("Local.from_local_datetime(&d1.and_hms_opt(10,0,0).unwrap()).earliest()", "vlocal_earliest(&vat_ten(&d1))")],
    # R46: `std::io::Error::other(e)` -> shim `vio_error_other(e)` (an io::Error about which nothing is known)
    "R46": [("std::io::Error::other(", "super::flexi_error::vio_error_other(")],
    # R43 (computed + literal): check_timestamp_format: chrono's delayed formats -> opaque shims that remember how they were made, and
    # `write!(infix, "{}", <e>)` -> `vwrite_display(&mut infix, &(<e>))`
    "R43": [("now.naive_utc().format(format)", "vfmt_naive(format)"), ("now.format(format)", "vfmt_local(format)"),
            ("chrono::Local::now().format(format)", "vfmt_local(format)"), ("chrono::Local::now().naive_utc().format(format)", "vfmt_naive(format)"),
            ("std::io::Error::new(", "vio_error_new(")],
    # R42: the OsString / PathBuf conversions of the suffix filter in collision_free_infix_for_rotated_file -> shims over the path text
    "R42": [("PathBuf::from(pb)", "vpathbuf_from(pb)"),
            ('pb2.extension()==Some(OsString::from("gz").as_ref())', 'vext_is(&pb2, "gz")'),
            ('pb2.set_extension("")', "vdrop_extension(&mut pb2)"),
            ("pb2.extension()==Some(OsString::from(sfx).as_ref())", "vext_is(&pb2, sfx.as_str())"),
            ('.to_string_lossy().contains(".restart-")', '.to_string_lossy().vcontains_marker()')],
    # R41 (computed): `[a, b].concat()` on two string slices (slice::concat is generic over Borrow<str>: no specification) -> `vconcat2(a, b)`
    "R41": [],
    # R28 (computed): byte-offset string operations -> shims over the UTF-8 model of the unit (`byte_len` = sum of the characters' widths):
    # `s.find(c)` -> `s.vfind(c)`, `&s[..end]` -> `s.vslice_to(end)` (precondition: `end` is a character boundary), `&cow[..]` -> `vfull(&cow)`
    "R28": [],
    # R5l (computed, see apply_rule): every byte-string literal b".." (Verus gives byte-string literals no value)
    # becomes a constant VLIT_<hex bytes>, defined at the template's `//@ literals` line as an exec const whose body is
    # the literal and whose view is the sequence of its bytes (same scheme as R5 bytesconst)
    "R5l": [],
}


CURRENT_D = None
LITERALS = {}
LIT_MARK = "\x00LITERALS\x00"


def literal_defs():
    return " ".join("#[verifier::external_body] pub(crate) exec const %s: &'static [u8] ensures %s@ == seq![%s], { %s }"
                    % (n, n, ", ".join("%du8" % x for x in val), lit) for n, (val, lit) in sorted(LITERALS.items()))


def apply_rule(sf, a, b, rule, edits):
    """replace every occurrence of the token sequence inside [a,b); returns hit count.
    `$X` in a pattern matches one identifier token, `$C` one literal token; both may be used in the replacement."""
    hits = 0
    toks = sf.toks
    sigidx = [k for k in range(a, b) if toks[k].kind not in TRIVIA]
    if rule == "R10b":
        for p in range(len(sigidx) - 2):
            k0, k1, k2 = sigidx[p], sigidx[p + 1], sigidx[p + 2]
            if toks[k0].text == "(" and toks[k1].text == "mut" and toks[k2].text == "self":
                close = sf.br[k0]
                j = close + 1
                while j < b and toks[j].text != "{":
                    if toks[j].text in "([":
                        j = sf.br[j]
                    j += 1
                if j >= b:
                    raise ExtractError("anchor lost: R10b found no body")
                body_open, body_close = j, sf.br[j]
                edits.replace(k1, k1 + 1, [Piece("")])
                edits.insert_before(body_open + 1, [Piece(" let mut self_ = self;", label="kw")])
                for k in range(body_open + 1, body_close):
                    if toks[k].kind == "ident" and toks[k].text == "self":
                        edits.replace(k, k + 1, [Piece("self_", sf, toks[k].start)])
                hits += 1
                break
        return hits
    if rule == "R3b":
        # a closure whose single parameter is a tuple pattern `|(a, b)| body` -> `|p0__| { let (a, b) = p0__; body }`
        # (Verus: closure parameters must be variables)
        cls_all = find_closures(sf, a, b)
        annotated = set()
        for n in (CURRENT_D.closures if CURRENT_D is not None else {}):
            if isinstance(n, str):
                snip = norm(n[1:])
                cands = [c for c in cls_all if snip in norm_tokens(toks[c[0]:c[3]])]
                if cands:
                    annotated.add(min(cands, key=lambda c: c[3] - c[0])[0])
            elif 1 <= n <= len(cls_all):
                annotated.add(cls_all[n - 1][0])
        for (p0, p1, body, bend, block) in cls_all:
            if p0 in annotated:
                continue    # annotated closures name their parameter in `sig` and destructure with the `let` option
            inner = [k for k in range(p0 + 1, p1) if toks[k].kind not in TRIVIA]
            if not inner or toks[inner[0]].text != "(" or sf.br[inner[0]] != inner[-1]:
                continue
            pat_text = sf.text[toks[inner[0]].start:toks[inner[-1]].end]
            edits.replace(inner[0], inner[-1] + 1, [Piece("p0__", sf, toks[inner[0]].start)])
            if block:
                edits.insert_before(body + 1, [Piece(" let %s = p0__;" % pat_text, label="kw")])
            else:
                edits.insert_before(body, [Piece("{ let %s = p0__; " % pat_text, label="kw")])
                edits.insert_before(bend, [Piece(" }", label="kw")])
            hits += 1
        return hits
    if rule == "R17":
        for src, infix in (("iter", ""), ("values", "_values")):
            pat = [".", src, "(", ")", ".", "map", "("]
            for p in range(len(sigidx) - len(pat)):
                if [toks[sigidx[p + q]].text for q in range(len(pat))] == pat:
                    open_k = sigidx[p + len(pat) - 1]
                    close_k = sf.br[open_k]
                    tail = [k for k in sigidx if k > close_k][:4]
                    tt = [toks[k].text for k in tail]
                    if tt not in ([".", "max", "(", ")"], [".", "min", "(", ")"]):
                        continue
                    edits.replace(sigidx[p], sigidx[p + 5] + 1, [Piece(".v%s%s_map" % (tt[1], infix), sf, toks[sigidx[p]].start)])
                    edits.replace(tail[0], tail[3] + 1, [Piece("")])
                    hits += 1
        return hits
    if rule == "R13":
        # `$E.iter().filter_map(<closure>).max()` -> `$E.vmax_filter_map(<closure>)`
        pat = [".", "iter", "(", ")", ".", "filter_map", "("]
        for p in range(len(sigidx) - len(pat)):
            if [toks[sigidx[p + q]].text for q in range(len(pat))] == pat:
                open_k = sigidx[p + len(pat) - 1]
                close_k = sf.br[open_k]
                tail = [k for k in sigidx if k > close_k][:4]
                tt = [toks[k].text for k in tail]
                if tt not in ([".", "max", "(", ")"], [".", "count", "(", ")"]):
                    continue
                edits.replace(sigidx[p], sigidx[p + 5] + 1, [Piece(".v%s_filter_map" % tt[1], sf, toks[sigidx[p]].start)])
                edits.replace(tail[0], tail[3] + 1, [Piece("")])
                hits += 1
        return hits
    if rule == "R35":
        T = lambda q: toks[sigidx[q]]
        pat = ["writeln", "!", "(", "std", ":", ":", "io", ":", ":", "stderr", "(", ")", ","]
        for p in range(len(sigidx) - len(pat) - 1):
            if [T(p + q).text for q in range(len(pat))] == pat and T(p + len(pat)).kind == "str":
                close = sf.br[sigidx[p + 2]]
                lit = T(p + len(pat)).text
                rep = "vwriteln_stderr(s)" if lit == '"{s}"' else "vwriteln_stderr_note()"
                try:
                    edits.replace(sigidx[p], close + 1, [Piece(rep, sf, T(p).start)])
                    hits += 1
                except ExtractError:
                    pass
        # the literal patterns of the rule follow
    if rule == "R43":
        T = lambda q: toks[sigidx[q]]
        for p in range(len(sigidx) - 7):
            if [T(p + q).text for q in range(5)] == ["write", "!", "(", "infix", ","] and T(p + 5).text == '"{}"' and T(p + 6).text == ",":
                close = sf.br[sigidx[p + 2]]
                last = [k for k in sigidx if k < close][-1]
                # the argument expression keeps its own rewrites: only the macro frame is replaced
                try:
                    edits.replace(sigidx[p], sigidx[p + 6] + 1, [Piece("vwrite_display(&mut infix, &(", sf, T(p).start)])
                    edits.replace(close, close + 1, [Piece("))")])
                    hits += 1
                except ExtractError:
                    pass
        # the literal patterns of the rule follow
    if rule == "R41":
        for p in range(len(sigidx)):
            if toks[sigidx[p]].text == "[" and sigidx[p] in sf.br:
                close = sf.br[sigidx[p]]
                after = [k for k in sigidx if k > close][:4]
                if [toks[k].text for k in after] != [".", "concat", "(", ")"]:
                    continue
                # exactly one top-level comma inside the brackets
                commas, k = [], sigidx[p] + 1
                while k < close:
                    if toks[k].text in "([{" and k in sf.br:
                        k = sf.br[k] + 1
                        continue
                    if toks[k].text == ",":
                        commas.append(k)
                    k += 1
                if len(commas) != 1:
                    continue
                a_txt = sf.text[toks[sigidx[p] + 1].start:toks[commas[0]].start].strip()
                b_txt = sf.text[toks[commas[0]].end:toks[close].start].strip()
                try:
                    edits.replace(sigidx[p], after[3] + 1, [Piece("vconcat2(%s, %s)" % (a_txt, b_txt), sf, toks[sigidx[p]].start)])
                    hits += 1
                except ExtractError:
                    pass
        return hits
    if rule == "R40":
        T = lambda q: toks[sigidx[q]]
        for p in range(len(sigidx) - 5):
            if T(p).text == "write" and T(p + 1).text == "!" and T(p + 2).text == "(" and T(p + 3).text == "f" and T(p + 4).text == "," and T(p + 5).kind == "str":
                close = sf.br[sigidx[p + 2]]
                lit = T(p + 5).text
                q = p + 6
                if sigidx[q] == close:
                    if "{" in lit:
                        raise ExtractError("unsupported: write! literal with placeholders and no argument under R40")
                    rep = "f.vwrite(%s)" % lit
                else:
                    if T(q).text != ",":
                        raise ExtractError("unsupported: write! shape under R40")
                    arg = sf.text[T(q + 1).start:toks[close - 1].end if toks[close - 1].kind not in TRIVIA else toks[sf.prev_sig(close)].end] if hasattr(sf, "prev_sig") else sf.text[T(q + 1).start:toks[close].start].rstrip()
                    if lit == '"{}"':
                        rep = "f.vwrite((%s).as_str())" % arg
                    elif lit == '"{name} = {}"':
                        rep = 'f.vwrite3(name, " = ", (%s).as_str())' % arg
                    else:
                        raise ExtractError("unsupported: write! format %s under R40" % lit)
                edits.replace(sigidx[p], close + 1, [Piece(rep, sf, T(p).start)])
                hits += 1
        # the literal pattern (the Formatter type) follows
    if rule == "R39":
        # `.get((x + n)..(x + m))` -> `.vget_range(x + n, x + m)` (x an identifier, n / m number literals)
        T = lambda q: toks[sigidx[q]]
        for p in range(len(sigidx) - 15):
            tt = [T(p + q).text for q in range(16)]
            if tt[0] == "." and tt[1] == "get" and tt[2] == "(" and tt[3] == "(" and T(p + 4).kind == "ident" and tt[5] == "+" and T(p + 6).kind == "num" and tt[7] == ")" \
               and tt[8] == "." and tt[9] == "." and tt[10] == "(" and T(p + 11).kind == "ident" and tt[12] == "+" and T(p + 13).kind == "num" and tt[14] == ")" and tt[15] == ")":
                edits.replace(sigidx[p + 1], sigidx[p + 15] + 1, [Piece("vget_range(%s + %s, %s + %s)" % (tt[4], tt[6], tt[11], tt[13]), sf, T(p + 1).start)])
                hits += 1
        # the literal patterns of the rule follow
    if rule == "R32":
        import re as _re
        for q in range(len(sigidx) - 3):
            t0, t1, t2, t3 = (toks[sigidx[q + d]] for d in range(4))
            if t0.text == "format" and t1.text == "!" and t2.text == "(" and t3.kind == "str":
                lit = t3.text
                body = lit[lit.index('"') + 1:lit.rindex('"')]
                rest = _re.sub(r"\{[^{}]*\}", "", body.replace("{{", "x").replace("}}", "x"))
                if not rest.strip("\\ \n"):
                    raise ExtractError("unsupported: format! without a literal character under R32")
                edits.replace(sigidx[q], sigidx[q] + 1, [Piece("vformat", sf, t0.start)])
                hits += 1
        return hits
    if rule == "R28":
        # `.find($C)` -> `.vfind($C)`; `&x[..end]` -> `x.vslice_to(end)`; `&x[..]` -> `vfull(&x)` (x, end identifiers)
        T = lambda q: toks[sigidx[q]]
        p = 0
        while p < len(sigidx):
            if T(p).text == "&" and p + 5 < len(sigidx) and T(p + 1).kind == "ident" and [T(p + 2).text, T(p + 3).text, T(p + 4).text] == ["[", ".", "."]:
                if T(p + 5).text == "]":
                    edits.replace(sigidx[p], sigidx[p + 5] + 1, [Piece("vfull(&%s)" % T(p + 1).text, sf, T(p).start)])
                    hits += 1
                    p += 6
                    continue
                if p + 6 < len(sigidx) and T(p + 5).kind == "ident" and T(p + 6).text == "]":
                    edits.replace(sigidx[p], sigidx[p + 6] + 1, [Piece("%s.vslice_to(%s)" % (T(p + 1).text, T(p + 5).text), sf, T(p).start)])
                    hits += 1
                    p += 7
                    continue
            if T(p).text == "." and p + 6 < len(sigidx) and [T(p + q).text for q in (1, 2, 4, 5, 6)] == ["get", "(", ".", ".", ")"] and T(p + 3).kind == "ident":
                edits.replace(sigidx[p + 1], sigidx[p + 6] + 1, [Piece("vget_from(%s)" % T(p + 3).text, sf, T(p + 1).start)])
                hits += 1
                p += 7
                continue
            if T(p).text == "." and p + 2 < len(sigidx) and T(p + 1).text == "find" and T(p + 2).text == "(":
                edits.replace(sigidx[p + 1], sigidx[p + 1] + 1, [Piece("vfind", sf, T(p + 1).start)])
                hits += 1
            p += 1
        return hits
    if rule == "R5l":
        import ast
        for k in sigidx:
            if toks[k].kind == "str" and toks[k].text.startswith('b"'):
                val = ast.literal_eval(toks[k].text)
                if not val:
                    raise ExtractError("unsupported: empty byte-string literal under R5l")
                name = "VLIT_" + "".join("%02X" % x for x in val)
                LITERALS[name] = (val, toks[k].text)
                edits.replace(k, k + 1, [Piece(name, sf, toks[k].start)])
                hits += 1
        return hits
    for pat, rep in RULES[rule]:
        ptoks = []
        raw = [t for t in lex(pat) if t.kind not in TRIVIA]
        q = 0
        while q < len(raw):
            if raw[q].text == "$" and q + 1 < len(raw):
                ptoks.append("$" + raw[q + 1].text)
                q += 2
            else:
                ptoks.append(raw[q].text)
                q += 1
        has_e = bool(ptoks) and ptoks[0] == "$E"
        if has_e:
            ptoks = ptoks[1:]
        n = len(ptoks)
        p = 0
        while p + n <= len(sigidx):
            binds = {}
            if has_e:
                binds["$E"] = None
            ok = True
            p_start = p
            for q in range(n):
                t = toks[sigidx[p + q]]
                pt = ptoks[q]
                if pt == "$X":
                    if t.kind != "ident":
                        ok = False
                        break
                    binds["$X"] = t.text
                elif pt == "$C":
                    if t.kind not in ("char", "str", "num"):
                        ok = False
                        break
                    binds["$C"] = t.text
                elif t.text != pt:
                    ok = False
                    break
            if ok and "$E" in binds:
                # receiver = maximal postfix chain to the left: idents, `.`, `::`, `?`, bracket groups
                e_end = sigidx[p]          # token index of the `.` after the receiver
                q = p - 1
                while q >= 0:
                    t = toks[sigidx[q]]
                    if t.text in (")", "]") and sigidx[q] in sf.br:
                        o = sf.br[sigidx[q]]
                        while q >= 0 and sigidx[q] > o:
                            q -= 1
                        q -= 1
                        continue
                    if t.kind in ("ident", "num", "str", "char") or t.text in (".", ":", "?"):
                        q -= 1
                        continue
                    break
                q += 1
                if q >= p:
                    ok = False
                else:
                    binds["$E"] = sf.text[toks[sigidx[q]].start:toks[sigidx[p - 1]].end]
                    p_start = q
            if ok:
                i = sigidx[p_start] if "$E" in binds else sigidx[p]
                j = sigidx[p + n - 1] + 1
                r = rep
                for k2, v2 in binds.items():
                    r = r.replace(k2, v2)
                try:
                    edits.replace(i, j, [Piece(r)])
                    hits += 1
                except ExtractError:
                    pass
                p += n
            else:
                p += 1
    return hits


def rewrite_for_continue(sf, a, b, edits):
    """Rule RC (automatic, semantics-preserving): Verus rejects `continue` inside `for` loops. Where an `if C { ..; continue; }` statement
    (no `else`) stands in a block P that is in tail position of the loop body (P is the loop body, or the block of an `if` / `else` that is
    the last statement of its parent, up to the loop body), the statement becomes `if C { .. } else { <rest of P> }`. Other shapes are
    left alone (Verus then rejects the function: undecided). Returns the number of rewrites."""
    toks = sf.toks
    sig = [k for k in range(a, b) if toks[k].kind not in TRIVIA]
    pos = {k: i for i, k in enumerate(sig)}
    hits = 0

    def enclosing_block(k):
        # innermost `{` .. `}` pair (token indices) around token k inside [a, b)
        depth = 0
        j = k - 1
        while j >= a:
            t = toks[j].text
            if t == "}" and j in sf.br:
                j = sf.br[j] - 1
                continue
            if t == "{" and j in sf.br and sf.br[j] > k:
                return j, sf.br[j]
            j -= 1
        return None

    def block_owner(open_k):
        """keyword that owns the block starting at `{` open_k: 'for', 'if', 'else', 'while', 'loop', 'match-arm', 'closure', or None"""
        i = pos[open_k] - 1
        # walk back over the header (condition / pattern / iterator expression) to its keyword
        depth = 0
        while i >= 0:
            k = sig[i]
            t = toks[k].text
            if t in ")]" and k in sf.br:
                i = pos.get(sf.br[k], i) - 1
                continue
            if t == "}" and k in sf.br:
                if toks[sig[i + 1]].text == "else" if i + 1 < len(sig) else False:
                    return "else", k
                return None, k
            if t in ("{", ";"):
                return None, k
            if t == "else":
                return "else", k
            if t in ("for", "while", "loop", "if", "match"):
                # `else if`: the owner is the `if`
                return t, k
            if t == "=>" or t == "|":
                return "other", k
            i -= 1
        return None, None

    for k in sig:
        if toks[k].text != "continue" or toks[k].kind != "ident":
            continue
        nx = sig[pos[k] + 1] if pos[k] + 1 < len(sig) else None
        if nx is None or toks[nx].text != ";":
            continue
        b1 = enclosing_block(k)
        if not b1:
            continue
        o1, c1 = b1
        # `continue;` must be the last statement of its block
        if sig[pos[nx] + 1] != c1:
            continue
        owner, kw = block_owner(o1)
        if owner != "if":
            continue
        after = sig[pos[c1] + 1] if pos[c1] + 1 < len(sig) else None
        if after is not None and toks[after].text == "else":
            continue
        # `else if`-chains are not handled: the `if` must start a statement
        prev = sig[pos[kw] - 1]
        if toks[prev].text not in ("{", ";", "}"):
            continue
        P = enclosing_block(kw)
        if not P:
            continue
        po, pc = P
        # P must be in tail position of a `for` loop body
        cur_o, cur_c = po, pc
        ok = False
        for _ in range(12):
            own, okw = block_owner(cur_o)
            if own == "for":
                ok = True
                break
            if own not in ("if", "else"):
                break
            # the if / else statement owning this block must be the last statement of its parent block
            parent = enclosing_block(okw)
            if not parent:
                break
            nxt = sig[pos[cur_c] + 1]
            if toks[nxt].text == "else":
                break
            if nxt != parent[1]:
                break
            cur_o, cur_c = parent
        if not ok:
            continue
        try:
            edits.replace(k, nx + 1, [Piece("")])
            if after is not None and after != pc:
                edits.insert_before(after, [Piece(" else { ", label="kw")])
                edits.insert_before(pc, [Piece(" } ", label="kw")])
            hits += 1
        except ExtractError:
            pass
    return hits


def fn_parts(it):
    """(return-arrow token index or None, index one past return type, body_open)"""
    sf = it.sf
    toks = sf.toks
    k = it.kw
    # skip to parameter list: first `(` after fn name (generics may contain no parens we care about)
    j = k
    while toks[j].text != "(":
        if toks[j].text == "<":
            pass
        j += 1
    close = sf.br[j]
    k = sf.next_sig(close + 1)
    arrow = None
    ret_end = None
    end_sig = it.body_open if it.body_open is not None else it.end - 1
    if toks[k].text == "-" and toks[k + 1].text == ">":
        arrow = k
        # return type runs to `where` at depth 0 or to the body
        j = k + 2
        ret_end = end_sig
        while j < end_sig:
            if toks[j].text in "([":
                j = sf.br[j] + 1
                continue
            if toks[j].kind == "ident" and toks[j].text == "where":
                ret_end = j
                break
            j += 1
        # trim trailing trivia
        while toks[ret_end - 1].kind in TRIVIA:
            ret_end -= 1
    return (arrow, ret_end, close)


def find_loops(sf, a, b):
    toks = sf.toks
    res = []
    for k in range(a, b):
        t = toks[k]
        if t.kind == "ident" and t.text in ("for", "while", "loop"):
            # `for` in `impl X for Y` / HRTB does not occur inside fn bodies we handle
            # find loop body `{`
            j = k + 1
            in_tok = None
            while j < b:
                if toks[j].text in "([":
                    j = sf.br[j] + 1
                    continue
                if t.text == "for" and toks[j].kind == "ident" and toks[j].text == "in" and in_tok is None:
                    in_tok = j
                if toks[j].text == "{":
                    break
                j += 1
            res.append((k, in_tok, j))
    return res


CLOSURE_PREV = {"(", ",", "=", "{", ";", "move", "return", ">", "&"}


def find_closures(sf, a, b):
    """closure = `|params|` whose previous significant token cannot end an expression"""
    toks = sf.toks
    res = []
    k = a
    prev = None
    while k < b:
        t = toks[k]
        if t.kind in TRIVIA:
            k += 1
            continue
        if t.text == "|" and (prev is None or prev.text in CLOSURE_PREV):
            # `||` lexes as two `|` tokens
            j = k + 1
            while toks[j].text != "|":
                if toks[j].text in "([":
                    j = sf.br[j]
                j += 1
            body = sf.next_sig(j + 1)
            if toks[body].text == "{":
                bend = sf.br[body] + 1
                block = True
            else:
                # expression body: runs to `,` or closing bracket at depth 0
                m = body
                block = False
                while m < b:
                    if toks[m].text in "([{":
                        m = sf.br[m] + 1
                        continue
                    if toks[m].text in (",", ")", "]", "}", ";"):
                        break
                    m += 1
                bend = m
                while toks[bend - 1].kind in TRIVIA:
                    bend -= 1
            res.append((k, j, body, bend, block))
            prev = toks[j]
            k = j + 1
            continue
        prev = t
        k += 1
    return res


# ---- #[cfg(..)] evaluation ---------------------------------------------------------------------
# The verus! macro generates helpers for every *syntactic* enum variant, so attributes such as
# #[cfg(feature = "compress")] on variants, fields, match arms and statements cannot be left to rustc:
# they are evaluated here under the unit's feature set; a false cfg drops the element it is attached
# to, a true cfg drops only the attribute. (rule CFG, counted per item)
CFG_ATOMS_TRUE = {"unix", "debug_assertions"}
CFG_KV_TRUE = {("target_family", "unix"), ("target_os", "linux")}


def eval_cfg(toks, features):
    """toks: significant tokens of the predicate"""
    pos = [0]

    def peek():
        return toks[pos[0]].text if pos[0] < len(toks) else None

    def nxt():
        t = toks[pos[0]]
        pos[0] += 1
        return t

    def pred():
        t = nxt()
        name = t.text
        if peek() == "(":
            nxt()
            args = []
            while peek() != ")":
                args.append(pred())
                if peek() == ",":
                    nxt()
            nxt()
            if name == "not":
                return not args[0]
            if name == "all":
                return all(args)
            if name == "any":
                return any(args)
            raise ExtractError("unknown cfg operator %s" % name)
        if peek() == "=":
            nxt()
            v = nxt().text.strip('"')
            if name == "feature":
                return v in features
            return (name, v) in CFG_KV_TRUE
        return name in CFG_ATOMS_TRUE

    return pred()


def item_cfg_false(sf, it):
    """one of the item's own `#[cfg(..)]` attributes is false under the unit's feature set"""
    toks = sf.toks
    k = it.start
    while k < it.first:
        if toks[k].text == "#":
            n = sf.next_sig(k + 1)
            if toks[n].text == "[":
                close = sf.br[n]
                inner = [x for x in toks[n + 1:close] if x.kind not in TRIVIA]
                if inner and inner[0].text == "cfg" and len(inner) > 1 and inner[1].text == "(":
                    if not eval_cfg(inner[2:-1], FEATURES):
                        return True
                k = close + 1
                continue
        k += 1
    return False


def cfg_edits(sf, a, b, features, ed):
    """returns (n_true, n_false)"""
    toks = sf.toks
    n_true = n_false = 0
    k = a
    while k < b:
        t = toks[k]
        if t.text == "#":
            n = sf.next_sig(k + 1)
            if toks[n].text == "[":
                close = sf.br[n]
                inner = [x for x in toks[n + 1:close] if x.kind not in TRIVIA]
                if inner and inner[0].text == "cfg" and len(inner) > 1 and inner[1].text == "(":
                    val = eval_cfg(inner[2:-1], features)
                    if val:
                        n_true += 1
                        ed.replace(k, close + 1, [Piece("")])
                        k = close + 1
                        continue
                    # drop the element: further attributes, then up to `,`/`;`/block end
                    n_false += 1
                    j = sf.next_sig(close + 1)
                    while toks[j].text == "#":
                        m = sf.next_sig(j + 1)
                        j = sf.next_sig(sf.br[m] + 1)
                    end = None
                    elem_first = j
                    seen_arrow = False
                    is_item = toks[j].kind == "ident" and toks[j].text in ITEM_KW + MODIFIERS
                    # block-like expression statements (`#[cfg(..)] if .. {..}`) end with their block (and its else chain)
                    is_blockstmt = toks[j].kind == "ident" and toks[j].text in ("if", "while", "for", "loop", "match")
                    while j < b:
                        tt = toks[j]
                        if tt.kind in TRIVIA:
                            j += 1
                            continue
                        if tt.text in ("(", "["):
                            j = sf.br[j] + 1
                            continue
                        if tt.text == "=" and toks[j + 1].text == ">":
                            seen_arrow = True
                            j += 2
                            continue
                        if tt.text == "{":
                            close2 = sf.br[j]
                            nx = sf.next_sig(close2 + 1)
                            nxt_text = toks[nx].text if nx < len(toks) else ""
                            if nxt_text in (",", ";"):
                                end = nx + 1
                                break
                            if is_blockstmt and not seen_arrow:
                                if nxt_text == "else":
                                    j = nx + 1
                                    continue
                                end = close2 + 1
                                break
                            if j == elem_first or seen_arrow or is_item:
                                end = close2 + 1
                                break
                            j = close2 + 1
                            continue
                        if tt.text in (",", ";"):
                            end = j + 1
                            break
                        if tt.text in (")", "]", "}"):
                            end = j
                            break
                        j += 1
                    if end is None:
                        end = b
                    # leading doc comments / attributes of the same element go too
                    st = k
                    while True:
                        q = st - 1
                        while q >= a and toks[q].kind == "ws":
                            q -= 1
                        if q < a:
                            break
                        if toks[q].kind == "lcomment" and toks[q].text.startswith("///"):
                            st = q
                            continue
                        if toks[q].text == "]" and q in sf.br:
                            o = sf.br[q]
                            h = o - 1
                            while h >= a and toks[h].kind in TRIVIA:
                                h -= 1
                            if h >= a and toks[h].text == "#":
                                st = h
                                continue
                        break
                    ed.replace(st, end, [Piece("")])
                    k = end
                    continue
                k = close + 1
                continue
        k += 1
    return n_true, n_false


FEATURES = set()


class Clause:
    def __init__(self, kind, label, text, props):
        self.kind, self.label, self.text, self.props = kind, label, text, props


class Directive:
    def __init__(self, mode, file, query, tline):
        self.mode, self.file, self.query, self.tline = mode, file, query, tline
        self.ret = None
        self.clauses = []       # req / ens
        self.loops = {}         # n -> {"iter":..., "inv":[Clause], "dec":[text]}
        self.closures = {}      # n -> {"sig":..., "req":[Clause], "ens":[Clause]}
        self.rules = []
        self.attrs = []
        self.dropattrs = []
        self.canary = False
        self.rename = None
        self.props = []
        self.anchor_text = None
        self.body_prefix = None
        self.counts = []
        self.span_from = None
        self.span_upto = None
        self.span_semi = False
        self.span_before = False
        self.span_toend = False
        self.span_tail = False
        self.span_block = None
        self.span_block_nth = None
        self.bytesconst = False
        self.execconst = None
        self.derivedefault = False
        self.unmodelled = []
        self.onlyif = []
        self.fallback = None


def indent_of(sf, tokidx):
    off = sf.toks[tokidx].start
    ls = sf.text.rfind("\n", 0, off) + 1
    m = re.match(r"[ \t]*", sf.text[ls:off])
    return m.group(0)


def find_seq(sf, a, b, text):
    """first position in [a,b) where the significant tokens spell `text`; -> (first tok idx, last tok idx)"""
    want = [t.text for t in lex(text) if t.kind not in TRIVIA]
    sigidx = [k for k in range(a, b) if sf.toks[k].kind not in TRIVIA]
    n = len(want)
    for p in range(0, len(sigidx) - n + 1):
        if [sf.toks[sigidx[p + q]].text for q in range(n)] == want:
            return sigidx[p], sigidx[p + n - 1]
    return None


CLOSURE_SNAPSHOT = None      # {"<unit>": {"<fn name>": [normalized closure texts of the tree the contracts were written for]}}
CURRENT_UNIT = None
AUTOENS = {}                  # method name -> spec expression with $x (template directive `//@ autoens m => expr`)
_PURE_OPS = set("== != < > <= >= && || ! * & ( ) . ::".split()) | {"=", "<", ">", "&", "|", ":"}


def load_closure_snapshot(verif_root):
    global CLOSURE_SNAPSHOT
    import json
    path = os.path.join(verif_root, "selftest", "closures.json")
    CLOSURE_SNAPSHOT = json.load(open(path)) if os.path.exists(path) else {}


def _pure_bool_expr(sf, body, bend, params):
    """the closure body [body, bend) is an expression over the parameters built from field accesses, enum / const paths, literals,
    comparisons and boolean operators only (no calls): then `r == (<body>)` is its exact contract. Returns the text or None."""
    toks = sf.toks
    sig = [k for k in range(body, bend) if toks[k].kind not in TRIVIA]
    if not sig or toks[sig[0]].text == "{":
        return None
    has_cmp = False
    subst = {}      # index in sig of a parameter `x` in `x.m()` with m listed by `//@ autoens` -> (last index, spec text)
    for i, k in enumerate(sig):
        tt = [toks[j].text for j in sig[i:i + 5]]
        if len(tt) == 5 and toks[k].kind == "ident" and tt[0] in params and tt[1] == "." and tt[3:] == ["(", ")"] and tt[2] in AUTOENS:
            subst[i] = (i + 4, AUTOENS[tt[2]][1].replace("$x", tt[0]))
    skip_until = -1
    for i, k in enumerate(sig):
        if i <= skip_until:
            continue
        if i in subst:
            skip_until = subst[i][0]
            continue
        t = toks[k]
        nxt = toks[sig[i + 1]].text if i + 1 < len(sig) else ""
        if t.kind == "ident":
            nxt2 = toks[sig[i + 2]].text if i + 2 < len(sig) else ""
            if nxt == "(" or (nxt == "!" and nxt2 in ("(", "[", "{")):
                return None        # a call or a macro
            prev = toks[sig[i - 1]].text if i > 0 else ""
            if t.text not in params and prev != "." and not t.text[0].isupper() and not (prev == ":" ):
                return None        # a captured variable or something else we do not understand
        elif t.kind in ("num", "char"):
            pass
        elif t.text in ("==", "!=", "<=", ">=", "<", ">", "&&", "||", "=", "!"):
            has_cmp = True
        elif t.text in ("*", "&", "(", ")", ".", ":"):
            pass
        else:
            return None
    if not has_cmp:
        return None
    out, i = "", 0
    while i < len(sig):
        glue = "" if (i > 0 and toks[sig[i - 1]].end == toks[sig[i]].start) else " "
        if i in subst:
            out += glue + subst[i][1]
            i = subst[i][0] + 1
            continue
        out += glue + toks[sig[i]].text
        i += 1
    return out.strip()


def audit_closures(d, sf, lo, hi, ed, fname, entry, r3b=False):
    """bookkeeping for closures without contract: a closure that is not in the snapshot of the tree the contracts were written for
    and has no annotation is `new`; for a new closure that is a pure boolean expression over its single parameter, or a single
    method call listed by `//@ autoens`, the exact contract is generated; the others are recorded (bin/check reports failures of a
    function with such closures as undecided: their results are over-approximated)."""
    toks = sf.toks
    cls = find_closures(sf, lo, hi)
    annotated = set()
    for n in d.closures:
        if isinstance(n, str) and n.startswith("~*"):
            snip = norm(n[2:])
            cands = [c for c in cls if snip in norm_tokens(toks[c[0]:c[3]])]
            for c in cands:
                if not any(o is not c and c[0] <= o[0] and o[3] <= c[3] for o in cands):
                    annotated.add(c[0])
        elif isinstance(n, str):
            snip = norm(n[1:])
            cands = [c for c in cls if snip in norm_tokens(toks[c[0]:c[3]])]
            if cands:
                annotated.add(min(cands, key=lambda c: c[3] - c[0])[0])
        elif 1 <= n <= len(cls):
            annotated.add(cls[n - 1][0])
    known = set((CLOSURE_SNAPSHOT or {}).get(CURRENT_UNIT or "", {}).get(fname, []))
    texts, new_plain, auto = [], [], []
    for (p0, p1, body, bend, block) in cls:
        txt = norm_tokens(toks[p0:bend])
        texts.append(txt)
        if p0 in annotated or CLOSURE_SNAPSHOT is None or txt in known:
            continue
        if block:
            last = [k for k in range(body + 1, bend - 1) if toks[k].kind not in TRIVIA]
            if not last or toks[last[-1]].text == ";":
                continue    # the closure's value is `()`: nothing is over-approximated
        elif [toks[k].text for k in range(body, bend) if toks[k].kind not in TRIVIA] == ["(", ")"]:
            continue        # `|x| ()`: the same
        params = [toks[k].text for k in range(p0 + 1, p1) if toks[k].kind == "ident"]
        inner = [k for k in range(p0 + 1, p1) if toks[k].kind not in TRIVIA]
        single = len(inner) == 1 and len(params) == 1
        done = False
        tuple_pat = bool(inner) and toks[inner[0]].text == "(" and sf.br[inner[0]] == inner[-1]
        if tuple_pat and r3b and not block:
            # rule R3b has turned `|(a, b)| body` into `|p0__| { let (a, b) = p0__; body }`: a pure boolean body gets its contract
            # over p0__ (`*a` and `a` both stand for the component p0__.0)
            comps = [toks[k].text for k in inner[1:-1] if toks[k].text != ","]
            expr = _pure_bool_expr(sf, body, bend, set(c for c in comps if c != "_"))
            if expr and all(re.match(r"^\w+$", c) for c in comps):
                sig = [k for k in range(body, bend) if toks[k].kind not in TRIVIA]
                out, i = "", 0
                while i < len(sig):
                    t = toks[sig[i]].text
                    prev = toks[sig[i - 1]].text if i > 0 else ""
                    glue = "" if (i > 0 and toks[sig[i - 1]].end == toks[sig[i]].start) else " "
                    if t == "*" and i + 1 < len(sig) and toks[sig[i + 1]].text in comps and toks[sig[i + 1]].text != "_":
                        out += glue + "p0__.%d" % comps.index(toks[sig[i + 1]].text)
                        i += 2
                        continue
                    if toks[sig[i]].kind == "ident" and t in comps and t != "_" and prev != ".":
                        out += glue + "p0__.%d" % comps.index(t)
                    else:
                        out += glue + t
                    i += 1
                # R3b has inserted `{ let .. = p0__; ` before the body and ` }` after it: the contract goes before that block
                ed.before[body] = [Piece("-> (r__: bool) ensures r__ == (%s), " % out.strip(), label="kw")] + ed.before.get(body, [])
                done = True
        if single and not block:
            expr = _pure_bool_expr(sf, body, bend, set(params))
            if expr:
                ed.insert_before(body, [Piece("-> (r__: bool) ensures r__ == (%s), { " % expr, label="kw")])
                ed.insert_before(bend, [Piece(" }", label="kw")])
                done = True
            else:
                sig = [k for k in range(body, bend) if toks[k].kind not in TRIVIA]
                tt = [toks[k].text for k in sig]
                if len(tt) == 5 and tt[0] == params[0] and tt[1] == "." and tt[3:] == ["(", ")"] and tt[2] in AUTOENS:
                    ret, spec = AUTOENS[tt[2]]
                    ed.insert_before(body, [Piece("-> (r__: %s) ensures r__ == %s, { " % (ret, spec.replace("$x", params[0])), label="kw")])
                    ed.insert_before(bend, [Piece(" }", label="kw")])
                    done = True
        if not done and not block and len(inner) == 1:
            # `|x| CONST` / `|_| CONST`: the value is the constant; its type is read from the `const CONST: T = ..` item of the same file
            sig = [k for k in range(body, bend) if toks[k].kind not in TRIVIA]
            if len(sig) == 1 and toks[sig[0]].kind == "ident" and re.match(r"^[A-Z][A-Z0-9_]*$", toks[sig[0]].text):
                cname = toks[sig[0]].text
                allsig = [k for k in range(len(toks)) if toks[k].kind not in TRIVIA]
                for q in range(len(allsig) - 3):
                    if toks[allsig[q]].text == "const" and toks[allsig[q + 1]].text == cname and toks[allsig[q + 2]].text == ":":
                        r_ = q + 3
                        ty = []
                        while r_ < len(allsig) and toks[allsig[r_]].text != "=":
                            ty.append(toks[allsig[r_]].text)
                            r_ += 1
                        tytxt = " ".join(ty).replace("& str", "&'static str").replace("& [", "&'static [")
                        ed.insert_before(body, [Piece("-> (r__: %s) ensures r__ == %s, { " % (tytxt, cname), label="kw")])
                        ed.insert_before(bend, [Piece(" }", label="kw")])
                        done = True
                        break
        (auto if done else new_plain).append(txt)
    entry["closure_texts"] = texts
    entry["new_unannotated_closures"] = new_plain
    entry["auto_contract_closures"] = auto


def weave_closures(d, sf, lo, hi, ed, rule_hits):
    """closure annotations (by ordinal or by text anchor) inside the token range [lo, hi)"""
    toks = sf.toks
    cls = find_closures(sf, lo, hi)
    targets = []
    for n, spec in d.closures.items():
        if isinstance(n, str) and n.startswith("~*"):
            # `closure ~*<snippet> ## ..`: every innermost closure whose text contains the snippet (several identical closures)
            snip = norm(n[2:])
            cands = [c for c in cls if snip in norm_tokens(toks[c[0]:c[3]])]
            inner_most = [c for c in cands if not any(o is not c and c[0] <= o[0] and o[3] <= c[3] for o in cands)]
            if not inner_most:
                rule_hits["closure-missing"] = rule_hits.get("closure-missing", 0) + 1
            targets.extend((spec, c) for c in inner_most)
        elif isinstance(n, str):
            snip = norm(n[1:])
            cands = [c for c in cls if snip in norm_tokens(toks[c[0]:c[3]])]
            if not cands:
                rule_hits["closure-missing"] = rule_hits.get("closure-missing", 0) + 1
                continue
            targets.append((spec, min(cands, key=lambda c: c[3] - c[0])))
        elif n < 1 or n > len(cls):
            # the annotated closure is gone: verify without its annotation (the body decides)
            rule_hits["closure%d-missing" % n] = 1
            continue
        else:
            targets.append((spec, cls[n - 1]))
    for spec, (p0, p1, body, bend, block) in targets:
        cind = indent_of(sf, p0)
        if spec.get("sig"):
            ed.replace(p0, p1 + 1, [Piece(spec["sig"])])
        ps = []
        for kind, kwd in (("req", "requires"), ("ens", "ensures")):
            if spec.get(kind):
                ps.append(Piece("\n" + cind + "    " + kwd + "\n", label="kw"))
                for c in spec[kind]:
                    ps.append(Piece(cind + "        " + c.text.rstrip().rstrip(",") + ",\n", label=c.label))
        if ps:
            ps.append(Piece(cind, label="kw"))
        lets = spec.get("let")
        if not block:
            ps.append(Piece("{ " + ("".join(l + " " for l in lets) if lets else ""), label="kw"))
            ed.insert_before(bend, [Piece(" }", label="kw")])
        elif lets:
            # a destructuring `let` for a parameter that was a pattern (Verus: closure parameters must be variables)
            ed.insert_before(body + 1, [Piece(" " + " ".join(lets), label="kw")])
        ed.insert_before(body, ps)


def render_span(d, it, repo_root, registry):
    global CURRENT_D
    CURRENT_D = d
    return _render_span(d, it, repo_root, registry)


def _render_span(d, it, repo_root, registry):
    """statements of a function body, from the statement starting with `from` up to and including the block
    statement starting with `upto` (the thread closure body that cannot be named as a function)"""
    sf = it.sf
    toks = sf.toks
    if it.body_open is None:
        raise ExtractError("anchor lost: span needs a function with a body")
    if d.span_tail:
        k = it.body_open + 1
        last_semi = it.body_open
        while k < it.body_close:
            if toks[k].text in "([{":
                k = sf.br[k] + 1
                continue
            if toks[k].text == ";":
                last_semi = k
            k += 1
        j = sf.next_sig(last_semi + 1)
        if j >= it.body_close:
            raise ExtractError("anchor lost: %s has no tail expression" % it.name)
        e = it.body_close - 1
        while toks[e].kind in TRIVIA:
            e -= 1
        f = (j, j)
        u = None
        end = e + 1
    elif d.span_block:
        if d.span_block_nth:
            # `blocknth k/n <text>`: the k-th of exactly n occurrences of the text
            kth, total = d.span_block_nth
            occ = []
            pos = it.body_open
            while True:
                b = find_seq(sf, pos, it.body_close, d.span_block)
                if not b:
                    break
                occ.append(b)
                pos = b[1] + 1
            if len(occ) != total:
                raise ExtractError("anchor lost: block anchor %r occurs %d times in %s, contract expects %d" % (d.span_block, len(occ), it.name, total))
            b = occ[kth - 1]
        else:
            b = find_seq(sf, it.body_open, it.body_close, d.span_block)
            if not b:
                raise ExtractError("anchor lost: block anchor %r not found in %s" % (d.span_block, it.name))
            if find_seq(sf, b[1] + 1, it.body_close, d.span_block):
                raise ExtractError("anchor lost: block anchor %r is ambiguous in %s" % (d.span_block, it.name))
        j = b[1] + 1
        while j < it.body_close and toks[j].kind in TRIVIA:
            j += 1
        if j >= it.body_close or toks[j].text != "{":
            raise ExtractError("anchor lost: block anchor %r of %s is not followed by a block" % (d.span_block, it.name))
        f = (j, j)
        u = None
        end = sf.br[j] + 1
    else:
        f = find_seq(sf, it.body_open, it.body_close, d.span_from or "")
        if not f:
            raise ExtractError("anchor lost: span start %r not found in %s" % (d.span_from, it.name))
        u = find_seq(sf, f[0], it.body_close, d.span_upto or "") if not d.span_toend else f
        if not u:
            raise ExtractError("anchor lost: span end %r not found in %s" % (d.span_upto, it.name))
        j = u[1]
    if d.span_block or d.span_tail:
        pass
    elif d.span_toend:
        # up to the end of the function body (its tail expression included)
        e = it.body_close - 1
        while toks[e].kind in TRIVIA:
            e -= 1
        end = e + 1
    elif d.span_before:
        end = u[0]
    elif d.span_semi:
        while j < it.body_close and toks[j].text != ";":
            if toks[j].text in "([{":
                j = sf.br[j]
            j += 1
        if j >= it.body_close:
            raise ExtractError("anchor lost: span end %r of %s is not followed by `;`" % (d.span_upto, it.name))
        end = j + 1
    else:
        while True:
            while j < it.body_close and toks[j].text != "{":
                if toks[j].text in "([":
                    j = sf.br[j]
                j += 1
            end = sf.br[j] + 1
            # an `if` statement continues over its `else` chain
            nx = sf.next_sig(end)
            if nx < it.body_close and toks[nx].text == "else":
                j = nx + 1
                continue
            break
    ed = Edits()
    cfg_t, cfg_f = cfg_edits(sf, f[0], end, FEATURES, ed)
    rule_hits = {}
    for rule, n in d.rules:
        rule_hits[rule] = apply_rule(sf, f[0], end, rule, ed)
        if n >= 0 and rule_hits[rule] != n:
            raise ExtractError("anchor lost: rule %s hit %d times in span of %s, contract expects %d" % (rule, rule_hits[rule], it.name, n))
    if d.closures:
        weave_closures(d, sf, f[0], end, ed, rule_hits)
    registry.append({"mode": "fn", "file": os.path.relpath(sf.path, repo_root), "item": d.query + " [span]", "name": d.rename or (it.name + "__span"),
                     "line": toks[f[0]].line, "rules": rule_hits, "cfg_true": cfg_t, "cfg_false": cfg_f,
                     "clauses": [(k, c.label, c.props) for sp in d.closures.values() for k in ("req", "ens") for c in sp.get(k, [])], "canary": False,
                     "tline": d.tline, "span": True})
    audit_closures(d, sf, f[0], end, ed, registry[-1]["name"], registry[-1], "R3b" in rule_hits)
    ind = indent_of(sf, f[0])
    return [Piece(ind, label="indent")] + render_tokens(sf, f[0], end, ed) + [Piece("\n", label="nl")]


def render_bytesconst(d, it, repo_root, registry):
    """R5: `const NAME: &[u8] = b"..";` -> exec const with its value as a spec sequence generated from the literal"""
    sf = it.sf
    toks = sf.toks
    lit = None
    for k in range(it.kw, it.end):
        if toks[k].kind == "str" and toks[k].text.startswith("b\""):
            lit = toks[k].text
    if lit is None:
        raise ExtractError("anchor lost: %s is not a byte-string constant" % it.name)
    import ast
    val = ast.literal_eval(lit)
    seq = ", ".join("%du8" % b for b in val)
    ind = indent_of(sf, it.first)
    vis = norm_tokens(toks[it.first:it.kw])
    svis = vis if vis.strip() else "pub"   # the generated spec twins of a private const are crate visible (contracts refer to them)
    text = "%s%s open spec fn %s_spec() -> Seq<u8> { seq![%s] }\n" % (ind, svis, it.name, seq)
    conj = " && ".join(["m.len() == %d" % len(val)] + ["m[%d] == %du8" % (i, b) for i, b in enumerate(val)])
    text += "%s%s open spec fn %s_is(m: Seq<u8>) -> bool { %s }\n" % (ind, svis, it.name, conj)
    text += "%s#[verifier::external_body]\n%s%s exec const %s: &'static [u8]\n%s    ensures %s@ == %s_spec(),\n%s{ %s }\n" % (
        ind, ind, vis, it.name, ind, it.name, it.name, ind, lit)
    registry.append({"mode": "item", "file": os.path.relpath(sf.path, repo_root), "item": d.query, "name": it.name, "line": toks[it.first].line,
                     "rules": {"R5": 1}, "cfg_true": 0, "cfg_false": 0, "clauses": [], "canary": False, "tline": d.tline})
    return [Piece(text, sf, toks[it.first].start)]


def render_execconst(d, it, repo_root, registry):
    """`const NAME: T = <expr>;` -> `exec const NAME: T ensures NAME == <spec> { <expr> }` (initialiser verbatim, checked)"""
    sf = it.sf
    toks = sf.toks
    eq = colon = None
    for k in range(it.kw, it.end):
        if toks[k].text == ":" and colon is None:
            colon = k
        if toks[k].text == "=" and eq is None:
            eq = k
    semi = it.end - 1
    while semi > 0 and toks[semi].text != ";":
        semi -= 1
    if eq is None or colon is None or semi <= eq:
        raise ExtractError("anchor lost: %s is not a constant with an initialiser" % it.name)
    ind = indent_of(sf, it.first)
    vis = norm_tokens(toks[it.first:it.kw])
    ty = sf.text[toks[colon + 1].start:toks[eq].start].strip()
    init = sf.text[toks[eq + 1].start:toks[semi].start].strip()
    label = "%s.value" % it.name
    props = list(getattr(d, "props", []) or [])
    registry.append({"mode": "item", "file": os.path.relpath(sf.path, repo_root), "item": d.query, "name": it.name, "line": toks[it.first].line,
                     "rules": {}, "cfg_true": 0, "cfg_false": 0, "clauses": [("ens", label, props)], "canary": False, "tline": d.tline})
    return [Piece("%s%s exec const %s: %s\n%s    ensures\n" % (ind, vis, it.name, ty, ind), sf, toks[it.first].start),
            Piece("%s        %s == %s,\n" % (ind, it.name, d.execconst), label=label),
            Piece("%s{ %s }\n" % (ind, init), sf, toks[eq + 1].start)]


def render_item(d, it, repo_root, registry):
    """returns list of Pieces for one matched item under directive d"""
    global CURRENT_D
    CURRENT_D = d
    if d.mode == "span":
        return render_span(d, it, repo_root, registry)
    if d.bytesconst:
        return render_bytesconst(d, it, repo_root, registry)
    if d.execconst:
        return render_execconst(d, it, repo_root, registry)
    sf = it.sf
    toks = sf.toks
    ed = Edits()
    a, b = it.start, it.end
    ind = indent_of(sf, it.first)
    rule_hits = {}
    cfg_hi = b
    if it.body_open is not None and ((d.mode == "sig" and it.kind == "fn") or d.mode == "opaque"):
        cfg_hi = it.body_open
    elif d.mode == "opaque":
        cfg_hi = it.kw
    cfg_t, cfg_f = cfg_edits(sf, a, cfg_hi, FEATURES, ed)
    for rule, _n in d.rules:
        rule_hits[rule] = apply_rule(sf, a, b, rule, ed)
    if d.mode == "fn" and it.kind == "fn" and it.body_open is not None:
        rc = rewrite_for_continue(sf, it.body_open, it.body_close + 1, ed)
        if rc:
            rule_hits["RC"] = rc
    # attributes to drop
    if d.dropattrs:
        k = it.start
        # attributes of the item itself and, for type items, of its fields / variants (e.g. `#[default]`)
        hi = it.first if it.kind == "fn" else b
        while k < hi:
            if toks[k].text == "#" and toks[sf.next_sig(k + 1)].text == "[":
                n = sf.next_sig(k + 1)
                close = sf.br[n]
                txt = norm_tokens(toks[k:close + 1])
                if any(txt.startswith(norm(p)) for p in d.dropattrs):
                    ed.replace(k, close + 1, [Piece("")])
                k = close + 1
            else:
                k += 1
    pre = []
    for at in d.attrs:
        pre.append(Piece(at + "\n" + ind, label="attr"))
    fname = it.name
    if it.kind == "fn":
        arrow, ret_end, _pclose = fn_parts(it)
        if d.ret:
            if arrow is None:
                raise ExtractError("anchor lost: %s has no return type to name" % it.name)
            ed.insert_before(arrow + 2, [Piece(" (" + d.ret + ":", label="ret")])
            ed.insert_before(ret_end, [Piece(")", label="ret")])
        if d.rename:
            n = sf.next_sig(it.kw + 1)
            ed.replace(n, n + 1, [Piece(d.rename)])
            fname = d.rename
        if d.mode == "sig":
            pre.append(Piece("#[verifier::external_body]\n" + ind, label="external_body"))
        # clauses
        if it.body_open is None:
            raise ExtractError("anchor lost: fn %s has no body" % it.name)
        cl = []
        for kind, kwd in (("req", "requires"), ("ens", "ensures")):
            cs = [c for c in d.clauses if c.kind == kind]
            if cs:
                cl.append(Piece("\n" + ind + "    " + kwd + "\n", label="kw"))
                for c in cs:
                    cl.append(Piece(ind + "        " + c.text.rstrip().rstrip(",") + ",\n", label=c.label))
        if cl:
            cl.append(Piece(ind, label="kw"))
            ed.insert_before(it.body_open, cl)
        if d.mode == "sig":
            ed.replace(it.body_open, it.body_close + 1, [Piece("{ unimplemented!() }")])
        else:
            if d.body_prefix:
                ed.insert_before(it.body_open + 1, [Piece(" " + d.body_prefix + " ", label="body_prefix")])
            loops = find_loops(sf, it.body_open + 1, it.body_close)
            for n, spec in d.loops.items():
                if n < 1 or n > len(loops):
                    # the annotated loop is gone: verify without its invariants (the body decides)
                    rule_hits["loop%d-missing" % n] = 1
                    continue
                kw, in_tok, lbody = loops[n - 1]
                lind = indent_of(sf, kw)
                if spec.get("iter"):
                    if in_tok is None:
                        raise ExtractError("anchor lost: loop %d of %s is not a for loop" % (n, it.name))
                    ed.insert_before(in_tok + 1, [Piece(" " + spec["iter"] + ":", label="iter")])
                ps = []
                if spec.get("inv"):
                    ps.append(Piece("\n" + lind + "    invariant\n", label="kw"))
                    for c in spec["inv"]:
                        ps.append(Piece(lind + "        " + c.text.rstrip().rstrip(",") + ",\n", label=c.label))
                if spec.get("dec"):
                    if not spec.get("inv"):
                        ps.append(Piece("\n", label="kw"))
                    ps.append(Piece(lind + "    decreases " + ", ".join(spec["dec"]) + ",\n", label="kw"))
                if ps:
                    ps.append(Piece(lind, label="kw"))
                    ed.insert_before(lbody, ps)
            if d.closures:
                weave_closures(d, sf, it.body_open + 1, it.body_close, ed, rule_hits)
    elif d.mode == "opaque":
        if it.kind not in ("struct", "enum"):
            raise ExtractError("opaque needs a struct or enum: %s" % it.name)
        pre.append(Piece("#[verifier::external_body]\n" + ind, label="external_body"))
        # drop fields: struct X { .. } -> struct X { _p: () }   / tuple or enum likewise
        if it.body_open is not None:
            if it.kind == "struct":
                ed.replace(it.body_open, it.body_close + 1, [Piece("{ _opaque: () }")])
            else:
                ed.replace(it.body_open, it.body_close + 1, [Piece("{ OpaqueVariant }")])
        else:
            # tuple struct `struct X(..);`
            j = it.kw
            while toks[j].text != "(" and j < it.end:
                j += 1
            if j < it.end:
                ed.replace(j, it.end, [Piece("{ _opaque: () }")])
    for rule, n in d.rules:
        if n >= 0 and rule_hits[rule] != n:
            raise ExtractError("anchor lost: rule %s hit %d times in %s, contract expects %d" % (rule, rule_hits[rule], it.name or it.header, n))
    for n, txt in d.counts:
        want = [t.text for t in lex(txt) if t.kind not in TRIVIA]
        sigidx = [k for k in range(it.body_open or a, it.body_close or b) if toks[k].kind not in TRIVIA]
        hits = sum(1 for p in range(len(sigidx) - len(want) + 1) if [toks[sigidx[p + q]].text for q in range(len(want))] == want)
        if hits > n:
            raise ExtractError("anchor lost: %r occurs %d times in %s, the contract's oracle allows at most %d" % (txt, hits, it.name, n))
    unmodelled_hits = []
    for txt, labels in d.unmodelled:
        want = [t.text for t in lex(txt) if t.kind not in TRIVIA]
        sigidx = [k for k in range(it.body_open or a, it.body_close or b) if toks[k].kind not in TRIVIA]
        if any([toks[sigidx[p + q]].text for q in range(len(want))] == want for p in range(len(sigidx) - len(want) + 1)):
            unmodelled_hits.append({"construct": txt, "clauses": labels})
    for txt, labels in getattr(d, "onlyif", []):
        # the inverse of `unmodelled`: the listed clauses are decisive only while the body HAS the token sequence
        whole = txt.startswith("^")
        want = [t.text for t in lex(txt.lstrip("^")) if t.kind not in TRIVIA]
        sigidx = [k for k in range(it.body_open or a, it.body_close or b) if toks[k].kind not in TRIVIA]
        if whole:
            # `^<tokens>`: the body IS one block expression that starts with the tokens (nothing before it, nothing after its block)
            okw = it.body_open is not None and [toks[k].text for k in sigidx[1:1 + len(want)]] == want
            if okw:
                q = 1 + len(want)
                while q < len(sigidx) and toks[sigidx[q]].text != "{":
                    if toks[sigidx[q]].text in "([" and sigidx[q] in sf.br:
                        q = sigidx.index(sf.br[sigidx[q]]) if sf.br[sigidx[q]] in sigidx else len(sigidx)
                    q += 1
                okw = q < len(sigidx) and sf.br.get(sigidx[q]) is not None and sf.next_sig(sf.br[sigidx[q]] + 1) == it.body_close
            if not okw:
                unmodelled_hits.append({"construct": "(the body is no longer the single expression) " + txt.lstrip("^"), "clauses": labels})
            continue
        if not any([toks[sigidx[p + q]].text for q in range(len(want))] == want for p in range(len(sigidx) - len(want) + 1)):
            unmodelled_hits.append({"construct": "(no longer present) " + txt, "clauses": labels})
    if pre:
        ed.insert_before(it.first, pre)
    audit = {}
    if d.mode == "fn" and it.kind == "fn" and it.body_open is not None:
        audit_closures(d, sf, it.body_open + 1, it.body_close, ed, fname, audit, "R3b" in rule_hits)
    pieces = render_tokens(sf, a, b, ed)
    registry.append({
        "closure_texts": audit.get("closure_texts", []), "new_unannotated_closures": audit.get("new_unannotated_closures", []),
        "auto_contract_closures": audit.get("auto_contract_closures", []), "unmodelled": unmodelled_hits,
        "mode": d.mode, "file": os.path.relpath(sf.path, repo_root), "item": d.query, "name": fname,
        "line": toks[it.first].line, "rules": dict(rule_hits), "cfg_true": cfg_t, "cfg_false": cfg_f,
        "clauses": [(c.kind, c.label, c.props) for c in d.clauses]
        + [("inv", c.label, c.props) for s in d.loops.values() for c in s.get("inv", [])]
        + [(k, c.label, c.props) for s in d.closures.values() for k in ("req", "ens") for c in s.get(k, [])],
        "canary": d.canary, "tline": d.tline,
    })
    out = [Piece(ind, label="indent")] + pieces + [Piece("\n", label="nl")]
    if d.derivedefault:
        if it.kind != "enum":
            raise ExtractError("derivedefault needs an enum: %s" % it.name)
        var = None
        k = it.body_open
        while k < it.body_close:
            if toks[k].text == "#" and toks[sf.next_sig(k + 1)].text == "[":
                n = sf.next_sig(k + 1)
                close = sf.br[n]
                if norm_tokens(toks[n + 1:close]) == "default":
                    var = toks[sf.next_sig(close + 1)].text
                k = close + 1
            else:
                k += 1
        if var is None:
            raise ExtractError("anchor lost: enum %s marks no variant #[default]" % it.name)
        out.append(Piece("%simpl Default for %s { fn default() -> (r: Self) ensures r is %s { %s::%s } }\n" % (ind, it.name, var, it.name, var), sf, toks[it.first].start))
    # vacuity twin
    if d.canary and it.kind == "fn" and d.mode == "fn":
        ed2 = Edits()
        cfg_edits(sf, a, it.body_open, FEATURES, ed2)
        for rule, _n in d.rules:
            apply_rule(sf, a, b, rule, ed2)
        n = sf.next_sig(it.kw + 1)
        ed2.replace(n, n + 1, [Piece(fname + "__canary", label="canary")])
        cl = []
        cs = [c for c in d.clauses if c.kind == "req"]
        if cs:
            cl.append(Piece("\n" + ind + "    requires\n", label="kw"))
            for c in cs:
                cl.append(Piece(ind + "        " + c.text.rstrip().rstrip(",") + ",\n", label="canary"))
            cl.append(Piece(ind, label="kw"))
        ed2.insert_before(it.body_open, cl)
        ed2.replace(it.body_open, it.body_close + 1,
                    [Piece("{ assert(false); vstd::pervasive::unreached() }", label="canary:" + fname)])
        # drop attributes of the original (inline etc. are harmless, keep)
        out += [Piece("", label="M:cbegin:%d" % (len(registry) - 1))]
        out += [Piece(ind + "#[allow(dead_code)]\n" + ind, label="canary")]
        out += render_tokens(sf, it.first, b, ed2) + [Piece("\n", label="nl")]
        out += [Piece("", label="M:cend:%d" % (len(registry) - 1))]
    return out


OPTION_KW = ("ret", "req", "ens", "props", "loop", "closure", "rule", "attr", "dropattr", "canary", "rename", "prefix", "from", "upto", "uptosemi", "before", "tail", "toend", "block", "blocknth", "bytesconst", "count", "execconst", "derivedefault", "unmodelled", "onlyif", "fallback")
_lab_re = re.compile(r"^(req|ens|inv)(\[([^\]]+)\])?\s+(.*)$", re.S)


def parse_options(d, lines, unit_name):
    """lines: list of (text, tline)"""
    cur = None  # object with .text to continue
    auto = [0]

    def mk(kind, rest, props, ctx=""):
        m = _lab_re.match(kind + " " + rest) if not rest.startswith("[") else _lab_re.match(kind + rest)
        if not m:
            raise ExtractError("bad clause: %s %s" % (kind, rest))
        label = m.group(3)
        if not label:
            auto[0] += 1
            label = "%s%s.%s%d" % (short_name(d.query), ctx, kind, auto[0])
        return Clause(kind, label, m.group(4), list(props))

    for text, tline in lines:
        s = text.strip()
        if not s:
            continue
        w = re.split(r"[\s\[]", s, 1)[0]
        if w not in OPTION_KW:
            if cur is None:
                raise ExtractError("template line %d: continuation without clause" % tline)
            cur.text += "\n            " + s
            continue
        rest = s[len(w):].lstrip() if not s[len(w):].startswith("[") else s[len(w):]
        cur = None
        if w == "ret":
            d.ret = rest
        elif w in ("req", "ens"):
            c = mk(w, rest, d.props)
            d.clauses.append(c)
            cur = c
        elif w == "props":
            d.props = [p.strip() for p in rest.split(",") if p.strip()]
        elif w == "loop":
            n, sub, arg = (rest.split(None, 2) + ["", ""])[:3]
            if "[" in sub:
                arg = sub[sub.index("["):] + " " + arg
                sub = sub[:sub.index("[")]
            spec = d.loops.setdefault(int(n), {})
            if sub == "iter":
                spec["iter"] = arg
            elif sub == "inv":
                c = mk("inv", arg, d.props, ".loop" + n)
                spec.setdefault("inv", []).append(c)
                cur = c
            elif sub == "dec":
                spec.setdefault("dec", []).append(arg)
            else:
                raise ExtractError("template line %d: bad loop option" % tline)
        elif w == "closure":
            if rest.startswith("~"):
                # `closure ~<snippet> ## sig|req|ens ...`: the smallest closure whose text contains the snippet
                key, _, rem = rest.partition(" ## ")
                n = key.strip()
                sub, arg = (rem.split(None, 1) + [""])[:2]
            else:
                n, sub, arg = (rest.split(None, 2) + ["", ""])[:3]
            if "[" in sub:
                arg = sub[sub.index("["):] + " " + arg
                sub = sub[:sub.index("[")]
            spec = d.closures.setdefault(n if n.startswith("~") else int(n), {})
            if sub == "let":
                spec.setdefault("let", []).append(arg)
            elif sub == "sig":
                spec["sig"] = arg
            elif sub in ("req", "ens"):
                c = mk(sub, arg, d.props, ".closure" + re.sub(r"\W+", "_", str(n)))
                spec.setdefault(sub, []).append(c)
                cur = c
            else:
                raise ExtractError("template line %d: bad closure option" % tline)
        elif w == "rule":
            r, n = rest.split()
            # `*`: any number of hits (rewrites that are total and meaning-preserving wherever they match)
            d.rules.append((r, -1 if n == "*" else int(n)))
        elif w == "attr":
            d.attrs.append(rest)
        elif w == "dropattr":
            d.dropattrs.append(rest)
        elif w == "canary":
            d.canary = True
        elif w == "rename":
            d.rename = rest
        elif w == "prefix":
            d.body_prefix = rest
        elif w == "count":
            # `count <n> <token text>`: the body must contain the token sequence at most n times (guards the
            # "at most one call" side condition of prophecy-style oracles); otherwise the run is undecided
            n, txt = rest.split(None, 1)
            d.counts.append((int(n), txt))
        elif w == "from":
            d.span_from = rest
        elif w == "upto":
            d.span_upto = rest
        elif w == "block":
            # the span is the first `{...}` block that follows the text (e.g. the body of a match arm `Ok(mut buffer) =>`),
            # braces included: it becomes the body of the wrapper function in the template
            d.span_block = rest
        elif w == "blocknth":
            # `blocknth k/n <text>`: like `block`, for the k-th of exactly n occurrences of the text in the function
            kn, txt = rest.split(None, 1)
            d.span_block_nth = tuple(int(x) for x in kn.split("/"))
            d.span_block = txt
        elif w == "tail":
            # the span is the tail expression of the function body (what follows the last `;` at the top level of the body)
            d.span_tail = True
        elif w == "before":
            # the span ends right before the (first) statement that starts with the text
            d.span_upto = rest
            d.span_before = True
        elif w == "toend":
            # the span runs from `from` to the end of the function body
            d.span_toend = True
        elif w == "uptosemi":
            # the span ends with the `;` that closes the statement containing the text (not with a block)
            d.span_upto = rest
            d.span_semi = True
        elif w == "bytesconst":
            d.bytesconst = True
        elif w == "unmodelled":
            # `unmodelled <token text> ## <label> <label> ..`: when the body contains the token sequence, the listed clauses talk
            # about state the unit's model cannot follow through that construct (e.g. a direct write to a lock whose content the
            # model changes only through a `&mut self` shim): their failure is then reported UNDECIDED, never as a violation;
            # the other clauses of the function stay decisive
            txt, labels = rest.split("##")
            d.unmodelled.append((txt.strip(), labels.split()))
        elif w == "fallback":
            # `fallback <file> <item path>`: what to extract when the named item does not exist (a trait's provided method that takes over when
            # the impl's override is deleted)
            fp, ipath = rest.split(None, 1)
            d.fallback = (fp, ipath.strip())
        elif w == "onlyif":
            # `onlyif <token text> ## <label> ..`: the listed clauses rest on a shape of the body (e.g. a lock guard that lives as the
            # temporary of a `match` scrutinee); when the token sequence is gone, their failure is reported UNDECIDED
            txt, labels = rest.split("##")
            d.onlyif.append((txt.strip(), labels.split()))
        elif w == "derivedefault":
            # for an enum with `#[derive(Default)]`: emit `impl Default` whose value is the variant the source marks `#[default]`
            d.derivedefault = True
        elif w == "execconst":
            # `const NAME: T = <expr>;` becomes `exec const NAME: T ensures NAME == <spec> { <expr> }`: the initialiser is
            # executable code (a constructor call) that Verus checks against the stated value
            d.execconst = rest


def short_name(query):
    segs = [s.strip() for s in query.split(" / ")]
    names = []
    for s in segs:
        parts = s.split()
        if parts[0] == "impl":
            names.append(parts[-1])
        else:
            names.append(parts[-1])
    return "::".join(names[-2:]) if len(names) > 1 else names[-1]


_dir_re = re.compile(r"^\s*//@ (include|fn|sig|item|opaque|span)\s+(\S+)(?:\s+(.*))?$")
_opt_re = re.compile(r"^\s*//@\s{2,}(.*)$")


def expand(template_path, repo_root, verif_root, registry, _depth=0):
    """returns list of Pieces for the whole unit"""
    out = []
    with open(template_path, encoding="utf-8") as f:
        lines = f.read().split("\n")
    rel_t = os.path.relpath(template_path, verif_root)
    default_rules = []
    i = 0
    unit = os.path.splitext(os.path.basename(template_path))[0]
    while i < len(lines):
        line = lines[i]
        m = _dir_re.match(line)
        md = re.match(r"^\s*//@ defaults rule (\S+) \*\s*$", line)
        if md:
            default_rules.append((md.group(1), -1))
            i += 1
            continue
        ma = re.match(r"^\s*//@ autoens (\w+) -> (\S+) => (.+)$", line)
        if ma:
            AUTOENS[ma.group(1)] = (ma.group(2), ma.group(3).strip())
            i += 1
            continue
        if re.match(r"^\s*//@ literals\s*$", line):
            out.append(Piece(line[:len(line) - len(line.lstrip())] + LIT_MARK + "\n", label="T:%s:%d" % (rel_t, i + 1)))
            i += 1
            continue
        if not m:
            if line.lstrip().startswith("//@") and not line.lstrip().startswith(("//@label", "//@lemma", "//@ defaults")):
                raise ExtractError("%s:%d: stray directive line: %s" % (rel_t, i + 1, line.strip()))
            mlem = re.search(r"proof fn (\w+).*//@lemma\s+(\S+)", line)
            if mlem:
                registry.append({"mode": "lemma", "file": rel_t, "item": mlem.group(1), "name": mlem.group(1), "line": i + 1,
                                 "rules": {}, "clauses": [], "canary": False, "props": mlem.group(2).split(","),
                                 "tline": "%s:%d" % (rel_t, i + 1)})
            ml = re.search(r"//@label\s+(\S+)\s*(\S*)", line)
            if ml:
                props = [x for x in ml.group(2).split(",") if x]
                registry.append({"mode": "template", "file": rel_t, "item": ml.group(1), "name": ml.group(1), "line": i + 1,
                                 "rules": {}, "clauses": [("req", ml.group(1), props)], "canary": False,
                                 "tline": "%s:%d" % (rel_t, i + 1)})
                out.append(Piece(line + "\n", label=ml.group(1)))
            else:
                out.append(Piece(line + "\n", label="T:%s:%d" % (rel_t, i + 1)))
            i += 1
            continue
        mode, arg1, arg2 = m.group(1), m.group(2), m.group(3)
        tline = i + 1
        i += 1
        if mode == "include":
            out.extend(expand(os.path.join(verif_root, arg1), repo_root, verif_root, registry, _depth + 1))
            continue
        opts = []
        while i < len(lines):
            mo = _opt_re.match(lines[i])
            if not mo:
                break
            opts.append((mo.group(1), i + 1))
            i += 1
        d = Directive(mode, arg1, arg2, "%s:%d" % (rel_t, tline))
        parse_options(d, opts, unit)
        if mode in ("fn", "sig", "span"):
            for r, n in default_rules:
                if r not in [x for x, _ in d.rules]:
                    d.rules.append((r, n))
        path = os.path.join(repo_root, arg1)
        if not os.path.exists(path):
            raise ExtractError("anchor lost: %s does not exist" % arg1)
        sf = SourceFile.get(path)
        try:
            found_items = sf.find(arg2)
        except ExtractError:
            if not getattr(d, "fallback", None):
                raise
            # `fallback <file> <item path>`: the method of a trait impl is gone: the trait's provided (default) method is what runs now;
            # it is verified against the same contract (e.g. `impl LogWriter for FileLogWriter / fn reopen_output` -> `trait LogWriter / fn reopen_output`)
            fpath = os.path.join(repo_root, d.fallback[0])
            if not os.path.exists(fpath):
                raise
            sf = SourceFile.get(fpath)
            found_items = sf.find(d.fallback[1])
            d.query = d.fallback[1] + " [fallback for " + arg2 + "]"
        for it in found_items:
            if item_cfg_false(sf, it):
                # a platform / feature alternative of the same name that is not compiled under the unit's cfg (rule CFG)
                continue
            idx = len(registry)
            out.append(Piece("", label="M:begin:%d" % idx))
            out.extend(render_item(d, it, repo_root, registry))
            out.append(Piece("", label="M:end:%d" % idx))
    return out


def assemble(pieces):
    """-> (text, linemap) where linemap[i] (0-based generated line) = dict(origin)"""
    text_parts = []
    linemap = []
    cur_line_origin = None
    marks = {}
    for p in pieces:
        if p.label and p.label.startswith("M:"):
            _m, which, idx = p.label.split(":")
            marks.setdefault(int(idx), {})[which] = len(linemap) + 1
            continue
        if not p.text:
            continue
        segs = p.text.split("\n")
        for si, seg in enumerate(segs):
            if si > 0:
                # newline: close current line
                linemap.append(cur_line_origin)
                cur_line_origin = None
            if seg.strip() and (cur_line_origin is None or cur_line_origin.get("weak")):
                if p.src is not None:
                    off = p.off + sum(len(x) + 1 for x in segs[:si])
                    # offset arithmetic is exact only for verbatim token pieces; replaced pieces map to token start
                    if off > len(p.src.text):
                        off = p.off
                    ln = p.src.text.count("\n", 0, min(off, len(p.src.text))) + 1
                    cur_line_origin = {"file": p.src.path, "line": ln}
                elif p.label and p.label.startswith("T:"):
                    _t, tf, tl = p.label.split(":")
                    cur_line_origin = {"template": tf, "line": int(tl)}
                elif p.label in ("kw", "indent", "nl", "attr", "external_body", "ret", "iter"):
                    cur_line_origin = {"woven": p.label, "weak": True}
                else:
                    cur_line_origin = {"clause": p.label}
        text_parts.append(p.text)
    linemap.append(cur_line_origin)
    return "".join(text_parts).replace(LIT_MARK, literal_defs()), linemap, marks

"""Assemble one unit from /repo's working tree, run Verus on it, map the result to obligations."""
import glob
import json
import os
import re
import subprocess
import sys
import time

sys.path.insert(0, os.path.dirname(__file__))
import extract  # noqa: E402

VERIF = os.path.dirname(os.path.dirname(os.path.abspath(__file__)))
REPO = os.environ.get("VERIF_REPO", "/repo")
DEPS = os.path.join(VERIF, ".build", "deps", "debug", "deps")
GEN = os.path.join(VERIF, "gen")

# messages that are verdicts of the verifier about the code (semantic failures)
SEMANTIC = [
    ("postcondition not satisfied", "postcondition"),
    ("unable to prove post-condition of closure", "postcondition"),
    ("precondition not satisfied", "precondition"),
    ("invariant not satisfied", "invariant"),
    ("assertion failed", "assertion"),
    ("possible arithmetic underflow/overflow", "overflow"),
    ("possible division by zero", "div0"),
    ("possible bit shift underflow/overflow", "shift"),
    ("decreases not satisfied", "termination"),
    ("could not prove termination", "termination"),
    ("unreachable", "unreachable"),
    ("recommendation not met", "recommends"),
    ("cannot show invariant holds", "invariant"),
    ("loop invariant not satisfied", "invariant"),
    ("constructed value may fail to meet its declared type invariant", "typeinv"),
]
UNDECIDED = [
    ("Resource limit (rlimit) exceeded", "rlimit"),
    ("rlimit", "rlimit"),
    ("timed out", "timeout"),
]


def extern_args(features):
    args = ["-L", "dependency=" + DEPS]
    for crate in ("chrono", "log", "regex", "crossbeam_channel", "crossbeam_queue"):
        libs = sorted(glob.glob(os.path.join(DEPS, "lib%s-*.rlib" % crate)))
        if libs:
            args += ["--extern", "%s=%s" % (crate, libs[0])]
    for f in features:
        args += ["--cfg", 'feature="%s"' % f]
    return args


class Diag:
    def __init__(self):
        self.message = ""
        self.kind = ""          # postcondition / precondition / overflow / ... / compile / rlimit
        self.semantic = False
        self.fn = None          # registry entry of the enclosing extracted function (or None)
        self.fn_name = None
        self.clause = None      # clause label
        self.props = []
        self.repo_loc = None    # file:line in /repo of the primary span
        self.gen_line = None
        self.rendered = ""
        self.canary = False
        self.exit_loc = None

    def as_dict(self):
        return {"message": self.message, "kind": self.kind, "function": self.fn_name, "clause": self.clause,
                "props": self.props, "repo_loc": self.repo_loc, "gen_line": self.gen_line, "canary": self.canary}


class UnitResult:
    def __init__(self, unit):
        self.unit = unit
        self.status = "ok"      # ok | anchor_lost | compile_error | tool_error
        self.detail = ""
        self.registry = []
        self.functions = {}     # verus function name -> dict(success, ms, rlimit, mode)
        self.diags = []
        self.smt_ms = 0
        self.wall_s = 0.0
        self.gen_path = None
        self.cmd = ""
        self.trusted = []
        self.clause_lines = {}
        self.verified = 0
        self.errors = 0

    def fn_entries(self):
        return [e for e in self.registry if e["mode"] == "fn"]


def scan_trusted(text, linemap):
    """every external_body / assume_specification / axiom / admit / assume in the generated unit"""
    out = []
    bad = []
    lines = text.split("\n")
    for i, l in enumerate(lines):
        s = l.strip()
        if s.startswith("//"):
            continue
        if re.search(r"\bassume\s*\(", s) or re.search(r"\badmit\s*\(", s):
            bad.append("line %d: %s" % (i + 1, s))
        m = re.search(r"assume_specification\s*(<[^\[]*>)?\s*\[\s*([^\]]+)\]", s)
        if m:
            out.append("assume_specification " + re.sub(r"\s+", "", m.group(2)))
        elif "external_body" in s and "#[" in s:
            # name = next non-attribute line
            j = i + 1
            while j < len(lines) and (lines[j].strip().startswith("#[") or not lines[j].strip()):
                j += 1
            nm = lines[j].strip() if j < len(lines) else "?"
            nm = re.sub(r"\s*(requires|ensures|\{).*$", "", nm)
            out.append("external_body " + nm[:110])
        elif re.search(r"\baxiom fn\b|broadcast (proof|axiom) fn|#\[verifier::external\b", s):
            out.append("axiom " + s[:110])
        elif re.search(r"\buninterp\b", s):
            out.append("uninterpreted " + s[:110])
    return out, bad


def build(unit, repo=REPO, features=()):
    """-> (text, linemap, marks, registry)"""
    registry = []
    extract.FEATURES = set(features)
    extract.LITERALS.clear()
    extract.AUTOENS.clear()
    extract.CURRENT_UNIT = unit + ("[" + ",".join(features) + "]" if features else "")
    if extract.CLOSURE_SNAPSHOT is None and not os.environ.get("VERIF_NO_CLOSURE_SNAPSHOT"):
        extract.load_closure_snapshot(VERIF)
    tpl = os.path.join(VERIF, "units", unit + ".rs")
    pieces = extract.expand(tpl, repo, VERIF, registry)
    text, linemap, marks = extract.assemble(pieces)
    return text, linemap, marks, registry


def run(unit, features=(), repo=REPO, seed=None, rlimit=40, extra_args=(), tag=""):
    t0 = time.time()
    res = UnitResult(unit)
    try:
        text, linemap, marks, registry = build(unit, repo, features)
    except extract.ExtractError as e:
        res.status = "anchor_lost"
        res.detail = str(e)
        res.wall_s = time.time() - t0
        return res
    except Exception as e:  # lexer errors etc.
        res.status = "anchor_lost"
        res.detail = "extraction failed: %r" % (e,)
        res.wall_s = time.time() - t0
        return res
    res.registry = registry
    os.makedirs(GEN, exist_ok=True)
    gen_path = os.path.join(GEN, unit + tag + ".rs")
    with open(gen_path, "w", encoding="utf-8") as f:
        f.write(text)
    with open(gen_path + ".map.json", "w") as f:
        json.dump({"linemap": linemap, "marks": marks, "registry": registry}, f)
    res.gen_path = gen_path
    res.trusted, bad = scan_trusted(text, linemap)
    if bad:
        res.status = "tool_error"
        res.detail = "assume/admit in generated unit: " + "; ".join(bad[:3])
        return res
    for idx, e in enumerate(registry):
        e["gen_begin"] = marks.get(idx, {}).get("begin")
        e["gen_end"] = marks.get(idx, {}).get("end")
        e["canary_begin"] = marks.get(idx, {}).get("cbegin")
        e["canary_end"] = marks.get(idx, {}).get("cend")
    clause_props = {}
    for e in registry:
        for kind, label, props in e["clauses"]:
            clause_props[label] = props
    for i, o in enumerate(linemap):
        if o and "clause" in o:
            res.clause_lines.setdefault(o["clause"], []).append(i + 1)
    cmd = ["verus", gen_path, "--crate-name", "u_" + unit, "--no-trait-conflicts", "--multiple-errors", "8",
           "--output-json", "--time", "--rlimit", str(rlimit), "--error-format=json",
           "--num-threads", os.environ.get("VERIF_VERUS_THREADS", "8")] + extern_args(features) + list(extra_args)
    if seed is not None:
        cmd += ["--smt-option", "smt.random_seed=%d" % seed]
    res.cmd = " ".join(cmd)
    env = dict(os.environ)
    try:
        p = subprocess.run(cmd, stdout=subprocess.PIPE, stderr=subprocess.PIPE, text=True, env=env,
                           timeout=int(os.environ.get("VERIF_VERUS_TIMEOUT", "600")), cwd=VERIF)
    except subprocess.TimeoutExpired:
        res.status = "tool_error"
        res.detail = "verus timed out"
        res.wall_s = time.time() - t0
        return res
    res.wall_s = time.time() - t0
    with open(gen_path + ".stderr", "w") as f:
        f.write(p.stderr)
    try:
        j = json.loads(p.stdout)
    except Exception:
        j = None
    compile_errors = []
    for line in p.stderr.split("\n"):
        line = line.strip()
        if not line.startswith("{"):
            continue
        try:
            dj = json.loads(line)
        except Exception:
            continue
        if dj.get("level") not in ("error",):
            continue
        msg = dj.get("message", "")
        if msg.startswith("aborting due to"):
            continue
        d = Diag()
        d.message = msg
        d.rendered = dj.get("rendered", "")
        for pat, kind in SEMANTIC:
            if pat in msg:
                d.kind, d.semantic = kind, True
                break
        else:
            for pat, kind in UNDECIDED:
                if pat in msg:
                    d.kind = kind
                    break
            else:
                d.kind = "compile"
        spans = dj.get("spans", [])
        for ch in dj.get("children", []):
            spans = spans + ch.get("spans", [])
        # a span inside a macro definition (e.g. the unit's `vassert_eq!`): the place of interest is the call site
        def _callsite(sp):
            seen = 0
            while sp.get("expansion") and sp["expansion"].get("span") and seen < 8:
                inner = sp["expansion"]["span"]
                inner = dict(inner, is_primary=sp.get("is_primary"), label=sp.get("label"))
                sp, seen = inner, seen + 1
            return sp
        spans_orig = spans
        spans = [_callsite(sp) for sp in spans]
        prim = [s for s in spans if s.get("is_primary")]
        if prim:
            d.gen_line = prim[0]["line_start"]
        # enclosing function: by generated line range of registry entries
        cand_lines = [s["line_start"] for s in prim] + [s["line_start"] for s in spans if not s.get("is_primary")]
        for gl in cand_lines:
            for e in registry:
                if e.get("gen_begin") and e["gen_begin"] <= gl < (e["gen_end"] or 0) + 1 and e["mode"] in ("fn",):
                    d.fn = e
                    break
            if d.fn:
                break
        # for precondition failures the function of interest is the caller = primary span
        if d.kind == "precondition" and prim:
            for e in registry:
                if e.get("gen_begin") and e["gen_begin"] <= prim[0]["line_start"] <= (e["gen_end"] or 0) and e["mode"] == "fn":
                    d.fn = e
                    break
        if d.fn:
            d.fn_name = d.fn["name"]
        # clause: any span line that is a woven clause line
        # (a labelled clause may sit inside a macro definition of the template: look at the spans as reported, too)
        for s in sorted(spans + [x for x in spans_orig if x not in spans], key=lambda s: 0 if "failed th" in (s.get("label") or "") else 1):
            gl = s["line_start"]
            # a clause may span several generated lines: the label sits on every one of them
            o = linemap[gl - 1] if 0 < gl <= len(linemap) else None
            if o and "clause" in o and not o["clause"].startswith("canary"):
                d.clause = o["clause"]
                d.props = clause_props.get(d.clause, [])
                break
        if d.fn is None and d.clause and getattr(d, "fn_name", None) is None:
            # clause of a hand-written wrapper around a span: the label starts with the wrapper's name
            head = d.clause.split(".")[0]
            for e in registry:
                if e.get("span") and e["name"] == head:
                    d.fn, d.fn_name = e, e["name"]
                    break
        if d.kind in ("postcondition", "invariant"):
            for sp in spans:
                if not sp.get("is_primary") or len(spans) == 1:
                    gl = sp["line_start"]
                    o2 = linemap[gl - 1] if 0 < gl <= len(linemap) else None
                    if o2 and "file" in o2:
                        d.exit_loc = "%s:%d" % (os.path.relpath(o2["file"], repo), o2["line"])
                        break
        if d.gen_line:
            for e in registry:
                if e.get("canary_begin") and e["canary_begin"] <= d.gen_line <= e["canary_end"]:
                    d.canary = True
                    d.fn, d.fn_name = e, e["name"]
            o = linemap[d.gen_line - 1] if d.gen_line <= len(linemap) else None
            if o and "file" in o:
                d.repo_loc = "%s:%d" % (os.path.relpath(o["file"], repo), o["line"])
            elif o and "template" in o:
                d.repo_loc = "/verif/%s:%d" % (o["template"], o["line"])
            elif o and "clause" in o:
                d.repo_loc = "clause " + o["clause"]
            src_line = text.split("\n")[d.gen_line - 1] if d.gen_line <= text.count("\n") + 1 else ""
            if "__canary" in src_line or (o and str(o.get("clause", "")).startswith("canary")):
                d.canary = True
        if "__canary" in d.rendered.split("\n", 3)[-1][:400] and d.kind in ("assertion", "precondition"):
            # the twin's `assert(false)` / `unreached()`
            for s in prim:
                for tx in s.get("text", []):
                    if "__canary" in tx.get("text", ""):
                        d.canary = True
        if d.kind == "compile":
            compile_errors.append(d)
        res.diags.append(d)
    if j is None and compile_errors:
        res.status = "compile_error"
        res.detail = "; ".join((d.message + " @" + str(d.repo_loc)) for d in compile_errors[:4])
        return res
    if j is None:
        res.status = "tool_error"
        res.detail = "no JSON from verus (rc=%s): %s" % (p.returncode, p.stderr[-600:])
        return res
    vr = j.get("verification-results", {})
    res.verified = vr.get("verified", 0)
    res.errors = vr.get("errors", 0)
    smt = j.get("times-ms", {}).get("smt", {})
    res.smt_ms = smt.get("total", 0)
    for m in smt.get("smt-run-module-times", []):
        for fb in m.get("function-breakdown", []):
            res.functions[fb["function"]] = {"success": fb.get("success"), "ms": fb.get("time"),
                                             "us": fb.get("time-micros"), "rlimit": fb.get("rlimit"),
                                             "mode": fb.get("mode:") or fb.get("mode")}
    if compile_errors or vr.get("encountered-vir-error"):
        res.status = "compile_error"
        res.detail = "; ".join((d.message + " @" + str(d.repo_loc)) for d in compile_errors[:4]) or "vir error"
    elif not res.functions and not res.verified:
        res.status = "tool_error"
        res.detail = "verus verified nothing (rc=%s): %s" % (p.returncode, p.stderr[-400:])
    return res


def fn_verus_names(res, entry):
    """verus function-breakdown names that belong to a registry entry (match by trailing ::name)"""
    nm = entry["name"]
    return [k for k in res.functions if k.endswith("::" + nm)]


if __name__ == "__main__":
    import argparse
    ap = argparse.ArgumentParser()
    ap.add_argument("unit")
    ap.add_argument("--features", default="")
    ap.add_argument("--repo", default=REPO)
    ap.add_argument("-v", action="store_true")
    a = ap.parse_args()
    r = run(a.unit, [f for f in a.features.split(",") if f], repo=a.repo)
    print("status", r.status, r.detail)
    print("verified", r.verified, "errors", r.errors, "smt_ms", r.smt_ms, "wall %.1f" % r.wall_s)
    for k, v in sorted(r.functions.items()):
        if not v["success"] or a.v:
            print("  ", "ok  " if v["success"] else "FAIL", k, v["ms"], "ms")
    for d in r.diags:
        if d.kind == "compile":
            print("  C:", d.message[:300].replace("\n", " "))
        print("-", d.kind, "| fn", d.fn_name, "| clause", d.clause, d.props, "|", d.repo_loc, "| gen", d.gen_line, "| canary" if d.canary else "")
        if (d.kind == "compile" and d is [x for x in r.diags if x.kind == "compile"][0]) or a.v:
            print(d.rendered[:1500])

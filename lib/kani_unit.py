"""Kani back end: scratch copy of /repo's working tree, harness modules appended under #[cfg(kani)], in-place contract
attributes inserted with the extractor's locator, `cargo kani` run per group, results mapped to obligations.

Complete harnesses (loop-free, full-domain symbolic inputs, or proof_for_contract) count as proof obligations;
harnesses with an input-size bound are reported under `bounded` and never counted as proved."""
import os
import re
import shutil
import subprocess
import sys
import tempfile
import time

sys.path.insert(0, os.path.dirname(__file__))
import extract  # noqa: E402

VERIF = os.path.dirname(os.path.dirname(os.path.abspath(__file__)))

# harness -> (module, complete?, properties, what it establishes, bound text)
HARNESSES = {
    "size_rotation_necessary_contract": ("roll", True, ["C08", "C01"], "in-place contract on RollState::size_rotation_necessary: r == (current_size > max_size), all u64 pairs", ""),
    "increase_size_contract": ("roll", True, ["C08", "C01"], "RollState::increase_size: *self == old.plus(add) (assumed by Verus unit `state`), all u64 triples, all variants", ""),
    "rotation_necessary_size": ("roll", True, ["C08"], "RollState::rotation_necessary for Size == (cur > max)", ""),
    "naming_state_writes_direct": ("roll", True, ["C07"], "NamingState::writes_direct table", ""),
    "level_vs_filter": ("levels", True, ["C02", "C13"], "axioms ax_level_filter_*: Level x LevelFilter comparisons are the numeric order (all 30 pairs)", ""),
    "level_vs_level": ("levels", True, ["C02", "C13"], "axioms ax_level_level_*, ax_level_eq: all 25 pairs", ""),
    "filter_vs_filter": ("levels", True, ["C02", "C05"], "axioms ax_filter_filter_*, std::cmp::max on LevelFilter: all 36 pairs", ""),
    "duplicate_u8_round_trip": ("dup", True, ["C13"], "Duplicate::from(d as u8) == d for all seven values", ""),
    "duplicate_from_u8_total_on_encodings": ("dup", True, ["C13"], "Duplicate::from is total and the identity on 0..=6", ""),
    "cleanup_keeps_newest_n0": ("cleanup", False, ["C07", "C14"], "real remove_or_compress_too_old_logfiles_impl, recording stubs", "listing length == 0"),
    "cleanup_keeps_newest_n1": ("cleanup", False, ["C07", "C14"], "real remove_or_compress_too_old_logfiles_impl, recording stubs", "listing length == 1"),
    "cleanup_keeps_newest_n2": ("cleanup", False, ["C07", "C14"], "real remove_or_compress_too_old_logfiles_impl, recording stubs", "listing length == 2"),
    "cleanup_keeps_newest_n3": ("cleanup", False, ["C07", "C14"], "real remove_or_compress_too_old_logfiles_impl, recording stubs", "listing length == 3"),
    "cleanup_keeps_newest_n4": ("cleanup", False, ["C07", "C14"], "real remove_or_compress_too_old_logfiles_impl, recording stubs", "listing length == 4"),
    "cleanup_keeps_newest_n5": ("cleanup", False, ["C07", "C14"], "real remove_or_compress_too_old_logfiles_impl, recording stubs", "listing length == 5"),
    "highest_index_empty": ("names", False, ["C06", "C14"], "real get_highest_index on a stubbed listing", "catalogue entry: empty directory"),
    "highest_index_single": ("names", False, ["C06", "C14"], "real get_highest_index on a stubbed listing", "catalogue entry: one rotated file"),
    "highest_index_three": ("names", False, ["C06", "C14"], "real get_highest_index on a stubbed listing", "catalogue entry: three rotated files"),
    "highest_index_name_with_r": ("names", False, ["C06", "C14"], "real get_highest_index: infix = text after the LAST \"_r\"", "catalogue entry: basename web_requests"),
    "highest_index_two_digit": ("names", False, ["C06", "C14"], "real get_highest_index on a stubbed listing", "catalogue entry: indices 7 and 12"),
    "highest_index_gz_only": ("names", False, ["C06", "C14"], "real get_highest_index sees compressed files (regression check for F12)", "catalogue entry: only .gz files"),
    "filter_member": ("filter", False, ["C14", "C10"], "real FileSpec::filter_files + InfixFilter", "catalogue entry: family member"),
    "filter_longer_basename": ("filter", False, ["C14", "C10"], "real FileSpec::filter_files + InfixFilter", "catalogue entry: longer basename sharing the prefix"),
    "filter_other_suffix": ("filter", False, ["C14", "C10"], "real FileSpec::filter_files + InfixFilter", "catalogue entry: other suffix"),
    "filter_current_is_not_numbered": ("filter", False, ["C14", "C07"], "InfixFilter::Numbrs never selects the rCURRENT infix", "catalogue entry: rCURRENT"),
    "filter_no_infix": ("filter", False, ["C14", "C10"], "real FileSpec::filter_files + InfixFilter", "catalogue entry: no infix"),
    "filter_multibyte_neighbour": ("filter", False, ["C14", "C10"], "foreign multi-byte name is skipped without panic (regression check for F2)", "catalogue entry: foo\u00e9.log"),
    "filter_equals_current": ("filter", False, ["C14", "C16"], "InfixFilter::Equls selects exactly the current infix", "catalogue entry: Equls(rCURRENT)"),
    "filter_compressed": ("filter", False, ["C14", "C07"], "compressed members are selected with suffix gz", "catalogue entry: .log.gz"),
    "filter_suffix_tail_catalog": ("filter", False, ["C14", "C07"], "suffix must be the extension, not a tail of the name", "catalogue entry: .catalog vs suffix log"),
    "filter_suffix_tail_tgz": ("filter", False, ["C14", "C07"], "suffix must be the extension, not a tail of the name", "catalogue entry: .tgz vs gz"),
    "filter_suffix_no_dot": ("filter", False, ["C14", "C07"], "suffix must be the extension, not a tail of the name", "catalogue entry: extension-less name ending in log"),
    "level_sort_sorts_by_descending_name_length": ("sort", False, ["C02"], "real Vec<ModuleFilter>::level_sort: descending name length, default entry last, a permutation (the list invariant assumed by Verus unit spec, lemma_longest_prefix)", "3 entries, name lengths 0..3"),
    "max_level_is_the_maximum": ("sort", False, ["C02"], "real LogSpecification::max_level == maximum of the entries' filters (all 216 filter triples)", "3 entries"),
    "max_level_of_the_empty_specification_is_off": ("sort", False, ["C02"], "real LogSpecification::max_level of an empty list is Off", "0 entries"),
    "restart_number_member": ("restart", False, ["C10", "C01"], "real restart_number reads a well-formed .restart-NNNN discriminant", "catalogue entry"),
    "restart_number_short": ("restart", False, ["C10", "C01"], "real restart_number does not panic on a trimmed sibling name (regression check for F13)", "catalogue entry"),
    "restart_number_not_numeric": ("restart", False, ["C10", "C01"], "real restart_number: non-numeric discriminant is ignored", "catalogue entry"),
    "restart_number_multibyte": ("restart", False, ["C10", "C01"], "real restart_number: multi-byte character inside the four positions", "catalogue entry"),
    "restart_number_no_marker": ("restart", False, ["C10", "C01"], "real restart_number: no marker", "catalogue entry"),
    "restart_number_plus_sign": ("restart", False, ["C10", "C01"], "real restart_number: '+123' is read as 123 (str::parse accepts a sign)", "catalogue entry"),
    "ts_infix_member": ("tsinfix", False, ["C10", "C06"], "real ts_infix_from_path", "catalogue entry: standard timestamp name"),
    "ts_infix_short_name": ("tsinfix", False, ["C10", "C06"], "real ts_infix_from_path does not panic on a shorter name (regression check for F5)", "catalogue entry: number-named file"),
    "ts_infix_restart_sibling": ("tsinfix", False, ["C10", "C06"], "real ts_infix_from_path", "catalogue entry: .restart sibling"),
}
THOROUGH_ONLY = {"cleanup_keeps_newest_n4", "cleanup_keeps_newest_n5"}


def module_header(mod):
    """-> (target file, [(file, item path, attribute text)])"""
    target = None
    contracts = []
    for line in open(os.path.join(VERIF, "kani", mod + ".rs"), encoding="utf-8"):
        if line.startswith("//@target "):
            target = line.split(None, 1)[1].strip()
        elif line.startswith("//@contract "):
            rest = line[len("//@contract "):].strip()
            loc, _, attr = rest.partition(" :: ")
            f, _, item = loc.partition(" ")
            contracts.append((f, item.strip(), attr.strip()))
    return target, contracts


def prepare(repo, mods):
    """scratch copy with harness modules appended and contract attributes inserted; returns (dir, trusted list)"""
    base = os.environ.get("VERIF_SCRATCH", tempfile.gettempdir())
    d = tempfile.mkdtemp(prefix="verif-kani-", dir=base)
    for name in ("src", "Cargo.toml", "Cargo.lock", "build.rs", "tests", "benches", "examples"):
        p = os.path.join(repo, name)
        if os.path.isdir(p):
            shutil.copytree(p, os.path.join(d, name), symlinks=True)
        elif os.path.exists(p):
            shutil.copy2(p, os.path.join(d, name))
    os.makedirs(os.path.join(d, ".cargo"), exist_ok=True)
    with open(os.path.join(d, ".cargo", "config.toml"), "w") as f:
        f.write("[net]\noffline = true\n")
    trusted = []
    inserts = {}
    for mod in mods:
        target, contracts = module_header(mod)
        if target is None:
            raise extract.ExtractError("kani/%s.rs has no //@target" % mod)
        tp = os.path.join(d, target)
        if not os.path.exists(tp):
            raise extract.ExtractError("anchor lost: %s does not exist" % target)
        for f, item, attr in contracts:
            inserts.setdefault(f, []).append((item, attr))
    # contract attributes first (offsets refer to the unmodified text)
    for f, lst in inserts.items():
        path = os.path.join(d, f)
        sf = extract.SourceFile(path)
        edits = []
        for item, attr in lst:
            for it in sf.find(item):
                edits.append((sf.toks[it.first].start, attr + "\n"))
        text = sf.text
        for off, ins in sorted(edits, reverse=True):
            text = text[:off] + ins + text[off:]
        with open(path, "w", encoding="utf-8") as fh:
            fh.write(text)
    for mod in mods:
        target, _ = module_header(mod)
        with open(os.path.join(d, target), "a", encoding="utf-8") as fh:
            fh.write("\n#[cfg(kani)]\nmod verif_kani_%s { include!(\"%s\"); }\n" % (mod, os.path.join(VERIF, "kani", mod + ".rs")))
    return d


_res_re = re.compile(r"\*\* (\d+) of (\d+) failed(?: \((\d+) unreachable\))?")
_cov_re = re.compile(r"\*\* (\d+) of (\d+) cover properties satisfied")


def parse_output(out):
    """-> {harness: dict(status, failed, total, cover_sat, cover_total, time, failed_checks[list], unwind_fail)}"""
    res = {}
    cur = {}       # thread -> harness
    active = None  # harness whose result block we are in
    lines = out.split("\n")
    i = 0
    thread = "-"
    while i < len(lines):
        ln = lines[i]
        m = re.match(r"(?:Thread (\d+): )?Checking harness (\S+?)\.\.\.", ln)
        if m:
            thread = m.group(1) or "-"
            h = m.group(2).rsplit("::", 1)[-1]
            cur[thread] = h
            res[h] = {"status": "unknown", "failed": 0, "total": 0, "cover_sat": 0, "cover_total": 0, "time": 0.0,
                      "failed_checks": [], "unwind_fail": False, "full": m.group(2)}
            active = h if thread == "-" else None
        m = re.match(r"Thread (\d+):\s*$", ln)
        if m:
            active = cur.get(m.group(1))
        if active and active in res:
            r = res[active]
            m = _res_re.search(ln)
            if m:
                r["failed"], r["total"] = int(m.group(1)), int(m.group(2))
            m = _cov_re.search(ln)
            if m:
                r["cover_sat"], r["cover_total"] = int(m.group(1)), int(m.group(2))
            m = re.match(r"\s*Failed Checks: (.*)", ln)
            if m:
                desc = m.group(1).strip()
                loc = ""
                if i + 1 < len(lines) and "File:" in lines[i + 1]:
                    loc = lines[i + 1].strip()
                r["failed_checks"].append((desc, loc))
                if "unwinding assertion" in desc:
                    r["unwind_fail"] = True
            if "VERIFICATION:- SUCCESSFUL" in ln:
                r["status"] = "ok"
            elif "VERIFICATION:- FAILED" in ln:
                r["status"] = "failed"
            m = re.match(r"Verification Time: ([0-9.]+)s", ln)
            if m:
                r["time"] = float(m.group(1))
        i += 1
    return res


def run_kani(d, harnesses, timeout, jobs=8, extra=()):
    cmd = ["cargo", "kani", "-Z", "function-contracts", "-Z", "stubbing", "--target-dir", os.path.join(d, "target"),
           "-j", str(jobs), "--output-format=terse"] + list(extra)
    for h in harnesses:
        cmd += ["--harness", h]
    env = dict(os.environ)
    env["CARGO_NET_OFFLINE"] = "true"
    t0 = time.time()
    try:
        p = subprocess.run(cmd, cwd=d, stdout=subprocess.PIPE, stderr=subprocess.STDOUT, text=True, timeout=timeout, env=env)
        out, rc = p.stdout, p.returncode
    except subprocess.TimeoutExpired as e:
        out = (e.stdout or b"").decode("utf-8", "replace") if isinstance(e.stdout, bytes) else (e.stdout or "")
        rc = -9
    return " ".join(cmd), out, rc, time.time() - t0


def counterexample(d, harness, timeout=600):
    """re-run one failing harness with concrete playback; -> (values text, playback result text)"""
    cmd = ["cargo", "kani", "-Z", "function-contracts", "-Z", "stubbing", "-Z", "concrete-playback", "--concrete-playback=print",
           "--target-dir", os.path.join(d, "target"), "--harness", harness]
    env = dict(os.environ)
    env["CARGO_NET_OFFLINE"] = "true"
    try:
        p = subprocess.run(cmd, cwd=d, stdout=subprocess.PIPE, stderr=subprocess.STDOUT, text=True, timeout=timeout, env=env)
    except subprocess.TimeoutExpired:
        return None, "playback generation timed out"
    m = re.search(r"```\n(.*?)```", p.stdout, re.S)
    if not m:
        return None, "no concrete test printed"
    test = m.group(1)
    return test, ""


def playback(d, harness, test_src, target_file, mod, timeout=1500):
    """insert the generated unit test into the harness module's file and run it natively on the real code"""
    path = os.path.join(d, target_file)
    with open(path, "a", encoding="utf-8") as fh:
        fh.write("\n#[cfg(kani)]\nmod verif_kani_playback_%s {\n    use super::verif_kani_%s::*;\n%s\n}\n" % (harness, mod, test_src))
    m = re.search(r"fn (kani_concrete_playback_\w+)", test_src)
    name = m.group(1) if m else ""
    cmd = ["cargo", "kani", "playback", "-Z", "concrete-playback", "--", name]
    env = dict(os.environ)
    env["CARGO_NET_OFFLINE"] = "true"
    env["CARGO_TARGET_DIR"] = os.path.join(d, "target-playback")
    try:
        p = subprocess.run(cmd, cwd=d, stdout=subprocess.PIPE, stderr=subprocess.STDOUT, text=True, timeout=timeout, env=env)
        tail = "\n".join(p.stdout.split("\n")[-25:])
        if re.search(r"test result: FAILED|panicked at", p.stdout):
            return "replayed natively on the real code: the harness fails with these values", tail
        if "test result: ok" in p.stdout:
            return "native replay passed (the failure needs the verifier's non-determinism)", tail
        return "native replay did not run", tail
    except subprocess.TimeoutExpired:
        return "native replay timed out", ""
    finally:
        shutil.rmtree(os.path.join(d, "target-playback"), ignore_errors=True)


def run_groups(harness_names, prop, tier, repo, known, match_known):
    out = {"undecided": [], "violations": [], "known_hits": [], "obligations": 0, "discharged": 0, "samples": [],
           "bounded": [], "cmds": [], "solver_ms": 0, "functions": [], "trusted": [], "summary": []}
    names = [h for h in harness_names if prop in HARNESSES[h][2] and (tier == "thorough" or h not in THOROUGH_ONLY)]
    if not names:
        return out
    mods = sorted({HARNESSES[h][0] for h in names})
    d = None
    try:
        try:
            d = prepare(repo, mods)
        except extract.ExtractError as e:
            out["undecided"].append("kani: %s" % e)
            return out
        timeout = int(os.environ.get("VERIF_KANI_TIMEOUT", "1500" if tier == "quick" else "3600"))
        cmd, text, rc, wall = run_kani(d, names, timeout, jobs=int(os.environ.get("VERIF_KANI_JOBS", "14")))
        out["cmds"].append(cmd)
        res = parse_output(text)
        if rc == -9:
            out["undecided"].append("kani: timeout after %ds" % timeout)
        if "error: could not compile" in text or "error[E" in text or "internal compiler error" in text or "thread 'rustc' panicked" in text:
            tail = "\n".join([l for l in text.split("\n") if l.startswith("error")][:5])
            out["undecided"].append("kani: the scratch copy with the harness modules does not compile: %s" % tail[:600])
            return out
        for h in names:
            mod, complete, hprops, what, bound = HARNESSES[h]
            r = res.get(h)
            if r is None or r["status"] == "unknown":
                out["undecided"].append("kani: no result for harness %s" % h)
                continue
            out["solver_ms"] += int(r["time"] * 1000)
            out["summary"].append({"harness": h, "status": r["status"], "checks": r["total"], "failed": r["failed"],
                                   "cover": "%d/%d" % (r["cover_sat"], r["cover_total"]), "time_s": r["time"],
                                   "complete": complete, "bound": bound})
            # vacuity guards: checks exist and every cover is reachable
            if r["total"] == 0 or r["cover_total"] == 0 or r["cover_sat"] != r["cover_total"]:
                if r["status"] == "ok":
                    out["undecided"].append("kani: vacuity guard: harness %s has %d checks, covers %d/%d" % (h, r["total"], r["cover_sat"], r["cover_total"]))
            if r["status"] == "failed":
                sem = [(dsc, loc) for dsc, loc in r["failed_checks"] if "unwinding assertion" not in dsc]
                if r["unwind_fail"] and not sem:
                    out["undecided"].append("kani: unwinding assertion failed in %s (bound too small)" % h)
                    continue
                if not sem and r["cover_sat"] != r["cover_total"] and r["failed"] == 0:
                    out["undecided"].append("kani: harness %s: cover not satisfied" % h)
                    continue
                for dsc, loc in (sem or [("verification failed", "")]):
                    info = {"harness": h, "kind": "kani", "check": dsc, "fn": h, "clause": h + ": " + dsc, "expr": dsc,
                            "repo_loc": loc.replace("File:", "").strip(), "unit": "kani/" + mod, "message": dsc,
                            "rendered": "Kani harness %s (%s)\nFailed check: %s\n%s" % (h, what, dsc, loc)}
                    k = match_known(known, prop, None, info)
                    if k:
                        out["known_hits"].append((k, info))
                        continue
                    test, why = (None, "playback limited to two harnesses per run") if out.get("_playbacks", 0) >= 2 else counterexample(d, h)
                    if test:
                        out["_playbacks"] = out.get("_playbacks", 0) + 1
                        info["counterexample"] = test
                        target, _c = module_header(mod)
                        verdict, tail = playback(d, h, test, target, mod)
                        info["replayed"] = verdict
                        info["rendered"] += "\n\nconcrete playback test generated by Kani:\n" + test + "\n\nnative run:\n" + tail
                    else:
                        info["rendered"] += "\n(no concrete values: %s)" % why
                    out["violations"].append(info)
                    break
            if complete:
                out["obligations"] += r["total"]
                out["discharged"] += r["total"] - r["failed"]
                out["samples"].append({"obligation": "kani harness " + h, "kind": "complete (loop-free, full-domain symbolic inputs)",
                                       "establishes": what, "checks": r["total"], "failed": r["failed"], "backend": "kani/cbmc", "s": r["time"]})
            else:
                out["bounded"].append({"harness": h, "bound": bound, "checks": r["total"], "failed": r["failed"], "status": r["status"],
                                       "establishes": what, "note": "BOUNDED stand-in, not counted as proved"})
            out["functions"].append("%s [kani/%s.rs%s]" % (h, mod, "" if complete else ", bounded: " + bound))
        out["trusted"] += ["kani: Kani 0.68 / CBMC 6.11; stubs in kani/%s.rs stand for the effects they record (A8)" % m for m in mods]
    finally:
        if d:
            shutil.rmtree(d, ignore_errors=True)
    return out


if __name__ == "__main__":
    import json
    names = sys.argv[2:] or list(HARNESSES)
    r = run_groups(names, sys.argv[1], os.environ.get("VERIF_TIER", "quick"), os.environ.get("VERIF_REPO", "/repo"), [], lambda *a: None)
    print(json.dumps({k: v for k, v in r.items() if k != "samples"}, indent=1)[:6000])

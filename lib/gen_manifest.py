#!/usr/bin/env python3
"""Writes /verif/MANIFEST.json from lib/props.py + the texts below (kept in one place so it stays valid)."""
import json
import os
import sys

VERIF = os.path.dirname(os.path.dirname(os.path.abspath(__file__)))
sys.path.insert(0, os.path.join(VERIF, "lib"))
import props  # noqa: E402

TEXT = {
    "C01": ("Verus proves, on the byte-for-byte extracted bodies of State::write_buffer, mount_next_linewriter_if_necessary, initialize, "
            "initialize_with_rotation, open_log_file, numbers::index_for_rcurrent and the RollState functions, contracts that say for every buffer, "
            "configuration, naming state and file-system answer: rotation check first, then exactly one write_all of the whole buffer to the writer "
            "that is current afterwards, then size accounting; index incremented only after a successful rename; writer replaced only by a fresh one "
            "after open succeeded. Histories follow by induction over these postconditions (lemma in unit `state`).",
            "Not verified: the thread_local / RefCell scaffolding around the copied line-assembly arms, number_infix's format! (an oracle), the `for` statement of "
            "get_highest_index (its body is verified, a fold lemma covers the loop); single-threaded; file bytes == bytes accepted by write_all once flushed (A1); "
            "arithmetic premises A5."),
    "C04": ("Verus proves State::flush (written unchanged, Ok => everything flushed, flush actually called), State::shutdown (flush called exactly once, "
            "cleanup handle taken, nothing else changes) and RotationState::shutdown on the extracted bodies, for all states.",
            "The layers above (StateHandle, FileLogWriter, MultiWriter, PrimaryWriter, LoggerHandle incl. Drop after the repair of F9, FlexiLogger::flush, the async "
            "writer thread's dispatcher and the async shutdown join) are under contract too (see the added text); NOT decided: the flusher threads, thread schedules "
            "(C03), the channel's in-order delivery; BufWriter flush-on-drop is assumed (A1)."),
    "C06": ("Verus proves State::initialize_with_rotation / initialize / open_log_file / RollState::new / index_for_rcurrent against a start-up "
            "specification over directory oracles: start index highest+1 (or highest when appending with direct numbering), left-over current file "
            "rotated iff not appending and only tolerated missing (NotFound), open flags append == config.append, truncate == !append, size seeded "
            "from the file length iff appending.",
            "The directory scans are under contract piecewise (loop body of get_highest_index, latest_timestamp_file, head and decision of "
            "collision_free_infix_for_rotated_file, restart_number, the filter closures of filter_files); read_dir itself and chrono parsing are oracles; effect "
            "order inside one function is expressible only through happened-before token facts (cleanup after open)."),
    "C08": ("Verus proves size_rotation_necessary == (cur > max), rotation_necessary == size part or age part, reset_size_and_date, RollState::new seed, and "
            "through write_buffer / mount_next the exact accounting cur' == (if rotated {0} else {cur}) + len on success and unchanged on a failed write; "
            "Kani proves RollState::increase_size (or-pattern with ref mut is outside Verus) and gives counterexamples for the integer leaves.",
            "u64 arithmetic premise A5; one thread."),
    "C09": ("Verus proves age_rotation_necessary == not same_period(age, created_at, clock_now()) for all four ages, rotation_necessary for AgeOrSize, "
            "reset_size_and_date re-reading the creation time of the new file, the created/modified/now fallback chain of get_creation_timestamp, and "
            "mount_next passing the stored time stamp as the date of the rotated file.",
            "chrono accessors are uninterpreted field functions (A3); the clock is frozen during one call (A2); OS birth-time semantics."),
    "C15": ("The State contracts never mention the write mode, so the per-file byte sequences are a function of the operation sequence only; Verus proves "
            "open_log_file buffers exactly for the Buffer* modes (WriteMode::buffersize / effective_write_mode tables against the documented modes).",
            "plain_write and the async dispatch are decided in unit `handle` (see notes); A1."),
    "C18": ("Verus proves State::reopen_outputfile on the extracted body: it opens the stored path with create+append and never truncates, replaces the "
            "writer by a fresh one only on success, keeps path and rotation state; on failure the writer is the old one or the documented dummy sibling.",
            "The fan-out layers (StateHandle::{reset, reopen_outputfile, rotate}, FileLogWriter, MultiWriter::reopen_output, LoggerHandle::{reset_flw, reopen_output, "
            "trigger_rotation}) are under contract by result oracles and token facts; NOT decided: the external rename itself; A1 (old BufWriter flushes on drop)."),
    "C19": ("The error arms of the State contracts hold for every combination of file-system answers of one call: failed start-up leaves the state Initial "
            "(retried), failed rotation is reported with ErrorCode::LogFile only and the record still goes to the current writer, failed write_all keeps the "
            "size account and earlier bytes, index unchanged on a failed rename.",
            "NOT decided: failures inside the background cleanup thread and the flusher threads; that stderr / stdout / the error file accept the bytes (A1)."),
}

TEXT.update({
    "C02": ("Verus proves LogSpecification::enabled == `first entry in list order that applies decides` (unbounded loop invariant) and, as a pure lemma, "
            "that on a list sorted by descending name length this is the longest specified module name that is a prefix of the target, else the default, "
            "else off; FlexiLogger::log hands the record to the primary writer / the line filter only if that decision (on the target, or on the module "
            "path for a brace target listing _Default) holds and the text filter matches (unit-local effect permissions); FlexiLogger::enabled equals the "
            "specification for plain targets and is never false when an addressed writer accepts the level; WritersHandle::set_new_spec passes "
            "new_spec.max_level() to reconfigure. Kani proves the Level/LevelFilter comparison tables the Verus axioms rest on.",
            "level_sort (a permutation in descending byte length of the "
            "names, from which the longest-prefix lemma is proved) and max_level (maximum of the entries' filters) are proved through eager shims for "
            "sort_by / iter().map().max() specified by the closures' contracts (trusted: the shims, `a proper prefix is shorter in bytes`); regex semantics, core::fmt are oracles; enabled() for {..,_Default} with module filters cannot hold "
            "(Metadata carries no module path) and is not claimed."),
    "C05": ("Verus proves on the extracted bodies: push_temp_spec / pop_temp_spec / parse_and_push_temp_spec keep an exact stack of saved specifications "
            "and activate exactly the new / popped / parsed specification; a malformed string leaves stack and active specification unchanged (this "
            "obligation found defect F3, repaired by a fix: commit); parse_new_spec / LoggerHandle::set_new_spec / WritersHandle::set_new_spec hand exactly "
            "their argument down to LogSpecification::update_from, whose postcondition (filters and text filter replaced) is proved too; lemma_stack: a "
            "pop after a push restores stack and active specification.",
            "The step through the RwLock (lock content after the guard is dropped) is assumed (interior mutability); for the &mut self callers the callee "
            "shim of LoggerHandle::set_new_spec is declared &mut self so that the lock content is part of the handle's abstract state; the parser is an "
            "oracle (C17 not applicable); concurrent use is C12."),
    "C07": ("Selection rule, unbounded: Verus proves on the extracted remove_or_compress_too_old_logfiles_impl (default features) that for every "
            "listing length exactly the entries from position keep(cleanup, writes_direct) on are removed (loop invariant; the token fact removed(p) is "
            "established only by a successful remove_file(p), the permission remove_ok confines removals to those entries), that the loop stops at the "
            "first failing removal and returns its error, that the newest entry is spared under direct naming and that Cleanup::Never removes nothing. "
            "Verus also proves that mount_next / initialize_with_rotation hand the cleanup the filter and writes_direct of the active naming state and the "
            "composition of the listing; Kani proves NamingState::writes_direct (complete) and re-checks the selection rule on the compiled code for "
            "listings of 0..5 entries (bounded cross-check, not counted).",
            "Rule R12 (`.into_iter().enumerate()` -> eager shim) and the listing oracle are trusted. Feature `compress` (gzip, finish-before-remove) and the "
            "background cleanup thread are not verified; `listing is newest first` = descending path order (verified: sort_newest_first) + names whose order is their "
            "age (premise A5, finding F10)."),
    "C10": ("Every function under contract in every unit carries the obligations Verus generates by itself for arithmetic overflow, str/slice/Vec index "
            "preconditions, unwrap/expect, unreachable!, callee preconditions and loop termination, for unbounded inputs; one body obligation per function. "
            "This found the brace-target slicing panic F1 (repaired).",
            "Covered functions are listed in the evidence (added in the second session: the filter closures of filter_files, the loop body of get_highest_index, "
            "restart_number, LogSpecification::parse in pieces and Display, the error channel, check_timestamp_format, the symlink functions). NOT covered: "
            "ts_infix_from_path (bounded Kani catalogue only), read_dir iteration, format functions, syslog, specfile, kv, trc; hangs are decided only where a "
            "happened-before token expresses them (state lock after the format function, write lock of the error channel without a read guard); joins / channel "
            "receives are not decided. Arithmetic premises A5 are assumed."),
    "C13": ("Verus proves with unit-local effect permissions on the extracted FlexiLogger::log: an additional writer's write is reached only for a writer "
            "registered under a name listed in the brace target, only with this record, and the default channel only if the list contains _Default and the "
            "specification enables the module path; unknown names reach only the error channel (ErrorCode::WriterSpec). Kani proves the Duplicate u8 "
            "encoding round trip and the level comparison tables.",
            "`exactly once` / `the hand-over happens` have no observable count behind &self; FileLogWriter::write ceiling and MultiWriter duplication are "
            "decided in units flw / multi when registered; SyslogWriter (feature syslog_writer) is not verified (finding F8 from reading)."),
    "C14": ("The set of paths the writer touches is pinned by contract: Verus proves rename only between path_spec(rCURRENT) and path_spec(number infix), "
            "open only at path_spec(infix) resp. the stored path (reopen, plus its documented dummy sibling), and Kani (BOUNDED by listing length) that every "
            "remove_file argument is an element of the listing handed to the cleanup, in order.",
            "The membership rule of the listing is decided per entry (unit ffilter: both filter closures of filter_files, added late); read_dir_related_files (directory "
            "iteration, `starts_with` pre-selection, sort) and the iterator chain around the closures are not verified; std::path stem / extension are oracles."),
})

TEXT.update({
    "C16": ("Verus proves, unbounded in all strings, that FileSpec::fixed_name_part / as_pathbuf / append_underscore_if_not_empty build exactly "
            "dir/[basename][_discriminant][_starttime][_infix][.suffix] with absent parts and their separators omitted, that open_log_file opens exactly "
            "that path and State stores it, and that existing_log_files returns, in order, exactly the listings of the categories the selector asks for "
            "(plain, gz, rCURRENT, custom current) resp. the single recomputed path without rotation. The start-time clause is specified as the program "
            "start; the verifier shows get_timestamp uses the current clock instead (known finding F11).",
            "FileSpec::try_from, the symlink functions and the membership rule of the listing (filter closures of filter_files, name filter and order of "
            "read_dir_related_files) are under contract (see the added text); std::path operations (parent / file_stem / extension / push) and read_dir are oracles; "
            "the start-time part is known finding F11."),
})


TEXT_ADD = {
    "C01": " Also proved: the line assembly of the synchronous StateHandle::write (exactly format output + line ending reaches State::write_buffer, the thread-local buffer is empty on every exit path) and the decision of collision_free_infix_for_rotated_file (a rotated file gets the plain name iff neither it, nor its .gz form, nor any .restart-NNNN sibling exists; otherwise a discriminant above every well-formed sibling's).",
    "C02": " FlexiLogger::log is also proved in the `if` direction (token facts: every named registered writer and, when allowed, the default channel are written to); LogSpecBuilder builds exactly its entries (unit specbuilder). Logger::build (second half, copied into a wrapper) sets the facade gate from spec.max_level() of the initial specification; logger and handle share one specification lock.",
    "C04": " LoggerHandle::{flush, shutdown} reach the primary writer and every additional writer (token facts, loop invariants); Drop for LoggerHandle shuts the writers down iff the dropped clone is the last one (after the repair of F9); StdWriter::flush in all three modes. The split of a write mode by Logger::write_mode is proved end to end: WriteMode::{without_flushing, get_flush_interval, effective_write_mode, buffersize} against exact specification functions (unit wmode, with and without the async feature: same buffering and capacities, never a self-flushing mode, the interval goes to the flusher thread), Logger::write_mode stores exactly these two values, Logger::build starts the flusher iff the interval is non-zero.",
    "C06": " The body of the loop of get_highest_index is under contract (unit hindex: the number read from a listed name, running maximum; fold and family-member lemmas), Naming::writes_direct is verified against its specification (it was an assumed contract). latest_timestamp_file (which file an appending logger with direct timestamp naming continues) is proved against the listing oracle: configured suffix only, newest parseable time stamp, else now (eager iterator shims R16, proved fold lemma); names of rotated files are never reused (unit collide).",
    "C17": "",
    "C14": " Unit ffilter (added after defect F17): a directory entry counts as a file of the family iff its extension is the configured suffix and its stem is [fixed name part + '_'] + a non-empty rest whose part before the first '.' is an infix the active naming scheme accepts (InfixFilter::filter_infix, unit infix) - for every file name, with a UTF-8 model of byte offsets; two lemmas prove this equal to the pattern of the property statement. The configured symlink is made for exactly (log file, link) after whatever entry was at the link path has been removed (unit symlink). latest_timestamp_file considers files with the configured suffix only; the cleanup removes listed files only, for every listing length (unit cleanup).",
    "C13": " Logger's duplication / target setters change exactly their field; Logger::build constructs the primary writer from the configured duplication levels and writers.",
    "C19": " The `if` direction is decided with the token fact reported(code), which only eprint_err / eprint_msg establish: State::write_buffer (a rotation that could not be completed), both arms of the synchronous StateHandle::write and of write_buffered (failing format function, failing write), the async writer thread's dispatcher and FlexiLogger::log (unknown writer names, failing additional / primary writers) must report; unit errchan proves what eprint_err / eprint_msg / try_writing_to_error_channel / try_writing_to_file / set_error_channel do: a non-empty text reaches exactly the configured channel, the error file is opened create+append and stderr is the fallback when it fails, the installed channel is the given one (documented panic = precondition). Logger::build installs exactly the configured error channel; a new Logger's error channel is the variant the source marks #[default] (stderr).",
    "C10": " Start-up: the representation invariant of the Logger builder (the write mode kept for the writers never flushes on its own) is established by the constructor, kept by every setter that touches the file-writer builder and required by Logger::build; under it the `unreachable!` and `assert_eq!` of StdWriter::new are discharged (units wmode, lbuild, primary, stdw).",
    "C15": " The write mode reaches the writers unchanged in what it means for the bytes (WriteMode::without_flushing keeps buffering and capacities; StdWriter::new / FileLogWriterBuilder setters / Logger setters hand it on field by field).",
    "C20": " The configuration wiring is under contract: FileLogWriterBuilder::{new, every setter} (each changes exactly the field it names; LF is the default line ending, CRLF only after use_windows_line_ending), Logger::{from_spec_and_errs, every setter that touches the file-writer builder}, PrimaryWriter::{multi, stderr, stdout, test} and MultiWriter::new / StdWriter::new (each format function reaches the output it was configured for: parameter order of the constructors is read from the source on every run).",
}
for k, v in TEXT_ADD.items():
    if k in TEXT:
        TEXT[k] = (TEXT[k][0] + v, TEXT[k][1])

NOT_APPLICABLE = {
    "C03": "quantifier is thread schedules: Kani has no threads, Verus would need its own permission-typed locks instead of std::sync::Mutex/crossbeam/thread_local; mutual exclusion is a typing fact, not a contract",
    "C11": "quantifier is crash points between file-system effects: contracts describe completed calls, effect order is invisible to result oracles, no crash-aware program logic for Rust is installed",
    "C12": "quantifier is schedules of concurrent set_new_spec calls; the sequential contract of set_new_spec is proved under C05",
}

TEXT["C20"] = ("Framing only. Verus proves on the code copied from /repo that every path that assembles a line hands exactly `bytes appended by the "
               "configured format function` + `one configured line ending` to the output: both arms of the synchronous StateHandle::write closure (thread-local "
               "buffer / temporary buffer; the buffer is empty again on every exit path, so no bytes of one record leak into the next line), SyncHandle::new "
               "(the line ending used is the configured one), AsyncHandle::write (file, async), both arms of util::write_buffered (stdout / stderr / "
               "duplicates: LF, result handed back), StdWriter::write (all three write modes; configured format function) and its writer thread (message "
               "written as it is); DeferredNow::now reads the clock on the first call only and returns the stored value afterwards. One timestamp per record: "
               "FlexiLogger::log hands every output (each named additional writer, the line filter or the primary writer) a timestamp holder of one origin "
               "(postcondition with an existential origin; two DeferredNow::new() calls yield unrelated origins), and PrimaryWriter::write, MultiWriter::write "
               "(both duplicates, file writer, other writer), FileLogWriter::write, both arms of StateHandle::write and of write_buffered, AsyncHandle::write and "
               "StdWriter::write hand on only the holder they were given (permission now_ok) and keep its origin.",
               "NOT decided: fidelity of the provided format functions and JSON validity (core::fmt / serde_json code, an oracle `fmt_bytes` here); the scaffolding around the "
               "copied closure arms (buffer_with, RefCell::try_borrow_mut, thread_local) is not verified; format function and record are opaque values.")
TEXT["C20"] = (TEXT["C20"][0] + TEXT_ADD["C20"], TEXT["C20"][1])
TEXT["C17"] = ("Parsing half, and what Display renders. Verus proves on the text of LogSpecification::parse copied from /repo in four pieces (head, body of the loop over the comma-separated "
               "parts, error arm of the text-filter closure, tail) and on push_err / parse_err / parse_level_filter / contains_whitespace / new_with / off: the input is "
               "rejected as a whole (error, specification without any entry) iff it has more than two '/'-separated pieces; a part is skipped if empty, adds exactly its "
               "entry and no error text if it is well-formed by the documented grammar (`level` | `module` | `module=` | `module=level`, level words case-insensitive, "
               "no white space inside a module name, at most one '='), and adds error text and no entry otherwise; error text is never taken away; the result is Err iff "
               "error text was collected, and in both cases carries the collected entries as a sorted permutation. lemma_parts proves by induction what the fold of these "
               "steps over any list of parts yields: error iff some part is malformed, entries exactly those of the well-formed parts in order. Panic freedom of all these "
               "pieces is part of every obligation (C10). Display for LogSpecification (Formatter as a shim holding the text written so far) renders the default level, if the list ends with the default entry, and every named entry as `name = level`.",
               "NOT decided: the round trip Display / TOML -> parse (core::fmt, toml: no specifications), regex compilation (oracle), from_toml; `split`, `trim`, `to_lowercase`, "
               "`char::is_whitespace`, `format!` are oracles (a format! with a literal character yields non-empty text: checked by the extractor, rule R32); not verified: the `for` "
               "statement over the parts and the `filter.and_then(|filter| match Regex::new(filter) ..)` scaffolding between the copied pieces (Verus: no `continue` in for "
               "loops, no closures capturing `&mut`).")
PENDING = "not reached yet in the build (units for this property are not registered); see DESIGN.md section 5"


def main():
    bad = props.check_registration(VERIF)
    if bad:
        print("unit clauses tagged with a property whose check does not run the unit:", bad)
        sys.exit(1)
    props_all = [json.loads(l)["id"] for l in open(os.path.join(VERIF, "properties.jsonl"))]
    checks = []
    for p in props_all:
        if p not in props.CLAIMED and not (p == "C10" and props.C10_CLAIMED):
            continue
        text, note = TEXT.get(p, ("", ""))
        units = props.PROP_UNITS.get(p, []) if p != "C10" else props.C10_UNITS
        tech = "contract-based deductive verification: Verus (Z3) on functions extracted verbatim from /repo each run"
        if props.PROP_KANI.get(p):
            tech += " + Kani/CBMC function contracts and loop-free harnesses (bounded harnesses labelled bounded)"
        checks.append({
            "property_id": p,
            "quick_cmd": "bin/check %s --tier quick" % p,
            "thorough_cmd": "bin/check %s --tier thorough" % p,
            "evidence_file": "/verif/evidence/%s.json" % p,
            "replay_cmd_template": "bin/check %s --replay {path}" % p,
            "engine": "contracts",
            "level_claimed": {"category": "proof", "text": text, "design_ref": "DESIGN.md section 5, %s" % p},
            "level_note": note,
            "technique": tech,
        })
    na = []
    for p in props_all:
        if any(c["property_id"] == p for c in checks):
            continue
        na.append({"property_id": p, "reason": NOT_APPLICABLE.get(p, PENDING)})
    m = {
        "version": 1,
        "setup_cmd": "bin/setup",
        "hooks": {
            "guard": "kani",
            "enable": "no hook commits in /repo: Verus reads the working tree through the extractor; Kani contract attributes and harness modules are injected under #[cfg(kani)] into a scratch copy of the working tree on every run",
            "baseline_off_cmd": "cd /repo && cargo test --workspace --no-fail-fast --offline",
            "source_commits": [],
            "add_only": True,
        },
        "engines": [{"name": "contracts", "path": "/verif/bin/check", "serves_properties": [c["property_id"] for c in checks],
                     "kind_free_text": "extractor/weaver (lib/extract.py) + Verus units (units/*.rs, prelude/*.rs) + Kani harness modules (kani/*.rs)"}],
        "checks": checks,
        "not_applicable": na,
        "notes": "Exit 2 = undecided (anchor lost, unsupported construct, solver limit, vacuity guard), never an alarm. known_findings.txt lists genuine defects that are recorded rather than repaired.",
    }
    with open(os.path.join(VERIF, "MANIFEST.json"), "w") as f:
        json.dump(m, f, indent=1)
    print("MANIFEST.json: %d checks, %d not_applicable" % (len(checks), len(na)))


if __name__ == "__main__":
    main()

#!/usr/bin/env python3
"""Writes /verif/MANIFEST.json from lib/props.py + the texts below (kept in one place so it stays valid)."""
import json
import os
import sys

VERIF = os.path.dirname(os.path.dirname(os.path.abspath(__file__)))
sys.path.insert(0, os.path.join(VERIF, "lib"))
import props  # noqa: E402

TEXT = {
    "C01": ("Verus proves, on the byte-for-byte extracted bodies of State::write_buffer, mount_next_linewriter_if_necessary, initialize, "
            "initialize_with_rotation, open_log_file, numbers::index_for_rcurrent and the RollState functions, contracts that say for every buffer, "
            "configuration, naming state and file-system answer: rotation check first, then exactly one write_all of the whole buffer to the writer "
            "that is current afterwards, then size accounting; index incremented only after a successful rename; writer replaced only by a fresh one "
            "after open succeeded. Histories follow by induction over these postconditions (lemma in unit `state`).",
            "Line assembly in StateHandle::write (fn pointers, thread_local) and collision_free_infix/number_infix string code are outside the verifier "
            "(assumed oracles); single-threaded; file bytes == bytes accepted by write_all once flushed (A1); arithmetic premises A5."),
    "C04": ("Verus proves State::flush (written unchanged, Ok => everything flushed, flush actually called), State::shutdown (flush called exactly once, "
            "cleanup handle taken, nothing else changes) and RotationState::shutdown on the extracted bodies, for all states.",
            "Synchronous core only: the dispatch layers above (&self, dropped results), async mode, flusher threads and the clone/drop clause (finding F9, "
            "from reading) are not decided by this technique; BufWriter flush-on-drop is assumed (A1)."),
    "C06": ("Verus proves State::initialize_with_rotation / initialize / open_log_file / RollState::new / index_for_rcurrent against a start-up "
            "specification over directory oracles: start index highest+1 (or highest when appending with direct numbering), left-over current file "
            "rotated iff not appending and only tolerated missing (NotFound), open flags append == config.append, truncate == !append, size seeded "
            "from the file length iff appending.",
            "The directory scans themselves (get_highest_index, latest_timestamp_file, collision_free_infix_for_rotated_file) are assumed oracles; "
            "effect order inside one function is not expressible."),
    "C08": ("Verus proves size_rotation_necessary == (cur > max), rotation_necessary == size part or age part, reset_size_and_date, RollState::new seed, and "
            "through write_buffer / mount_next the exact accounting cur' == (if rotated {0} else {cur}) + len on success and unchanged on a failed write; "
            "Kani proves RollState::increase_size (or-pattern with ref mut is outside Verus) and gives counterexamples for the integer leaves.",
            "u64 arithmetic premise A5; one thread."),
    "C09": ("Verus proves age_rotation_necessary == not same_period(age, created_at, clock_now()) for all four ages, rotation_necessary for AgeOrSize, "
            "reset_size_and_date re-reading the creation time of the new file, the created/modified/now fallback chain of get_creation_timestamp, and "
            "mount_next passing the stored time stamp as the date of the rotated file.",
            "chrono accessors are uninterpreted field functions (A3); the clock is frozen during one call (A2); OS birth-time semantics."),
    "C15": ("The State contracts never mention the write mode, so the per-file byte sequences are a function of the operation sequence only; Verus proves "
            "open_log_file buffers exactly for the Buffer* modes (WriteMode::buffersize / effective_write_mode tables against the documented modes).",
            "plain_write and the async dispatch are decided in unit `handle` (see notes); A1."),
    "C18": ("Verus proves State::reopen_outputfile on the extracted body: it opens the stored path with create+append and never truncates, replaces the "
            "writer by a fresh one only on success, keeps path and rotation state; on failure the writer is the old one or the documented dummy sibling.",
            "StateHandle/LoggerHandle fan-out layers are &self dispatch (not decided); the external rename itself; A1 (old BufWriter flushes on drop)."),
    "C19": ("The error arms of the State contracts hold for every combination of file-system answers of one call: failed start-up leaves the state Initial "
            "(retried), failed rotation is reported with ErrorCode::LogFile only and the record still goes to the current writer, failed write_all keeps the "
            "size account and earlier bytes, index unchanged on a failed rename.",
            "That the report *is* emitted has no observable post-state (permission = argument flow only); error channel, background cleanup failures not decided."),
}

NOT_APPLICABLE = {
    "C03": "quantifier is thread schedules: Kani has no threads, Verus would need its own permission-typed locks instead of std::sync::Mutex/crossbeam/thread_local; mutual exclusion is a typing fact, not a contract",
    "C11": "quantifier is crash points between file-system effects: contracts describe completed calls, effect order is invisible to result oracles, no crash-aware program logic for Rust is installed",
    "C12": "quantifier is schedules of concurrent set_new_spec calls; the sequential contract of set_new_spec is proved under C05",
    "C17": "parse / Display / toml round trip is str::split/trim/to_lowercase + core::fmt + toml + regex: no Verus specs, CBMC explodes per byte; level_sort/enabled on which it rests are under C02",
}

PENDING = "not reached yet in the build (units for this property are not registered); see DESIGN.md section 5"


def main():
    props_all = [json.loads(l)["id"] for l in open(os.path.join(VERIF, "properties.jsonl"))]
    checks = []
    for p in props_all:
        if p not in props.CLAIMED and not (p == "C10" and props.C10_CLAIMED):
            continue
        text, note = TEXT.get(p, ("", ""))
        units = props.PROP_UNITS.get(p, []) if p != "C10" else props.C10_UNITS
        tech = "contract-based deductive verification: Verus (Z3) on functions extracted verbatim from /repo each run"
        if props.PROP_KANI.get(p):
            tech += " + Kani/CBMC function contracts and loop-free harnesses (bounded harnesses labelled bounded)"
        checks.append({
            "property_id": p,
            "quick_cmd": "bin/check %s --tier quick" % p,
            "thorough_cmd": "bin/check %s --tier thorough" % p,
            "evidence_file": "/verif/evidence/%s.json" % p,
            "replay_cmd_template": "bin/check %s --replay {path}" % p,
            "engine": "contracts",
            "level_claimed": {"category": "proof", "text": text, "design_ref": "DESIGN.md section 5, %s" % p},
            "level_note": note,
            "technique": tech,
        })
    na = []
    for p in props_all:
        if any(c["property_id"] == p for c in checks):
            continue
        na.append({"property_id": p, "reason": NOT_APPLICABLE.get(p, PENDING)})
    m = {
        "version": 1,
        "setup_cmd": "bin/setup",
        "hooks": {
            "guard": "kani",
            "enable": "no hook commits in /repo: Verus reads the working tree through the extractor; Kani contract attributes and harness modules are injected under #[cfg(kani)] into a scratch copy of the working tree on every run",
            "baseline_off_cmd": "cd /repo && cargo test --workspace --no-fail-fast --offline",
            "source_commits": [],
            "add_only": True,
        },
        "engines": [{"name": "contracts", "path": "/verif/bin/check", "serves_properties": [c["property_id"] for c in checks],
                     "kind_free_text": "extractor/weaver (lib/extract.py) + Verus units (units/*.rs, prelude/*.rs) + Kani harness modules (kani/*.rs)"}],
        "checks": checks,
        "not_applicable": na,
        "notes": "Exit 2 = undecided (anchor lost, unsupported construct, solver limit, vacuity guard), never an alarm. known_findings.txt lists genuine defects that are recorded rather than repaired.",
    }
    with open(os.path.join(VERIF, "MANIFEST.json"), "w") as f:
        json.dump(m, f, indent=1)
    print("MANIFEST.json: %d checks, %d not_applicable" % (len(checks), len(na)))


if __name__ == "__main__":
    main()

#![allow(unused_imports, dead_code, unused_variables, unused_mut, unreachable_code, unused_parens)]
// Unit `tsformat` (C10, C16): FileLogWriterBuilder::check_timestamp_format (src/writers/file_log_writer/builder.rs, the repair of F15) —
// a custom timestamp format that the run-time rendering cannot render is rejected at configuration time: the format is rendered once
// EXACTLY the way the rotation will render it (from a naive UTC time stamp with `use_utc`, from the local one otherwise), so that the
// first log call cannot panic in `infix_from_timestamp`. chrono's formatter is an oracle (`renders(format, utc)`).
use vstd::prelude::*;
verus! {
//@ include prelude/types.rs
#[verifier::external_type_specification]
#[verifier::external_body]
#[verifier::reject_recursive_types(Tz)]
pub struct ExDateTime<Tz: chrono::TimeZone>(chrono::DateTime<Tz>);
#[verifier::external_type_specification]
#[verifier::external_body]
pub struct ExLocal(chrono::Local);
pub assume_specification[ chrono::Local::now ]() -> (r: chrono::DateTime<chrono::Local>);
/// R43 SHIM for `std::io::Error::new(kind, text)` (its parameter type is a `dyn` with two auto traits)
#[verifier::external_body]
pub fn vio_error_new(kind: std::io::ErrorKind, e: &str) -> (r: std::io::Error) { std::io::Error::new(kind, e) }

/// oracle: can chrono render the format - from a naive UTC time stamp (utc) or from a local one (offset / zone specifiers need the latter)
pub uninterp spec fn renders(format: Seq<char>, utc: bool) -> bool;
/// R43 SHIMS: `now.naive_utc().format(format)` / `now.format(format)` / `chrono::Local::now().format(format)` -> an opaque delayed format
/// that remembers how it was made; `write!(infix, "{}", d)` -> `vwrite_display(&mut infix, &d)`: Ok iff it can be rendered
pub struct VDelayed { _o: () }
impl VDelayed { pub uninterp spec fn ok(&self) -> bool; }
#[verifier::external_body]
pub fn vfmt_naive(format: &str) -> (r: VDelayed) ensures r.ok() == renders(format@, true) { unimplemented!() }
#[verifier::external_body]
pub fn vfmt_local(format: &str) -> (r: VDelayed) ensures r.ok() == renders(format@, false) { unimplemented!() }
#[verifier::external_body]
pub fn vwrite_display(s: &mut String, d: &VDelayed) -> (r: std::fmt::Result) ensures (r is Ok) == d.ok() { unimplemented!() }

pub mod flexi_error {
    use super::*;
    /// SHIM (trusted): reduced FlexiLoggerError
    pub enum FlexiLoggerError { Reset, NoFileLogger, OutputBadDirectory, OutputIo(std::io::Error), Poison }
}
pub mod config {
    use super::*;
    /// SHIMS: only the naming of the rotation is read here
    pub enum Naming { Timestamps, TimestampsDirect, TimestampsCustomFormat { current_infix: Option<&'static str>, format: &'static str }, Numbers, NumbersDirect }
    pub struct RotationConfig { pub naming: Naming }
}
pub mod builder {
    use super::*;
    use super::config::{Naming, RotationConfig};
    use super::flexi_error::FlexiLoggerError;
    pub struct FileLogWriterBuilder { pub o_rotation_config: Option<RotationConfig>, pub use_utc: bool }
    impl FileLogWriterBuilder {
        /// the custom format, if one is configured
        pub open spec fn custom_format(&self) -> Option<Seq<char>> {
            match self.o_rotation_config { Some(RotationConfig { naming: Naming::TimestampsCustomFormat { current_infix, format } }) => Some(format@), _ => None }
        }
    //@ fn src/writers/file_log_writer/builder.rs impl FileLogWriterBuilder / fn check_timestamp_format
    //@   ret r
    //@   props C10,C16
    //@   rule R43 *
    //@   ens[check_timestamp_format.post] r is Err <==> (self.custom_format() is Some && !renders(self.custom_format()->Some_0, self.use_utc))
    //@   canary
    }
}
}
fn main() {}

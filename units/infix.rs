#![feature(pattern)]
#![allow(unused_imports, dead_code, unused_variables, unused_mut, unreachable_code, unused_parens)]
// Unit `infix` (C10, C14): InfixFilter::filter_infix (src/writers/file_log_writer/infix_filter.rs) — which infixes of
// directory entries count as the logger's own; panic freedom for every infix (byte length vs. character count).
use vstd::prelude::*;
verus! {
//@ include prelude/types.rs
//@ include prelude/strings.rs

#[verifier::external_type_specification]
#[verifier::external_body]
#[verifier::reject_recursive_types(Tz)]
pub struct ExDateTime<Tz: chrono::TimeZone>(chrono::DateTime<Tz>);
#[verifier::external_type_specification]
#[verifier::external_body]
pub struct ExLocal(chrono::Local);

/// UTF-8: the length of a string in bytes is the sum of the widths of its characters; a width is 1..=4, ASCII is 1
pub uninterp spec fn byte_len(s: Seq<char>) -> nat;
pub uninterp spec fn utf8_width(c: char) -> nat;
pub broadcast axiom fn ax_byte_len_empty(s: Seq<char>)
    requires s.len() == 0,
    ensures #[trigger] byte_len(s) == 0;
pub broadcast axiom fn ax_byte_len_step(s: Seq<char>)
    requires s.len() > 0,
    ensures #[trigger] byte_len(s) == utf8_width(s[0]) + byte_len(s.subrange(1, s.len() as int));
pub broadcast axiom fn ax_utf8_width(c: char)
    ensures 1 <= #[trigger] utf8_width(c) <= 4, (c as u32) < 128 ==> utf8_width(c) == 1;
/// R25 SHIM for `str::len()`
pub trait VLen { fn vlen(&self) -> usize; }
impl VLen for str {
    #[verifier::external_body]
    fn vlen(&self) -> (r: usize)
        ensures r == byte_len(self@)
    { self.len() }
}
/// `char::is_ascii_digit`
pub assume_specification[ char::is_ascii_digit ](c: &char) -> (r: bool)
    ensures r == ('0' <= *c && *c <= '9');
/// `str == String` compares the texts
pub assume_specification[ <str as PartialEq<String>>::eq ](a: &str, b: &String) -> (r: bool)
    ensures r == (a@ == b@);

/// R24 SHIM for `s.chars()`: a cursor over the characters of the string
pub struct VChars { pub rest: Vec<char> }
impl VChars {
    pub open spec fn seq(&self) -> Seq<char> { self.rest@ }
    #[verifier::external_body]
    pub fn next(&mut self) -> (r: Option<char>)
        ensures
            old(self).seq().len() == 0 ==> r is None && final(self).seq() == old(self).seq(),
            old(self).seq().len() > 0 ==> r == Some(old(self).seq()[0]) && final(self).seq() == old(self).seq().subrange(1, old(self).seq().len() as int),
    { if self.rest.is_empty() { None } else { Some(self.rest.remove(0)) } }
}
pub trait VCharsOf { fn vchars(&self) -> VChars; }
impl VCharsOf for str {
    #[verifier::external_body]
    fn vchars(&self) -> (r: VChars)
        ensures r.seq() == self@
    { VChars { rest: self.chars().collect() } }
}

pub mod state {
    use super::*;
    use chrono::{DateTime, Local};
    /// SHIM: InfixFormat is only handed on to the timestamp parser
    pub struct InfixFormat { _o: () }
    impl Clone for InfixFormat { #[verifier::external_body] fn clone(&self) -> (r: InfixFormat) ensures r == *self { unimplemented!() } }
    /// oracle: can the infix be parsed as a time stamp of this format (chrono; unit `latest` uses the same oracle)
    pub uninterp spec fn ts_parses(infix: Seq<char>, fmt: &InfixFormat) -> bool;
    #[verifier::external_body]
    pub(crate) fn timestamp_from_ts_infix(infix: &str, fmt: &InfixFormat) -> (r: Result<DateTime<Local>, String>)
        ensures (r is Ok) == ts_parses(infix@, fmt)
    { unimplemented!() }
}
pub mod infix_filter {
    use super::*;
    use super::state::{timestamp_from_ts_infix, InfixFormat, ts_parses};
    broadcast use ax_byte_len_empty, ax_byte_len_step, ax_utf8_width;

    //@ item src/writers/file_log_writer/infix_filter.rs enum InfixFilter
    //@   dropattr #[derive

    /// C14: which infix the active naming scheme accepts as one of its own
    pub(crate) open spec fn accepts(f: &InfixFilter, infix: Seq<char>) -> bool {
        match f {
            InfixFilter::Timstmps(fmt) => ts_parses(infix, fmt),
            InfixFilter::Numbrs => byte_len(infix) > 2 && infix.len() >= 2 && infix[0] == 'r' && '0' <= infix[1] && infix[1] <= '9',
            InfixFilter::Equls(s) => infix == s@,
            InfixFilter::None => false,
        }
    }
    impl InfixFilter {
    //@ fn src/writers/file_log_writer/infix_filter.rs impl InfixFilter / fn filter_infix
    //@   ret r
    //@   props C14,C07,C06
    //@   rule R24 *
    //@   rule R25 *
    //@   ens[filter_infix.post] r == accepts(self, infix@)
    //@   canary
    }
}
}
fn main() {}

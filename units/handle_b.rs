#![allow(unused_imports, dead_code, unused_variables, unused_mut, unreachable_code, unused_parens)]
// Unit `handle_b` (C05): LoggerHandle::set_new_spec(&self) hands exactly its argument to WritersHandle::set_new_spec
// (unit-local effect permission, DESIGN.md 3.4).
use vstd::prelude::*;
verus! {
//@ include units/handle_common.rs

pub mod logger_handle {
//@ include units/handle_types.rs

    impl WritersHandle {
        pub uninterp spec fn wset_ok(s: LogSpecification) -> bool;
        //@ sig src/logger_handle.rs impl WritersHandle / fn set_new_spec
        //@   ret r
        //@   props C05
        //@   req[WritersHandle::set_new_spec.perm] WritersHandle::wset_ok(new_spec)
        //@   ens r is Ok && self.active_after() == new_spec
        //@ sig src/logger_handle.rs impl WritersHandle / fn reconfigure
        //@   props C05
        //@   req[WritersHandle::reconfigure.noperm] false
    }
    impl LoggerHandle {
    //@ fn src/logger_handle.rs impl LoggerHandle / fn set_new_spec
    //@   props C05
    //@   req[LoggerHandle::set_new_spec.pre.perm] forall|s: LogSpecification| #[trigger] WritersHandle::wset_ok(s) <==> s == new_spec
    //@   ens[LoggerHandle::set_new_spec.post.written] self.active_after() == new_spec
    //@   count 1 .set_new_spec(
    //@   canary
    }
}
}
// plain-Rust glue outside verus! (never executed, not verified): the shim has the real type's Display so that code using it still parses
impl std::fmt::Display for log_specification::LogSpecification { fn fmt(&self, _f: &mut std::fmt::Formatter) -> std::fmt::Result { Ok(()) } }
fn main() {}

#![allow(unused_imports, dead_code, unused_variables, unused_mut, unreachable_code, unused_parens)]
// Unit `handle_c` (C05, C02): WritersHandle::set_new_spec — under the write lock `update_from` receives exactly the new
// specification, and `reconfigure` receives its maximum level, computed before the move.
use vstd::prelude::*;
verus! {
//@ include units/handle_common.rs
pub assume_specification<'a, 'b, T: ?Sized>[ <std::sync::RwLockWriteGuard<'a, T> as core::ops::DerefMut>::deref_mut ](g: &'b mut std::sync::RwLockWriteGuard<'a, T>) -> (r: &'b mut T)
    ensures same_val::<T>(&*final(r), wguard_final(old(g)));

pub uninterp spec fn log_max_after() -> log::LevelFilter;
pub mod logger_handle {
//@ include units/handle_types.rs
    broadcast use ax_same_val;

    impl LogSpecification {
        pub uninterp spec fn upd_ok(o: LogSpecification) -> bool;
        //@ sig src/log_specification.rs impl LogSpecification / fn update_from
        //@   props C05
        //@   req[update_from.perm] LogSpecification::upd_ok(other)
        //@   ens *final(self) == other
    }
    impl WritersHandle {
        pub uninterp spec fn rec_ok(l: log::LevelFilter) -> bool;
        /// prophecy-style oracle (A11): the log facade's max level after the call; `reconfigure(l)` sets it to
        /// max(l, the additional writers' ceilings) = reconf_spec(self, l) (decided in unit `handle_d`)
        pub uninterp spec fn reconf_spec(&self, l: log::LevelFilter) -> log::LevelFilter;
        //@ sig src/logger_handle.rs impl WritersHandle / fn reconfigure
        //@   props C05,C02
        //@   req[reconfigure.perm] WritersHandle::rec_ok(max_level)
        //@   ens log_max_after() == self.reconf_spec(max_level)
    //@ fn src/logger_handle.rs impl WritersHandle / fn set_new_spec
    //@   ret r
    //@   props C05,C02
    //@   rule R3 *
    //@   req[WritersHandle::set_new_spec.pre.upd] forall|o: LogSpecification| #[trigger] LogSpecification::upd_ok(o) <==> o == new_spec
    //@   req[WritersHandle::set_new_spec.pre.rec] forall|l: log::LevelFilter| #[trigger] WritersHandle::rec_ok(l) <==> l == new_spec.max_level_spec()
    //@   ens[WritersHandle::set_new_spec.post.ok] r is Ok
    //@   ens[WritersHandle::set_new_spec.post.written] r is Ok ==> self.active_after() == new_spec
    //@   ens[WritersHandle::set_new_spec.post.gate] r is Ok ==> log_max_after() == self.reconf_spec(new_spec.max_level_spec())
    //@   count 1 .write()
    //@   count 1 self.reconfigure(
    //@   canary
    }
}
}
// plain-Rust glue outside verus! (never executed, not verified): the shim has the real type's Display so that code using it still parses
impl std::fmt::Display for log_specification::LogSpecification { fn fmt(&self, _f: &mut std::fmt::Formatter) -> std::fmt::Result { Ok(()) } }
fn main() {}

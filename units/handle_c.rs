#![allow(unused_imports, dead_code, unused_variables, unused_mut, unreachable_code, unused_parens)]
// Unit `handle_c` (C05, C02): WritersHandle::set_new_spec — under the write lock `update_from` receives exactly the new
// specification, and `reconfigure` receives its maximum level, computed before the move.
use vstd::prelude::*;
verus! {
//@ include units/handle_common.rs
pub assume_specification<'a, 'b, T: ?Sized>[ <std::sync::RwLockWriteGuard<'a, T> as core::ops::DerefMut>::deref_mut ](g: &'b mut std::sync::RwLockWriteGuard<'a, T>) -> (r: &'b mut T);

pub mod logger_handle {
//@ include units/handle_types.rs

    impl LogSpecification {
        pub uninterp spec fn upd_ok(o: LogSpecification) -> bool;
        //@ sig src/log_specification.rs impl LogSpecification / fn update_from
        //@   props C05
        //@   req[update_from.perm] LogSpecification::upd_ok(other)
    }
    impl WritersHandle {
        pub uninterp spec fn rec_ok(l: log::LevelFilter) -> bool;
        //@ sig src/logger_handle.rs impl WritersHandle / fn reconfigure
        //@   props C05,C02
        //@   req[reconfigure.perm] WritersHandle::rec_ok(max_level)
    //@ fn src/logger_handle.rs impl WritersHandle / fn set_new_spec
    //@   ret r
    //@   props C05,C02
    //@   rule R3 1
    //@   req[WritersHandle::set_new_spec.pre.upd] forall|o: LogSpecification| #[trigger] LogSpecification::upd_ok(o) <==> o == new_spec
    //@   req[WritersHandle::set_new_spec.pre.rec] forall|l: log::LevelFilter| #[trigger] WritersHandle::rec_ok(l) <==> l == new_spec.max_level_spec()
    //@   ens[WritersHandle::set_new_spec.post.ok] r is Ok
    //@   canary
    }
}
}
fn main() {}

#![feature(pattern)]
#![allow(unused_imports, dead_code, unused_variables, unused_mut, unreachable_code, unused_parens)]
// Unit `naming` (C16, C10): FileSpec::{fixed_name_part, as_pathbuf}, append_underscore_if_not_empty,
// TimestampCfg::get_timestamp (src/parameters/file_spec.rs) against the documented pattern
//     [basename][_discriminant][_starttime][_infix][.suffix]
use vstd::prelude::*;
verus! {
//@ include prelude/types.rs
//@ include prelude/strings.rs

#[verifier::external_type_specification]
#[verifier::external_body]
#[verifier::reject_recursive_types(I)]
pub struct ExDelayedFormat<I>(chrono::format::DelayedFormat<I>);
#[verifier::external_type_specification]
#[verifier::external_body]
pub struct ExStrftimeItems<'a>(chrono::format::StrftimeItems<'a>);

pub uninterp spec fn pathbuf_view(p: &std::path::PathBuf) -> Seq<char>;
/// `dir.push(name)`: the path of `name` inside `dir` (separator handling is std's)
pub uninterp spec fn path_join(dir: Seq<char>, name: Seq<char>) -> Seq<char>;
pub assume_specification[ <std::path::PathBuf as Clone>::clone ](p: &std::path::PathBuf) -> (r: std::path::PathBuf)
    ensures pathbuf_view(&r) == pathbuf_view(p);
#[verifier::allow(undeclared_external_trait)]
pub assume_specification<P: AsRef<std::path::Path>>[ std::path::PathBuf::push ](p: &mut std::path::PathBuf, name: P)
    ensures pathbuf_view(final(p)) == path_join(pathbuf_view(old(p)), as_name::<P>(name));
pub uninterp spec fn as_name<P>(p: P) -> Seq<char>;
pub broadcast axiom fn ax_as_name_string(s: String)
    ensures #[trigger] as_name::<String>(s) == s@;
pub assume_specification[ String::reserve ](s: &mut String, additional: usize)
    ensures final(s)@ == old(s)@;

// ---- decomposition of a path (std::path): parent / file stem / extension as oracles over the path's text ------
#[verifier::external_type_specification]
#[verifier::external_body]
pub struct ExOsStr(std::ffi::OsStr);
pub uninterp spec fn path_text(p: &std::path::Path) -> Seq<char>;
pub assume_specification[ <std::path::PathBuf as core::ops::Deref>::deref ](p: &std::path::PathBuf) -> (r: &std::path::Path)
    ensures path_text(r) == pathbuf_view(p);
pub uninterp spec fn parent_of(t: Seq<char>) -> Option<Seq<char>>;
pub uninterp spec fn stem_of(t: Seq<char>) -> Option<Seq<char>>;
pub uninterp spec fn ext_of(t: Seq<char>) -> Option<Seq<char>>;
pub uninterp spec fn osstr_text(s: &std::ffi::OsStr) -> Seq<char>;
pub uninterp spec fn cow_text(c: std::borrow::Cow<'_, str>) -> Seq<char>;
pub uninterp spec fn fs_is_dir(t: Seq<char>) -> bool;
pub assume_specification[ std::path::Path::is_dir ](p: &std::path::Path) -> (r: bool)
    ensures r == fs_is_dir(path_text(p));
pub assume_specification[ std::path::Path::parent ](p: &std::path::Path) -> (r: Option<&std::path::Path>)
    ensures (r is Some) == (parent_of(path_text(p)) is Some), r is Some ==> path_text(r->Some_0) == parent_of(path_text(p))->Some_0;
pub assume_specification[ std::path::Path::to_path_buf ](p: &std::path::Path) -> (r: std::path::PathBuf)
    ensures pathbuf_view(&r) == path_text(p);
pub assume_specification[ std::path::Path::file_stem ](p: &std::path::Path) -> (r: Option<&std::ffi::OsStr>)
    ensures (r is Some) == (stem_of(path_text(p)) is Some), r is Some ==> osstr_text(r->Some_0) == stem_of(path_text(p))->Some_0;
pub assume_specification[ std::path::Path::extension ](p: &std::path::Path) -> (r: Option<&std::ffi::OsStr>)
    ensures (r is Some) == (ext_of(path_text(p)) is Some), r is Some ==> osstr_text(r->Some_0) == ext_of(path_text(p))->Some_0;
pub assume_specification[ std::ffi::OsStr::to_string_lossy ](s: &std::ffi::OsStr) -> (r: std::borrow::Cow<'_, str>)
    ensures cow_text(r) == osstr_text(s);
pub broadcast axiom fn ax_cow_to_string(c: &std::borrow::Cow<'_, str>, r: String)
    ensures #[trigger] vstd::string::to_string_from_display_ensures::<std::borrow::Cow<'_, str>>(c, r) ==> r@ == cow_text(*c);
/// the file name std::path takes apart into stem and extension
pub open spec fn name_of(stem: Seq<char>, ext: Option<Seq<char>>) -> Seq<char> { match ext { Some(e) => stem.push('.') + e, None => stem } }
/// TRUSTED (std::path): a path with a file name is its parent joined with stem[.extension]
pub broadcast axiom fn ax_path_decomposition(t: Seq<char>)
    requires (#[trigger] parent_of(t)) is Some, stem_of(t) is Some,
    ensures path_join(parent_of(t)->Some_0, name_of(stem_of(t)->Some_0, ext_of(t))) == t;

/// the program's start time (C16 "[_starttime]"), and the text a time stamp renders to under a strftime format
pub uninterp spec fn program_start() -> chrono::DateTime<chrono::Local>;
pub uninterp spec fn clock_now() -> chrono::DateTime<chrono::Local>;
pub uninterp spec fn ts_text(t: chrono::DateTime<chrono::Local>, fmt: Seq<char>) -> Seq<char>;
#[verifier::external_type_specification]
#[verifier::external_body]
#[verifier::reject_recursive_types(Tz)]
pub struct ExDateTime<Tz: chrono::TimeZone>(chrono::DateTime<Tz>);
#[verifier::external_type_specification]
#[verifier::external_body]
pub struct ExLocal(chrono::Local);

pub mod deferred_now {
    use super::*;
    use chrono::format::{DelayedFormat, StrftimeItems};
    //@ opaque src/deferred_now.rs struct DeferredNow
    //@   dropattr #[derive
    impl<'a> DeferredNow {
        /// the instant a DeferredNow will show: the stored one, else the clock at first use
        pub uninterp spec fn instant(&self) -> chrono::DateTime<chrono::Local>;
        //@ sig src/deferred_now.rs impl<'a> DeferredNow / fn new
        //@   ret r
        //@   ens r.instant() == clock_now()
        //@ sig src/deferred_now.rs impl<'a> DeferredNow / fn format
        //@   ret r
        //@   ens forall|s: String| #[trigger] vstd::string::to_string_from_display_ensures::<DelayedFormat<StrftimeItems<'b>>>(&r, s) ==> s@ == ts_text(old(self).instant(), fmt@)
    }
}

pub mod flexi_error {
    pub enum FlexiLoggerError { OutputBadFile, Other }
}
pub mod into_axioms {
    use super::*;
    use std::path::PathBuf;
    /// oracles: the text / path an `Into<String>` / `Into<PathBuf>` argument converts to
    pub uninterp spec fn into_string<S>(s: S) -> Seq<char>;
    pub uninterp spec fn into_path<P>(p: P) -> Seq<char>;
    pub broadcast axiom fn ax_into_string_str(s: &str)
        ensures #[trigger] into_string::<&str>(s) == s@;
    /// `Into::into` is a function of its argument (assumption on the caller's `Into` implementations)
    pub broadcast axiom fn ax_into_string<S: Into<String>>(s: S, r: String)
        ensures #[trigger] call_ensures(<S as Into<String>>::into, (s,), r) ==> r@ == into_string::<S>(s);
    pub broadcast axiom fn ax_into_path<P: Into<PathBuf>>(p: P, r: PathBuf)
        ensures #[trigger] call_ensures(<P as Into<PathBuf>>::into, (p,), r) ==> pathbuf_view(&r) == into_path::<P>(p);
}
pub mod file_spec {
    use super::*;
    use super::into_axioms::*;
    use super::flexi_error::FlexiLoggerError;
    use super::deferred_now::DeferredNow;
    use std::path::{Path, PathBuf};
    broadcast use group_pat_seq, ax_as_name_string, ax_into_string, ax_into_path, ax_into_string_str, ax_cow_to_string, ax_path_decomposition;

    //@ item src/parameters/file_spec.rs struct FileSpec
    //@   dropattr #[derive
    //@ item src/parameters/file_spec.rs enum TimestampCfg
    //@   dropattr #[derive
    //@ item src/parameters/file_spec.rs const TS_USCORE_DASHES_USCORE_DASHES
    //@   rule R6 1

    // ---- the documented name pattern (C16) -----------------------------------------------------------
    pub open spec fn with_uscore(s: Seq<char>) -> Seq<char> { if s.len() > 0 { s.push('_') } else { s } }
    pub open spec fn ostring(o: Option<String>) -> Option<Seq<char>> { match o { Some(s) => Some(s@), None => None } }
    pub open spec fn ostr(o: Option<&str>) -> Option<Seq<char>> { match o { Some(s) => Some(s@), None => None } }
    /// [basename][_discriminant][_starttime]
    pub open spec fn fixed_spec(basename: Seq<char>, disc: Option<Seq<char>>, start: Option<Seq<char>>) -> Seq<char> {
        let a = basename;
        let b = match disc { Some(d) => with_uscore(a) + d, None => a };
        match start { Some(t) => with_uscore(b) + t, None => b }
    }
    /// [fixed][_infix][.suffix]   (an empty infix and its separator are omitted)
    pub open spec fn name_spec(fixed: Seq<char>, o_infix: Option<Seq<char>>, suffix: Option<Seq<char>>) -> Seq<char> {
        let a = match o_infix { Some(i) => if i.len() > 0 { with_uscore(fixed) + i } else { fixed }, None => fixed };
        match suffix { Some(s) => a.push('.') + s, None => a }
    }

    impl TimestampCfg {
        /// C16: the start-time part is the PROGRAM START rendered as YYYY-MM-DD_hh-mm-ss, when used
        pub closed spec fn start_spec(&self) -> Option<Seq<char>> {
            match self { TimestampCfg::No => None, _ => Some(ts_text(program_start(), TS_USCORE_DASHES_USCORE_DASHES@)) }
        }
    //@ fn src/parameters/file_spec.rs impl TimestampCfg / fn get_timestamp
    //@   ret r
    //@   props C16
    //@   ens[get_timestamp.post.used] (self is No) == (r is None)
    //@   ens[get_timestamp.post.start_time] ostring(r) == self.start_spec()
    }

    impl FileSpec {
        pub closed spec fn v_basename(&self) -> Seq<char> { self.basename@ }
        pub closed spec fn v_has_disc(&self) -> bool { self.o_discriminant is Some }
        pub closed spec fn v_ts_yes(&self) -> bool { self.timestamp_cfg is Yes }
        pub closed spec fn decided(&self, o: &FileSpec, use_timestamp: bool) -> bool {
            self.timestamp_cfg == (if o.timestamp_cfg is Default { if use_timestamp { TimestampCfg::Yes } else { TimestampCfg::No } } else { o.timestamp_cfg })
            && self.basename == o.basename && self.o_discriminant == o.o_discriminant && self.o_suffix == o.o_suffix && self.directory == o.directory && self.use_utc == o.use_utc
        }
        pub closed spec fn fixed_part(&self) -> Seq<char> { fixed_spec(self.basename@, ostring(self.o_discriminant), self.timestamp_cfg.start_spec()) }
        /// the path of the documented name inside the configured directory
        pub closed spec fn path_spec(&self, o_infix: Option<Seq<char>>) -> Seq<char> {
            path_join(pathbuf_view(&self.directory), name_spec(self.fixed_part(), o_infix, ostring(self.o_suffix)))
        }
    //@ fn src/parameters/file_spec.rs impl FileSpec / fn fixed_name_part
    //@   ret r
    //@   props C16
    //@   ens[fixed_name_part.post] r@ == self.fixed_part()
    //@   canary
    //@ fn src/parameters/file_spec.rs impl FileSpec / fn as_pathbuf
    //@   ret r
    //@   props C16,C14
    //@   ens[as_pathbuf.post.name] pathbuf_view(&r) == self.path_spec(ostr(o_infix))
    //@   canary
    //@ fn src/parameters/file_spec.rs impl FileSpec / fn has_basename
    //@   ret r
    //@   props C16
    //@   ens[has_basename.post] r == (self.v_basename().len() > 0)
    //@ fn src/parameters/file_spec.rs impl FileSpec / fn has_discriminant
    //@   ret r
    //@   props C16
    //@   ens[has_discriminant.post] r == self.v_has_disc()
    //@ fn src/parameters/file_spec.rs impl FileSpec / fn uses_timestamp
    //@   ret r
    //@   props C16
    //@   ens[uses_timestamp.post] r == self.v_ts_yes()
        /// the configuration as a tuple of views (for the setters: each changes exactly the part it names)
        pub closed spec fn cfg(&self) -> (Seq<char>, Option<Seq<char>>, Option<Seq<char>>, Seq<char>, bool) {
            (self.basename@, ostring(self.o_discriminant), ostring(self.o_suffix), pathbuf_view(&self.directory), self.use_utc)
        }
        /// the time-stamp decision: None = not decided yet (TimestampCfg::Default)
        pub closed spec fn ts_decision(&self) -> Option<bool> { match self.timestamp_cfg { TimestampCfg::Default => None, TimestampCfg::Yes => Some(true), TimestampCfg::No => Some(false) } }
    //@ fn src/parameters/file_spec.rs impl FileSpec / fn try_from
    //@   ret r
    //@   props C16
    //@   closure ~s.to_string_lossy().to_string() ## sig |s: &std::ffi::OsStr| -> (r: String)
    //@   closure ~s.to_string_lossy().to_string() ## ens r@ == osstr_text(s)
    //@   req[try_from.pre.documented_panic] parent_of(into_path(p)) is Some && stem_of(into_path(p)) is Some
    //@   ens[try_from.post.dir] r is Err <==> fs_is_dir(into_path(p))
    //@   ens[try_from.post.denotes_the_path] r is Ok ==> r->Ok_0.path_spec(None) == into_path(p)
    //@ fn src/parameters/file_spec.rs impl FileSpec / fn basename
    //@   ret r
    //@   props C16
    //@   rule R10b 1
    //@   ens[FileSpec::basename.post] r.cfg() == (into_string(basename), self.cfg().1, self.cfg().2, self.cfg().3, self.cfg().4) && r.ts_decision() == self.ts_decision()
    //@ fn src/parameters/file_spec.rs impl FileSpec / fn suppress_basename
    //@   ret r
    //@   props C16
    //@   ens[FileSpec::suppress_basename.post] r.cfg().0 == ""@ && r.cfg().1 == self.cfg().1 && r.cfg().2 == self.cfg().2 && r.cfg().3 == self.cfg().3 && r.cfg().4 == self.cfg().4 && r.ts_decision() == self.ts_decision()
    //@ fn src/parameters/file_spec.rs impl FileSpec / fn directory
    //@   ret r
    //@   props C16
    //@   rule R10b 1
    //@   ens[FileSpec::directory.post] r.cfg() == (self.cfg().0, self.cfg().1, self.cfg().2, into_path(directory), self.cfg().4) && r.ts_decision() == self.ts_decision()
    //@ fn src/parameters/file_spec.rs impl FileSpec / fn o_discriminant
    //@   ret r
    //@   props C16
    //@   rule R10b 1
    //@   rule R19 1
    //@   ens[FileSpec::o_discriminant.post] r.cfg() == (self.cfg().0, (match o_discriminant { Some(d) => Some(into_string(d)), None => None }), self.cfg().2, self.cfg().3, self.cfg().4) && r.ts_decision() == self.ts_decision()
    //@ fn src/parameters/file_spec.rs impl FileSpec / fn discriminant
    //@   ret r
    //@   props C16
    //@   ens[FileSpec::discriminant.post] r.cfg() == (self.cfg().0, Some(into_string(discriminant)), self.cfg().2, self.cfg().3, self.cfg().4) && r.ts_decision() == self.ts_decision()
    //@ fn src/parameters/file_spec.rs impl FileSpec / fn o_suffix
    //@   ret r
    //@   props C16
    //@   rule R10b 1
    //@   rule R19 1
    //@   ens[FileSpec::o_suffix.post] r.cfg() == (self.cfg().0, self.cfg().1, (match o_suffix { Some(d) => Some(into_string(d)), None => None }), self.cfg().3, self.cfg().4) && r.ts_decision() == self.ts_decision()
    //@ fn src/parameters/file_spec.rs impl FileSpec / fn suffix
    //@   ret r
    //@   props C16
    //@   ens[FileSpec::suffix.post] r.cfg() == (self.cfg().0, self.cfg().1, Some(into_string(suffix)), self.cfg().3, self.cfg().4) && r.ts_decision() == self.ts_decision()
    //@ fn src/parameters/file_spec.rs impl FileSpec / fn use_timestamp
    //@   ret r
    //@   props C16
    //@   rule R10b 1
    //@   ens[FileSpec::use_timestamp.post] r.cfg() == self.cfg() && r.ts_decision() == Some(use_timestamp)
    //@ fn src/parameters/file_spec.rs impl FileSpec / fn suppress_timestamp
    //@   ret r
    //@   props C16
    //@   ens[FileSpec::suppress_timestamp.post] r.cfg() == self.cfg() && r.ts_decision() == Some(false)
    //@ fn src/parameters/file_spec.rs impl FileSpec / fn get_suffix
    //@   ret r
    //@   props C16,C14
    //@   ens[FileSpec::get_suffix.post] ostring(r) == self.cfg().2
    //@ fn src/parameters/file_spec.rs impl FileSpec / fn get_directory
    //@   ret r
    //@   props C16
    //@   ens[FileSpec::get_directory.post] pathbuf_view(&r) == self.cfg().3
    //@ fn src/parameters/file_spec.rs impl FileSpec / fn used_directory
    //@   ret r
    //@   props C16
    //@   ens[FileSpec::used_directory.post] pathbuf_view(&r) == self.cfg().3
    //@ fn src/parameters/file_spec.rs impl FileSpec / fn if_default_use_timestamp
    //@   props C16
    //@   ens[if_default_use_timestamp.post] final(self).decided(old(self), use_timestamp)
    }
    //@ fn src/parameters/file_spec.rs fn append_underscore_if_not_empty
    //@   props C16
    //@   ens[append_underscore.post] final(filename)@ == with_uscore(old(filename)@)
}
}
fn main() {}

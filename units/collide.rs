#![feature(pattern)]
#![allow(unused_imports, dead_code, unused_variables, unused_mut, unreachable_code, unused_parens)]
// Unit `collide` (C07, C01, C06): the decision part of FileSpec::collision_free_infix_for_rotated_file
// (src/parameters/file_spec.rs): the final `if .. else ..` — "a rotated file never gets a name that is in use, and never a
// discriminant that is not above all existing ones". The statements before it (two directory listings joined and
// filtered by iterator adapters into `restart_siblings`, the two candidate paths) are outside Verus; their results are the
// parameters of the wrapper `choose_infix`.
use vstd::prelude::*;
verus! {
//@ include prelude/types.rs
//@ include prelude/combinators.rs

#[verifier::external_type_specification]
#[verifier::external_body]
pub struct ExOsStr(std::ffi::OsStr);
/// oracle: does the path exist (file system)
pub uninterp spec fn fs_exists(p: &std::path::Path) -> bool;
pub assume_specification[ std::path::Path::exists ](p: &std::path::Path) -> (r: bool)
    ensures r == fs_exists(p);
pub uninterp spec fn pathbuf_path(p: &std::path::PathBuf) -> &std::path::Path;
pub assume_specification[ <std::path::PathBuf as core::ops::Deref>::deref ](p: &std::path::PathBuf) -> (r: &std::path::Path)
    ensures r == pathbuf_path(p);
/// oracles for the text of a path / its file stem
pub uninterp spec fn stem_text(p: &std::path::Path) -> Option<Seq<char>>;
pub uninterp spec fn path_text(p: &std::path::Path) -> Seq<char>;
pub uninterp spec fn osstr_text(s: &std::ffi::OsStr) -> Seq<char>;
pub assume_specification[ std::path::Path::file_stem ](p: &std::path::Path) -> (r: Option<&std::ffi::OsStr>)
    ensures (r is Some) == (stem_text(p) is Some), r is Some ==> osstr_text(r->Some_0) == stem_text(p)->Some_0;
pub assume_specification[ std::ffi::OsStr::to_string_lossy ](s: &std::ffi::OsStr) -> (r: std::borrow::Cow<'_, str>)
    ensures cow_text(r) == osstr_text(s);
pub assume_specification[ std::path::Path::to_string_lossy ](p: &std::path::Path) -> (r: std::borrow::Cow<'_, str>)
    ensures cow_text(r) == path_text(p);
pub uninterp spec fn cow_text(c: std::borrow::Cow<'_, str>) -> Seq<char>;
pub broadcast axiom fn ax_cow_to_string(c: &std::borrow::Cow<'_, str>, r: String)
    ensures #[trigger] vstd::string::to_string_from_display_ensures::<std::borrow::Cow<'_, str>>(c, r) ==> r@ == cow_text(*c);
pub broadcast axiom fn ax_str_to_string(s: &str, r: String)
    ensures #[trigger] vstd::string::to_string_from_display_ensures::<str>(s, r) ==> r@ == s@;
/// R15 SHIM for `String + &str` (`a.add(b)`)
pub trait VAdd { fn vadd(self, b: &str) -> String; }
impl VAdd for String {
    #[verifier::external_body]
    fn vadd(self, b: &str) -> (r: String)
        ensures r@ == self@ + b@
    { self + b }
}

pub open spec fn produced_below<T, F: Fn(&T) -> Option<usize>>(f: F, x: T, r: Option<usize>) -> bool {
    exists|y: Option<usize>| #[trigger] f.ensures((&x,), y) && (y is Some ==> r is Some && y->Some_0 <= r->Some_0)
}
/// R13 SHIM for `v.iter().filter_map(f).max()`: the greatest of the values `f` yields, if any
pub trait VMaxFilterMap<T>: vstd::view::View<V = Seq<T>> {
    fn vmax_filter_map<F: Fn(&T) -> Option<usize>>(&self, f: F) -> (r: Option<usize>)
        requires forall|i: int| 0 <= i < self@.len() ==> #[trigger] f.requires((&self@[i],)),
        ensures
            // every element was given to f, and no value f produced is above the result
            forall|i: int| 0 <= i < self@.len() ==> produced_below(f, #[trigger] self@[i], r),
            // the result is one of the values f produced
            r is Some ==> exists|i: int| 0 <= i < self@.len() && #[trigger] f.ensures((&self@[i],), r);
    /// the same for `.count()`: how many elements `f` yields a value for (at most all of them; 0 if `f` yields none)
    fn vcount_filter_map<F: Fn(&T) -> Option<usize>>(&self, f: F) -> (r: usize)
        requires forall|i: int| 0 <= i < self@.len() ==> #[trigger] f.requires((&self@[i],)),
        ensures
            r <= self@.len(),
            (forall|i: int| 0 <= i < self@.len() ==> #[trigger] f.ensures((&self@[i],), None)) ==> r == 0,
            (forall|i: int| 0 <= i < self@.len() ==> !(#[trigger] f.ensures((&self@[i],), None))) ==> r == self@.len();
}
impl<T> VMaxFilterMap<T> for Vec<T> {
    #[verifier::external_body]
    fn vcount_filter_map<F: Fn(&T) -> Option<usize>>(&self, f: F) -> (r: usize)
    { self.iter().filter_map(f).count() }
    #[verifier::external_body]
    fn vmax_filter_map<F: Fn(&T) -> Option<usize>>(&self, f: F) -> (r: Option<usize>)
    { self.iter().filter_map(f).max() }
}

pub mod file_spec {
    use super::*;
    use std::path::{Path, PathBuf};
    use std::ops::Add;
    broadcast use ax_cow_to_string, ax_str_to_string;

    /// SHIM: only the suffix option is read here
    pub struct FileSpec { pub o_suffix: Option<String> }

    /// oracle: the number a sibling's name carries after ".restart-" (None: malformed, ignored); unit-external string code
    pub uninterp spec fn number_in(name: Seq<char>) -> Option<usize>;
    //@ sig src/parameters/file_spec.rs fn restart_number
    //@   ret r
    //@   ens r == number_in(name@)
    //@   ens r is Some ==> r->Some_0 <= 9999
    /// oracle: the text `format!(".restart-{n:04}")` produces
    pub uninterp spec fn restart_suffix(n: usize) -> Seq<char>;
    /// the text starts with ".restart-": it is never empty
    pub broadcast axiom fn ax_restart_suffix_nonempty(n: usize)
        ensures (#[trigger] restart_suffix(n)).len() > 0;
    /// R14 SHIM
    #[verifier::external_body]
    fn vfmt_restart(next_number: usize) -> (r: String)
        ensures r@ == restart_suffix(next_number)
    { format!(".restart-{next_number:04}") }

    /// the name in which the logger looks for the discriminant of a sibling
    pub open spec fn sibling_name(fs: &FileSpec, p: &PathBuf) -> Option<Seq<char>> {
        if fs.o_suffix is Some { stem_text(pathbuf_path(p)) } else { Some(path_text(pathbuf_path(p))) }
    }
    pub open spec fn sibling_number(fs: &FileSpec, p: &PathBuf) -> Option<usize> {
        match sibling_name(fs, p) { Some(n) => number_in(n), None => None }
    }

    /// the condition under which the plain name must not be used
    pub open spec fn collision(new_path: &PathBuf, new_path_with_gz: &PathBuf, siblings: Seq<PathBuf>) -> bool {
        fs_exists(pathbuf_path(new_path)) || fs_exists(pathbuf_path(new_path_with_gz)) || siblings.len() > 0
    }
    /// n is above the number of every well-formed sibling, and is the successor of one of them unless it is 0
    pub open spec fn next_above(fs: &FileSpec, siblings: Seq<PathBuf>, n: usize) -> bool {
        (forall|i: int| 0 <= i < siblings.len() && (#[trigger] sibling_number(fs, &siblings[i])) is Some ==> sibling_number(fs, &siblings[i])->Some_0 < n)
        && (n > 0 ==> exists|i: int| 0 <= i < siblings.len() && #[trigger] sibling_number(fs, &siblings[i]) == Some((n - 1) as usize))
    }
    impl FileSpec {
        /// the final `if .. else ..` of collision_free_infix_for_rotated_file
        fn choose_infix(&self, infix: &str, new_path: PathBuf, new_path_with_gz: PathBuf, restart_siblings: Vec<PathBuf>) -> (r: String)
            ensures
                // C07/C01/C06: the plain name is used only if neither it, nor its compressed form, nor any restart sibling exists
                !collision(&new_path, &new_path_with_gz, restart_siblings@) <==> r@ == infix@, //@label choose_infix.post.plain_iff_free C07,C01,C06
                // otherwise a discriminant is appended that is above the number of every well-formed sibling
                collision(&new_path, &new_path_with_gz, restart_siblings@) ==> exists|n: usize| r@ == infix@ + #[trigger] restart_suffix(n) && next_above(self, restart_siblings@, n), //@label choose_infix.post.discriminant_if_collision C07,C01,C06
        {
            broadcast use ax_restart_suffix_nonempty;
    //@ span src/parameters/file_spec.rs impl FileSpec / fn collision_free_infix_for_rotated_file
    //@   tail
    //@   rename choose_infix
    //@   rule R13 *
    //@   rule R14 1
    //@   rule R15 1
    //@   rule R3 *
    //@   closure ~restart_number(&file_stem_string) ## sig |path: &PathBuf| -> (r: Option<usize>)
    //@   closure ~restart_number(&file_stem_string) ## ens r == sibling_number(self, path)
    //@   closure ~restart_number(&file_stem_string) ## ens r is Some ==> r->Some_0 <= 9999
    //@   closure ~n + 1 ## sig |n: usize| -> (r: usize)
    //@   closure ~n + 1 ## req n <= 9999
    //@   closure ~n + 1 ## ens r == n + 1
        }
    }
}
}
fn main() {}

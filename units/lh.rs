#![feature(allocator_api)]
#![allow(unused_imports, dead_code, unused_variables, unused_mut, unreachable_code, unused_parens)]
// Unit `lh` (C18, C04, C13, C16): LoggerHandle — the fan-out methods reset_flw, reopen_output, trigger_rotation, flush,
// shutdown, existing_log_files, adapt_duplication_to_* (src/logger_handle.rs). Result-flow clauses: the primary
// (multi) writer's result is the result unless it is Ok and an additional writer fails.
use vstd::prelude::*;
verus! {
//@ include prelude/types.rs
//@ include prelude/sync.rs
//@ include prelude/hashmap.rs
#[verifier::external_type_specification]
pub struct ExLevelFilter(log::LevelFilter);

pub mod flexi_error {
    use super::*;
    /// SHIM (trusted): reduced FlexiLoggerError
    pub enum FlexiLoggerError { Reset, NoFileLogger, Poison, Other }
}
pub mod log_specification {
    use super::*;
    //@ opaque src/log_specification.rs struct LogSpecification
    //@   dropattr #[derive
}
/// `Arc::into_inner`: Some exactly for the last owner; `mem::take` hands out the current value
pub assume_specification<T, A: core::alloc::Allocator>[ std::sync::Arc::<T, A>::into_inner ](a: std::sync::Arc<T, A>) -> (r: Option<T>)
    ensures (r is Some) == arc_last_owner(a);
pub uninterp spec fn arc_last_owner<T, A: core::alloc::Allocator>(a: std::sync::Arc<T, A>) -> bool;
pub broadcast axiom fn ax_arc_last_owner_unit(a: std::sync::Arc<()>)
    ensures #[trigger] arc_last_owner::<(), std::alloc::Global>(a) == shims::last_owner(a);
pub assume_specification<T: Default>[ core::mem::take ](dest: &mut T) -> (r: T)
    ensures r == *old(dest);
/// `<[T]>::sort()`: a permutation (same length, same members with the same multiplicity); the order is std's
#[verifier::allow(undeclared_external_trait)]
pub assume_specification<T: Ord>[ <[T]>::sort ](v: &mut [T])
    ensures final(v)@.len() == old(v)@.len(), final(v)@.to_multiset() == old(v)@.to_multiset();
pub mod shims {
    use super::*;
    use super::flexi_error::FlexiLoggerError;
    use std::path::PathBuf;
    pub struct FileLogWriterBuilder { _o: () }
    pub struct FileLogWriterConfig { _o: () }
    //@ item src/logger.rs enum Duplicate
    pub struct LogfileSelector { _o: () }
    /// result oracles of the primary multi writer and of the additional writers (by identity)
    pub uninterp spec fn mw_reset_result(b: &FileLogWriterBuilder) -> Result<(), FlexiLoggerError>;
    pub uninterp spec fn mw_reopen_result() -> Result<(), FlexiLoggerError>;
    pub uninterp spec fn mw_rotate_result() -> Result<(), FlexiLoggerError>;
    pub uninterp spec fn mw_config_result() -> Result<FileLogWriterConfig, FlexiLoggerError>;
    pub uninterp spec fn ow_reopen_result(wid: int) -> Result<(), FlexiLoggerError>;
    pub uninterp spec fn ow_rotate_result(wid: int) -> Result<(), FlexiLoggerError>;
    /// permission: which duplication level may be stored for stderr / stdout
    pub uninterp spec fn dup_err_ok(d: Duplicate) -> bool;
    pub uninterp spec fn dup_out_ok(d: Duplicate) -> bool;
    pub uninterp spec fn pw_elf_result(sel: &LogfileSelector) -> Result<Vec<PathBuf>, FlexiLoggerError>;
    pub struct MultiWriter { _o: () }
    impl MultiWriter {
        #[verifier::external_body]
        pub(crate) fn reset_file_log_writer(&self, flwb: &FileLogWriterBuilder) -> (r: Result<(), FlexiLoggerError>) ensures r == mw_reset_result(flwb) { unimplemented!() }
        #[verifier::external_body]
        pub(crate) fn flw_config(&self) -> (r: Result<FileLogWriterConfig, FlexiLoggerError>) ensures r == mw_config_result() { unimplemented!() }
        #[verifier::external_body]
        pub(crate) fn reopen_output(&self) -> (r: Result<(), FlexiLoggerError>) ensures r == mw_reopen_result() { unimplemented!() }
        #[verifier::external_body]
        pub(crate) fn trigger_rotation(&self) -> (r: Result<(), FlexiLoggerError>) ensures r == mw_rotate_result() { unimplemented!() }
        #[verifier::external_body]
        pub(crate) fn adapt_duplication_to_stderr(&self, dup: Duplicate)
            requires
                dup_err_ok(dup), //@label MultiWriter::adapt_duplication_to_stderr.perm C13
        { unimplemented!() }
        #[verifier::external_body]
        pub(crate) fn adapt_duplication_to_stdout(&self, dup: Duplicate)
            requires
                dup_out_ok(dup), //@label MultiWriter::adapt_duplication_to_stdout.perm C13
        { unimplemented!() }
    }
    pub struct StdWriter { _o: () }
    pub struct TestWriter { _o: () }
    //@ item src/primary_writer.rs enum PrimaryWriter
    /// token facts (C04): only a call of the primary writer's / an additional writer's flush / shutdown establishes them
    pub uninterp spec fn pw_flushed() -> bool;
    pub uninterp spec fn pw_shut() -> bool;
    pub uninterp spec fn ow_flushed(wid: int) -> bool;
    pub uninterp spec fn ow_shut(wid: int) -> bool;
    /// permission: the writers may be shut down (explicit shutdown: always; drop: only by the last clone, F9)
    pub uninterp spec fn shutdown_ok() -> bool;
    /// oracle: is this the last owner of the token all clones of a handle share (`Arc::into_inner` answers Some)
    pub uninterp spec fn last_owner(a: std::sync::Arc<()>) -> bool;
    impl PrimaryWriter {
        #[verifier::external_body]
        pub fn flush(&self) -> std::io::Result<()> ensures pw_flushed() { unimplemented!() }
        #[verifier::external_body]
        pub fn shutdown(&self)
            requires
                shutdown_ok(), //@label PrimaryWriter::shutdown.perm C04
            ensures pw_shut(),
        { unimplemented!() }
        #[verifier::external_body]
        pub fn existing_log_files(&self, selector: &LogfileSelector) -> (r: Result<Vec<PathBuf>, FlexiLoggerError>) ensures r == pw_elf_result(selector) { unimplemented!() }
    }
    /// SHIM for `trait LogWriter`
    pub trait LogWriter: Send + Sync {
        spec fn wid(&self) -> int;
        fn flush(&self) -> std::io::Result<()> ensures ow_flushed(self.wid());
        fn shutdown(&self)
            requires
                shutdown_ok(), //@label LogWriter::shutdown.perm C04
            ensures ow_shut(self.wid());
        fn reopen_output(&self) -> (r: Result<(), FlexiLoggerError>) ensures r == ow_reopen_result(self.wid());
        fn rotate(&self) -> (r: Result<(), FlexiLoggerError>) ensures r == ow_rotate_result(self.wid());
    }
}
pub mod logger_handle {
    use super::*;
    use super::{flexi_error::FlexiLoggerError, log_specification::*, shims::*};
    use super::strmap_axioms::*;
    use std::{collections::HashMap, path::PathBuf, sync::{Arc, RwLock, Mutex}, sync::atomic::{AtomicBool, AtomicU8, AtomicUsize, Ordering}};
    broadcast use vstd::std_specs::hash::group_hash_axioms, group_strmap, ax_arc_last_owner_unit;

    //@ item src/logger_handle.rs struct LoggerHandle
    //@   dropattr #[derive
    //@ item src/logger_handle.rs struct WritersHandle
    //@   dropattr #[derive

    impl LoggerHandle {
        pub closed spec fn token(&self) -> Arc<()> { self.alive }
    // R9: `impl Drop for LoggerHandle { fn drop }` emitted as an inherent method
    //@ fn src/logger_handle.rs impl Drop for LoggerHandle / fn drop
    //@   props C04
    //@   req[LoggerHandle::drop.pre.perm] shutdown_ok() <==> last_owner(old(self).token())
    //@   ens[LoggerHandle::drop.post.last_clone_shuts_down] last_owner(old(self).token()) ==> pw_shut() && forall|w: Box<dyn LogWriter>| #[trigger] old(self).writers().values().contains(w) ==> ow_shut(w.wid())
        pub closed spec fn is_multi(&self) -> bool { *self.writers_handle.primary_writer is Multi }
        pub closed spec fn writers(&self) -> Map<String, Box<dyn LogWriter>> { (*self.writers_handle.other_writers)@ }
    //@ fn src/logger_handle.rs impl LoggerHandle / fn existing_log_files
    //@   ret r
    //@   props C16
    //@   ens[LoggerHandle::existing_log_files.post] (r is Ok) == (pw_elf_result(selector) is Ok) && (r is Ok ==> r->Ok_0@.to_multiset() == pw_elf_result(selector)->Ok_0@.to_multiset())
    //@ fn src/logger_handle.rs impl LoggerHandle / fn reset_flw
    //@   ret r
    //@   props C18
    //@   ens[reset_flw.post] if self.is_multi() { r == mw_reset_result(flwb) } else { r is Err && r->Err_0 is NoFileLogger }
    //@ fn src/logger_handle.rs impl LoggerHandle / fn flw_config
    //@   ret r
    //@   props C18
    //@   ens[flw_config.post] if self.is_multi() { r == mw_config_result() } else { r is Err && r->Err_0 is NoFileLogger }
    //@ fn src/logger_handle.rs impl LoggerHandle / fn reopen_output
    //@   ret r
    //@   props C18
    //@   attr #[verifier::loop_isolation(false)]
    //@   loop 1 iter it
    //@   loop 1 inv[reopen_output.loop.first_error] self.is_multi() && mw_reopen_result() is Err ==> result == mw_reopen_result()
    //@   loop 1 inv[reopen_output.loop.ok] result is Ok ==> (self.is_multi() ==> mw_reopen_result() is Ok) && forall|i: int| 0 <= i < it.index@ ==> ow_reopen_result((#[trigger] it.seq()[i]).wid()) is Ok
    //@   loop 1 inv[reopen_output.loop.all] forall|w: Box<dyn LogWriter>| self.writers().values().contains(w) ==> #[trigger] it.seq().contains(&w)
    //@   ens[reopen_output.post.primary_error_wins] self.is_multi() && mw_reopen_result() is Err ==> r == mw_reopen_result()
    //@   ens[reopen_output.post.ok_means_all_ok] r is Ok ==> (self.is_multi() ==> mw_reopen_result() is Ok)
    //@       && forall|w: Box<dyn LogWriter>| #[trigger] self.writers().values().contains(w) ==> ow_reopen_result(w.wid()) is Ok
    //@   canary
    //@ fn src/logger_handle.rs impl LoggerHandle / fn trigger_rotation
    //@   ret r
    //@   props C18,C01
    //@   attr #[verifier::loop_isolation(false)]
    //@   loop 1 iter it
    //@   loop 1 inv[trigger_rotation.loop.first_error] self.is_multi() && mw_rotate_result() is Err ==> result == mw_rotate_result()
    //@   loop 1 inv[trigger_rotation.loop.ok] result is Ok ==> (self.is_multi() ==> mw_rotate_result() is Ok) && forall|i: int| 0 <= i < it.index@ ==> ow_rotate_result((#[trigger] it.seq()[i]).wid()) is Ok
    //@   loop 1 inv[trigger_rotation.loop.all] forall|w: Box<dyn LogWriter>| self.writers().values().contains(w) ==> #[trigger] it.seq().contains(&w)
    //@   ens[trigger_rotation.post.primary_error_wins] self.is_multi() && mw_rotate_result() is Err ==> r == mw_rotate_result()
    //@   ens[trigger_rotation.post.ok_means_all_ok] r is Ok ==> (self.is_multi() ==> mw_rotate_result() is Ok)
    //@       && forall|w: Box<dyn LogWriter>| #[trigger] self.writers().values().contains(w) ==> ow_rotate_result(w.wid()) is Ok
    //@ fn src/logger_handle.rs impl LoggerHandle / fn flush
    //@   props C04,C15
    //@   loop 1 iter it
    //@   loop 1 inv[LoggerHandle::flush.loop.all] forall|w: Box<dyn LogWriter>| self.writers().values().contains(w) ==> #[trigger] it.seq().contains(&w)
    //@   loop 1 inv[LoggerHandle::flush.loop.done] pw_flushed() && forall|j: int| 0 <= j < it.index@ ==> ow_flushed((#[trigger] it.seq()[j]).wid())
    //@   ens[LoggerHandle::flush.post.all] pw_flushed() && forall|w: Box<dyn LogWriter>| #[trigger] self.writers().values().contains(w) ==> ow_flushed(w.wid())
    //@ fn src/logger_handle.rs impl LoggerHandle / fn shutdown
    //@   props C04
    //@   attr #[verifier::loop_isolation(false)]
    //@   req[LoggerHandle::shutdown.pre.perm] shutdown_ok()
    //@   loop 1 iter it
    //@   loop 1 inv[LoggerHandle::shutdown.loop.all] forall|w: Box<dyn LogWriter>| self.writers().values().contains(w) ==> #[trigger] it.seq().contains(&w)
    //@   loop 1 inv[LoggerHandle::shutdown.loop.done] pw_shut() && forall|j: int| 0 <= j < it.index@ ==> ow_shut((#[trigger] it.seq()[j]).wid())
    //@   ens[LoggerHandle::shutdown.post.all] pw_shut() && forall|w: Box<dyn LogWriter>| #[trigger] self.writers().values().contains(w) ==> ow_shut(w.wid())
    //@ fn src/logger_handle.rs impl LoggerHandle / fn adapt_duplication_to_stderr
    //@   ret r
    //@   props C13
    //@   req[adapt_duplication_to_stderr.pre.perm] forall|d: Duplicate| #[trigger] dup_err_ok(d) <==> d == dup
    //@   req[adapt_duplication_to_stderr.pre.perm2] forall|d: Duplicate| !#[trigger] dup_out_ok(d)
    //@   ens[adapt_duplication_to_stderr.post] (r is Ok) == old(self).is_multi()
    //@ fn src/logger_handle.rs impl LoggerHandle / fn adapt_duplication_to_stdout
    //@   ret r
    //@   props C13
    //@   req[adapt_duplication_to_stdout.pre.perm] forall|d: Duplicate| #[trigger] dup_out_ok(d) <==> d == dup
    //@   req[adapt_duplication_to_stdout.pre.perm2] forall|d: Duplicate| !#[trigger] dup_err_ok(d)
    //@   ens[adapt_duplication_to_stdout.post] (r is Ok) == old(self).is_multi()
    }
}
}
fn main() {}

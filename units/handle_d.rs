#![feature(allocator_api)]
#![allow(unused_imports, dead_code, unused_variables, unused_mut, unreachable_code, unused_parens)]
// Unit `handle_d` (C02): WritersHandle::reconfigure — the log facade's global max level is never below the
// specification's maximum nor below any additional writer's ceiling.
use vstd::prelude::*;
verus! {
//@ include units/handle_common.rs
//@ include prelude/hashmap.rs
//@ autoens max_log_level -> log::LevelFilter => $x.max_log_level_spec()
/// permission: which level may be installed as the facade's global maximum
pub uninterp spec fn setmax_ok(l: log::LevelFilter) -> bool;
pub assume_specification[ log::set_max_level ](l: log::LevelFilter)
    requires
        setmax_ok(l), //@label log::set_max_level.perm C02,C05
;

pub assume_specification<T: ?Sized, A: std::alloc::Allocator>[ <std::sync::Arc<T, A> as AsRef<T>>::as_ref ](a: &std::sync::Arc<T, A>) -> (r: &T)
    ensures r == &**a;
/// std::cmp::max on LevelFilter (the Kani harness filter_vs_filter proves it picks the numerically larger filter)
pub uninterp spec fn max_rel<T>(a: T, b: T, r: T) -> bool;
#[verifier::allow(undeclared_external_trait)]
pub assume_specification<T: Ord>[ core::cmp::max ](a: T, b: T) -> (r: T)
    ensures max_rel::<T>(a, b, r);
#[verifier::allow(undeclared_external_trait)]
pub assume_specification<T: Ord>[ core::cmp::min ](a: T, b: T) -> (r: T)
    ensures min_rel::<T>(a, b, r);
pub uninterp spec fn min_rel<T>(a: T, b: T, r: T) -> bool;
pub broadcast axiom fn ax_max_filter(a: log::LevelFilter, b: log::LevelFilter, r: log::LevelFilter)
    ensures #[trigger] max_rel::<log::LevelFilter>(a, b, r) ==> (r == a || r == b) && level_axioms::filter_num(r) >= level_axioms::filter_num(a) && level_axioms::filter_num(r) >= level_axioms::filter_num(b);

pub mod logger_handle {
//@ include units/handle_types.rs
    use super::level_axioms::*;
    /// R17 SHIM for `map.values().map(f).max()` on level filters (not used by the code as it is)
    pub open spec fn ceiling_below<F: Fn(&Box<dyn LogWriter>) -> log::LevelFilter>(f: F, w: Box<dyn LogWriter>, r: Option<log::LevelFilter>) -> bool {
        exists|y: log::LevelFilter| #[trigger] f.ensures((&w,), y) && r is Some && filter_num(y) <= filter_num(r->Some_0)
    }
    pub trait VMaxValuesMap {
        spec fn vmap(&self) -> Map<String, Box<dyn LogWriter>>;
        fn vmax_values_map<F: Fn(&Box<dyn LogWriter>) -> log::LevelFilter>(&self, f: F) -> (r: Option<log::LevelFilter>)
            requires forall|w: Box<dyn LogWriter>| self.vmap().values().contains(w) ==> #[trigger] f.requires((&w,)),
            ensures
                r is None ==> forall|w: Box<dyn LogWriter>| !#[trigger] self.vmap().values().contains(w),
                forall|w: Box<dyn LogWriter>| #[trigger] self.vmap().values().contains(w) ==> ceiling_below(f, w, r),
                r is Some ==> exists|w: Box<dyn LogWriter>| self.vmap().values().contains(w) && #[trigger] f.ensures((&w,), r->Some_0);
    }
    impl VMaxValuesMap for std::sync::Arc<HashMap<String, Box<dyn LogWriter>>> {
        open spec fn vmap(&self) -> Map<String, Box<dyn LogWriter>> { (**self)@ }
        #[verifier::external_body]
        fn vmax_values_map<F: Fn(&Box<dyn LogWriter>) -> log::LevelFilter>(&self, f: F) -> (r: Option<log::LevelFilter>) { self.values().map(f).max() }
    }
    use super::strmap_axioms::*;
    broadcast use group_level_axioms, vstd::std_specs::hash::group_hash_axioms, ax_max_filter, group_strmap;

    impl WritersHandle {
        pub closed spec fn writers(&self) -> Map<String, Box<dyn LogWriter>> { (*self.other_writers)@ }
    //@ fn src/logger_handle.rs impl WritersHandle / fn reconfigure
    //@   props C02,C05
    //@   attr #[verifier::loop_isolation(false)]
    //@   rule R17 *
    //@   req[reconfigure.pre.perm] forall|l: log::LevelFilter| #[trigger] setmax_ok(l) <==> (filter_num(l) >= filter_num(max_level)
    //@       && forall|w: Box<dyn LogWriter>| #[trigger] self.writers().values().contains(w) ==> filter_num(l) >= filter_num(w.max_log_level_spec()))
    //@   loop 1 iter it
    //@   loop 1 inv[reconfigure.loop.grows] filter_num(max_level) >= filter_num(old_max)
    //@   loop 1 inv[reconfigure.loop.seen] forall|i: int| 0 <= i < it.index@ ==> filter_num(max_level) >= filter_num((#[trigger] it.seq()[i]).max_log_level_spec())
    //@   loop 1 inv[reconfigure.loop.all] forall|w: Box<dyn LogWriter>| self.writers().values().contains(w) ==> #[trigger] it.seq().contains(&w)
    //@   prefix let ghost old_max = max_level;
    //@   canary
    }
}
}
fn main() {}

#![allow(unused_imports, dead_code, unused_variables, unused_mut, unreachable_code, unused_parens)]
// Unit `lbuild` (C02, C20, C15, C13): Logger::build (src/logger.rs) — what a started logger is made of.
// `build(mut self)` returns `Box<dyn log::Log>` and matches `ref mut` patterns: outside Verus as a whole. Its second half
// — the statements from `let a_other_writers = ..` up to the final `Ok((Box::new(flexi_logger), handle))` — is copied into the wrapper
// `Logger::build_tail` below (same `self`; `a_primary_writer`, built by the first half, is a parameter; the wrapper
// returns the two objects the last line of build boxes and returns).
// The statement that constructs the primary writer is copied into the wrapper `Logger::build_primary`.
// NOT verified: the first lines of build (palette, use_utc hand-over to the builder, set_panic_on_error_channel_error).
use vstd::prelude::*;
verus! {
//@ include prelude/types.rs
//@ include prelude/sync.rs

#[verifier::external_type_specification]
pub struct ExLevelFilter(log::LevelFilter);
pub assume_specification<T>[ std::sync::RwLock::<T>::new ](t: T) -> (r: std::sync::RwLock<T>)
    ensures *lock_content(&r) == t;

/// `Duration == Duration` (derived PartialEq on two integers) is equality of the values
pub mod duration_axioms {
    use super::*;
    use vstd::std_specs::cmp::PartialEqSpec;
    pub broadcast axiom fn ax_duration_eq(a: std::time::Duration, b: std::time::Duration)
        ensures #[trigger] a.eq_spec(&b) == (a == b);
    pub broadcast axiom fn ax_duration_eq_obeys()
        ensures #[trigger] <std::time::Duration as PartialEqSpec<std::time::Duration>>::obeys_eq_spec();
    pub broadcast group group_duration_axioms { ax_duration_eq, ax_duration_eq_obeys }
}
pub mod flexi_error {
    use super::*;
    pub enum FlexiLoggerError { OutputIo(std::io::Error), Other }
}
pub mod shims {
    use super::*;
    use super::flexi_error::FlexiLoggerError;
    use std::{collections::HashMap, path::PathBuf, sync::{Arc, RwLock}, time::Duration};
    /// SHIM (R4): the fn-pointer alias FormatFunction
    #[derive(Clone, Copy)]
    pub struct VFormatFn { _o: () }
    pub struct LogSpecification { _o: () }
    /// oracle: the maximum level of a specification (bounded check kani/sort.rs; iterator adapters)
    pub uninterp spec fn spec_max(s: &LogSpecification) -> log::LevelFilter;
    impl LogSpecification {
        #[verifier::external_body]
        pub fn max_level(&self) -> (r: log::LevelFilter) ensures r == spec_max(self) { unimplemented!() }
    }
    //@ item src/write_mode.rs enum WriteMode
    //@   dropattr #[derive
    impl Clone for WriteMode { #[verifier::external_body] fn clone(&self) -> (r: WriteMode) ensures r == *self { unimplemented!() } }
    impl Copy for WriteMode {}
    impl PartialEq for WriteMode { #[verifier::external_body] fn eq(&self, o: &WriteMode) -> (r: bool) ensures r == (*self == *o) { unimplemented!() } }
    /// SHIM: the builder of the file writer: only its write mode and format function matter here
    pub struct FileLogWriterBuilder { pub mode: WriteMode, pub fmt: VFormatFn, pub rest: int }
    pub struct FileLogWriter { pub fmt: VFormatFn, pub from: int, pub mode: WriteMode }
    pub uninterp spec fn flw_build_result(b: FileLogWriterBuilder) -> Result<FileLogWriter, FlexiLoggerError>;
    impl FileLogWriterBuilder {
        #[verifier::external_body]
        pub fn get_write_mode(&self) -> (r: &WriteMode) ensures *r == self.mode { unimplemented!() }
        #[verifier::external_body]
        pub fn format(self, format: VFormatFn) -> (r: FileLogWriterBuilder) ensures r.fmt == format, r.mode == self.mode, r.rest == self.rest { unimplemented!() }
        /// unit `builder` + FileLogWriter::new: the writer uses the builder's format function and configuration
        #[verifier::external_body]
        pub fn try_build(self) -> (r: Result<FileLogWriter, FlexiLoggerError>)
            ensures r == flw_build_result(self), r is Ok ==> r->Ok_0.fmt == self.fmt && r->Ok_0.mode == self.mode && r->Ok_0.from == self.rest,
        { unimplemented!() }
    }
    /// permissions: which primary writer may be constructed from what
    pub uninterp spec fn pw_std_ok(out: bool, f: VFormatFn, m: WriteMode) -> bool;
    pub uninterp spec fn pw_test_ok(out: bool, f: VFormatFn) -> bool;
    pub uninterp spec fn pw_multi_ok(de: Duplicate, dout: Duplicate, sc: bool, fe: VFormatFn, fo: VFormatFn, fw: Option<Box<FileLogWriter>>, ow: Option<Box<dyn LogWriter>>) -> bool;
    pub struct PrimaryWriter { _o: () }
    impl PrimaryWriter {
        #[verifier::external_body]
        pub fn multi(duplicate_stderr: Duplicate, duplicate_stdout: Duplicate, support_capture: bool, format_for_stderr: VFormatFn, format_for_stdout: VFormatFn,
                     o_file_writer: Option<Box<FileLogWriter>>, o_other_writer: Option<Box<dyn LogWriter>>) -> PrimaryWriter
            requires
                pw_multi_ok(duplicate_stderr, duplicate_stdout, support_capture, format_for_stderr, format_for_stdout, o_file_writer, o_other_writer), //@label PrimaryWriter::multi.perm C20,C13,C15
        { unimplemented!() }
        #[verifier::external_body]
        pub fn stderr(format: VFormatFn, write_mode: &WriteMode) -> PrimaryWriter
            requires
                pw_std_ok(false, format, *write_mode), //@label PrimaryWriter::stderr.perm C20,C15
        { unimplemented!() }
        #[verifier::external_body]
        pub fn stdout(format: VFormatFn, write_mode: &WriteMode) -> PrimaryWriter
            requires
                pw_std_ok(true, format, *write_mode), //@label PrimaryWriter::stdout.perm C20,C15
        { unimplemented!() }
        #[verifier::external_body]
        pub fn test(stdout: bool, format: VFormatFn) -> PrimaryWriter
            requires
                pw_test_ok(stdout, format), //@label PrimaryWriter::test.perm C20
        { unimplemented!() }
    }
    /// token fact: only `LogWriter::format(f)` on the additional writer establishes it
    pub uninterp spec fn ow_formatted(f: VFormatFn) -> bool;
    pub trait LogWriter {
        fn format(&mut self, format: VFormatFn)
            ensures ow_formatted(format);
    }
    pub trait LogLineFilter {}
    //@ item src/logger.rs enum Duplicate
    //@ item src/logger.rs enum ErrorChannel
    //@   dropattr #[derive
    //@   dropattr #[default

    /// permissions and token facts of the effects of the second half of build
    pub uninterp spec fn ec_ok(c: ErrorChannel) -> bool;
    pub uninterp spec fn flusher_ok(d: std::time::Duration) -> bool;
    pub uninterp spec fn flusher_started() -> bool;
    pub uninterp spec fn force_utc_ok() -> bool;
    /// token facts: only set_error_channel(c) / DeferredNow::force_utc() establish them
    pub uninterp spec fn ec_set(c: ErrorChannel) -> bool;
    pub uninterp spec fn utc_forced() -> bool;
    pub uninterp spec fn reconf_ok(l: log::LevelFilter) -> bool;
    /// token fact: only LoggerHandle::reconfigure(l) establishes it
    pub uninterp spec fn reconfigured(l: log::LevelFilter) -> bool;

    #[verifier::external_body]
    pub(crate) fn set_error_channel(channel: ErrorChannel)
        requires
            ec_ok(channel), //@label set_error_channel.perm C19
        ensures ec_set(channel),
    { unimplemented!() }
    #[verifier::external_body]
    pub(crate) fn start_flusher_thread(primary_writer: Arc<PrimaryWriter>, other_writers: Arc<HashMap<String, Box<dyn LogWriter>>>, flush_interval: std::time::Duration) -> (r: Result<(), FlexiLoggerError>)
        requires
            flusher_ok(flush_interval), //@label start_flusher_thread.perm C04
        ensures r is Ok ==> flusher_started(),
    { unimplemented!() }
    pub struct DeferredNow { _o: () }
    impl DeferredNow {
        #[verifier::external_body]
        pub fn force_utc()
            requires
                force_utc_ok(), //@label DeferredNow::force_utc.perm C20
            ensures utc_forced(),
        { unimplemented!() }
        #[verifier::external_body]
        pub fn new() -> DeferredNow { unimplemented!() }
        #[verifier::external_body]
        pub fn now(&mut self) { unimplemented!() }
    }
    /// SHIM for FlexiLogger / LoggerHandle: what they are made of
    pub struct FlexiLogger {
        pub log_specification: Arc<RwLock<LogSpecification>>, pub primary_writer: Arc<PrimaryWriter>,
        pub other_writers: Arc<HashMap<String, Box<dyn LogWriter>>>, pub filter: Option<Box<dyn LogLineFilter>>,
    }
    impl FlexiLogger {
        pub fn new(log_specification: Arc<RwLock<LogSpecification>>, primary_writer: Arc<PrimaryWriter>,
                   other_writers: Arc<HashMap<String, Box<dyn LogWriter>>>, filter: Option<Box<dyn LogLineFilter>>) -> (r: FlexiLogger)
            ensures r.log_specification == log_specification, r.primary_writer == primary_writer, r.other_writers == other_writers, r.filter == filter,
        { FlexiLogger { log_specification, primary_writer, other_writers, filter } }
    }
    pub struct LoggerHandle {
        pub spec: Arc<RwLock<LogSpecification>>, pub primary_writer: Arc<PrimaryWriter>, pub other_writers: Arc<HashMap<String, Box<dyn LogWriter>>>,
    }
    impl LoggerHandle {
        pub(crate) fn new(spec: Arc<RwLock<LogSpecification>>, primary_writer: Arc<PrimaryWriter>, other_writers: Arc<HashMap<String, Box<dyn LogWriter>>>) -> (r: LoggerHandle)
            ensures r.spec == spec, r.primary_writer == primary_writer, r.other_writers == other_writers,
        { LoggerHandle { spec, primary_writer, other_writers } }
        /// SHIM (unit handle_d proves: the facade level becomes max(level, writers' ceilings))
        #[verifier::external_body]
        pub(crate) fn reconfigure(&self, max_level: log::LevelFilter)
            requires
                reconf_ok(max_level), //@label LoggerHandle::reconfigure.perm C02
            ensures reconfigured(max_level),
        { unimplemented!() }
    }
}
pub mod logger {
    use super::*;
    use super::{flexi_error::FlexiLoggerError, shims::*};
    use std::{collections::HashMap, sync::{Arc, RwLock}};
    type FormatFunction = VFormatFn;
    broadcast use super::duration_axioms::group_duration_axioms;
    pub uninterp spec fn zero_duration() -> std::time::Duration;
    #[verifier::external_body]
    pub exec const ZERO_DURATION: std::time::Duration ensures ZERO_DURATION == zero_duration() { std::time::Duration::from_secs(0) }

    //@ item src/logger.rs enum LogTarget
    //@ item src/logger.rs struct Logger
    //@   rule R2 *

    impl Logger {
        pub closed spec fn the_spec(&self) -> LogSpecification { self.spec }
        pub closed spec fn the_error_channel(&self) -> ErrorChannel { self.error_channel }
        pub closed spec fn the_flush_interval(&self) -> std::time::Duration { self.flush_interval }
        pub closed spec fn the_use_utc(&self) -> bool { self.use_utc }
        pub closed spec fn the_other_writers(&self) -> HashMap<String, Box<dyn LogWriter>> { self.other_writers }
        pub closed spec fn the_filter(&self) -> Option<Box<dyn LogLineFilter>> { self.filter }

        pub closed spec fn the_target(&self) -> LogTarget { self.log_target }
        pub closed spec fn the_flwb(&self) -> FileLogWriterBuilder { self.flwb }
        pub closed spec fn fmt_file(&self) -> VFormatFn { self.format_for_file }
        pub closed spec fn fmt_err(&self) -> VFormatFn { self.format_for_stderr }
        pub closed spec fn fmt_out(&self) -> VFormatFn { self.format_for_stdout }
        pub closed spec fn fmt_writer(&self) -> VFormatFn { self.format_for_writer }
        pub closed spec fn dups(&self) -> (Duplicate, Duplicate) { (self.duplicate_err, self.duplicate_out) }
        pub open spec fn capture(&self) -> bool { self.the_flwb().mode is SupportCapture }


        pub closed spec fn is_multi_with(&self, f: bool, w: Option<Box<dyn LogWriter>>) -> bool { self.log_target == LogTarget::Multi(f, w) }
        /// everything the setters below must leave alone
        pub closed spec fn rest(&self) -> (LogSpecification, std::time::Duration, FileLogWriterBuilder, HashMap<String, Box<dyn LogWriter>>, Option<Box<dyn LogLineFilter>>, bool, bool) {
            (self.spec, self.flush_interval, self.flwb, self.other_writers, self.filter, self.use_utc, self.panic_on_error_channel_error)
        }
        pub closed spec fn formats(&self) -> (VFormatFn, VFormatFn, VFormatFn, VFormatFn) { (self.format_for_file, self.format_for_stderr, self.format_for_stdout, self.format_for_writer) }
    // configuration setters (`mut self` builder methods, rule R10b): each changes exactly the field(s) it names
    //@ fn src/logger.rs impl Logger / fn format
    //@   ret r
    //@   props C20
    //@   rule R10b 1
    //@   ens[Logger::format.post] r.formats() == (format, format, format, format) && r.rest() == self.rest() && r.the_target() == self.the_target() && r.dups() == self.dups() && r.the_error_channel() == self.the_error_channel()
    //@ fn src/logger.rs impl Logger / fn format_for_files
    //@   ret r
    //@   props C20
    //@   rule R10b 1
    //@   ens[Logger::format_for_files.post] r.formats() == (format, self.fmt_err(), self.fmt_out(), self.fmt_writer()) && r.rest() == self.rest() && r.the_target() == self.the_target() && r.dups() == self.dups() && r.the_error_channel() == self.the_error_channel()
    //@ fn src/logger.rs impl Logger / fn format_for_stderr
    //@   ret r
    //@   props C20
    //@   rule R10b 1
    //@   ens[Logger::format_for_stderr.post] r.formats() == (self.fmt_file(), format_function, self.fmt_out(), self.fmt_writer()) && r.rest() == self.rest() && r.the_target() == self.the_target() && r.dups() == self.dups() && r.the_error_channel() == self.the_error_channel()
    //@ fn src/logger.rs impl Logger / fn format_for_stdout
    //@   ret r
    //@   props C20
    //@   rule R10b 1
    //@   ens[Logger::format_for_stdout.post] r.formats() == (self.fmt_file(), self.fmt_err(), format_function, self.fmt_writer()) && r.rest() == self.rest() && r.the_target() == self.the_target() && r.dups() == self.dups() && r.the_error_channel() == self.the_error_channel()
    //@ fn src/logger.rs impl Logger / fn format_for_writer
    //@   ret r
    //@   props C20
    //@   rule R10b 1
    //@   ens[Logger::format_for_writer.post] r.formats() == (self.fmt_file(), self.fmt_err(), self.fmt_out(), format) && r.rest() == self.rest() && r.the_target() == self.the_target() && r.dups() == self.dups() && r.the_error_channel() == self.the_error_channel()
    //@ fn src/logger.rs impl Logger / fn duplicate_to_stderr
    //@   ret r
    //@   props C13
    //@   rule R10b 1
    //@   ens[Logger::duplicate_to_stderr.post] r.dups() == (dup, self.dups().1) && r.formats() == self.formats() && r.rest() == self.rest() && r.the_target() == self.the_target() && r.the_error_channel() == self.the_error_channel()
    //@ fn src/logger.rs impl Logger / fn duplicate_to_stdout
    //@   ret r
    //@   props C13
    //@   rule R10b 1
    //@   ens[Logger::duplicate_to_stdout.post] r.dups() == (self.dups().0, dup) && r.formats() == self.formats() && r.rest() == self.rest() && r.the_target() == self.the_target() && r.the_error_channel() == self.the_error_channel()
    //@ fn src/logger.rs impl Logger / fn log_to_stderr
    //@   ret r
    //@   props C13
    //@   rule R10b 1
    //@   ens[Logger::log_to_stderr.post] r.the_target() is StdErr && r.dups() == self.dups() && r.formats() == self.formats() && r.rest() == self.rest() && r.the_error_channel() == self.the_error_channel()
    //@ fn src/logger.rs impl Logger / fn log_to_stdout
    //@   ret r
    //@   props C13
    //@   rule R10b 1
    //@   ens[Logger::log_to_stdout.post] r.the_target() is StdOut && r.dups() == self.dups() && r.formats() == self.formats() && r.rest() == self.rest() && r.the_error_channel() == self.the_error_channel()
    //@ fn src/logger.rs impl Logger / fn do_not_log
    //@   ret r
    //@   props C13
    //@   rule R10b 1
    //@   ens[Logger::do_not_log.post] r.is_multi_with(false, None) && r.dups() == self.dups() && r.formats() == self.formats() && r.rest() == self.rest() && r.the_error_channel() == self.the_error_channel()
    //@ fn src/logger.rs impl Logger / fn log_to_writer
    //@   ret r
    //@   props C13
    //@   rule R10b 1
    //@   ens[Logger::log_to_writer.post] r.is_multi_with(false, Some(w)) && r.dups() == self.dups() && r.formats() == self.formats() && r.rest() == self.rest() && r.the_error_channel() == self.the_error_channel()
    //@ fn src/logger.rs impl Logger / fn error_channel
    //@   ret r
    //@   props C19
    //@   rule R10b 1
    //@   ens[Logger::error_channel.post] r.the_error_channel() == error_channel && r.the_target() == self.the_target() && r.dups() == self.dups() && r.formats() == self.formats() && r.rest() == self.rest()

        /// first half of Logger::build: the primary writer is made from the configured target, format functions, write
        /// mode and duplication levels
        fn build_primary(self) -> (r: Result<Arc<PrimaryWriter>, FlexiLoggerError>)
            requires
                forall|out: bool, f: VFormatFn, m: WriteMode| #[trigger] pw_std_ok(out, f, m) <==> (!self.capture() && m == self.the_flwb().mode
                    && ((self.the_target() is StdOut && out && f == self.fmt_out()) || (self.the_target() is StdErr && !out && f == self.fmt_err()))),
                forall|out: bool, f: VFormatFn| #[trigger] pw_test_ok(out, f) <==> (self.capture()
                    && ((self.the_target() is StdOut && out && f == self.fmt_out()) || (self.the_target() is StdErr && !out && f == self.fmt_err()))),
                forall|de: Duplicate, dout: Duplicate, sc: bool, fe: VFormatFn, fo: VFormatFn, fw: Option<Box<FileLogWriter>>, ow: Option<Box<dyn LogWriter>>|
                    #[trigger] pw_multi_ok(de, dout, sc, fe, fo, fw, ow) <==> (self.the_target() is Multi && (de, dout) == self.dups() && sc == self.capture()
                        && fe == self.fmt_err() && fo == self.fmt_out()
                        && (fw is Some) == self.the_target()->Multi_0
                        && (fw is Some ==> fw->Some_0.fmt == self.fmt_file() && fw->Some_0.mode == self.the_flwb().mode && fw->Some_0.from == self.the_flwb().rest)
                        && (ow is Some) == (self.the_target()->Multi_1 is Some)
                        && (ow is Some ==> ow_formatted(self.fmt_writer()))),
        {
    //@ span src/logger.rs impl Logger / fn build
    //@   from let a_primary_writer = Arc::new(match self.log_target
    //@   uptosemi let a_primary_writer = Arc::new(match self.log_target
    //@   rename build_primary
            Ok(a_primary_writer)
        }

        /// second half of Logger::build
        pub fn build_tail(self, a_primary_writer: Arc<PrimaryWriter>) -> (r: Result<(FlexiLogger, LoggerHandle), FlexiLoggerError>)
            requires
                // C02: the facade's level gate is set from the maximum level of the initial specification
                forall|l: log::LevelFilter| #[trigger] reconf_ok(l) <==> l == spec_max(&self.the_spec()),
                forall|c: ErrorChannel| #[trigger] ec_ok(c) <==> c == self.the_error_channel(),
                forall|d: std::time::Duration| #[trigger] flusher_ok(d) <==> (d == self.the_flush_interval() && d != zero_duration()),
                force_utc_ok() <==> self.the_use_utc(),
            ensures
                r is Ok ==> reconfigured(spec_max(&self.the_spec())), //@label build_tail.post.reconfigured C02
                r is Ok && self.the_flush_interval() != zero_duration() ==> flusher_started(), //@label build_tail.post.flusher C04
                r is Ok ==> ec_set(self.the_error_channel()), //@label build_tail.post.error_channel C19
                r is Ok && self.the_use_utc() ==> utc_forced(), //@label build_tail.post.utc C20
                // logger and handle share one specification lock, which holds the initial specification, and the writers
                r is Ok ==> r->Ok_0.0.log_specification == r->Ok_0.1.spec && *lock_content(&*r->Ok_0.1.spec) == self.the_spec(), //@label build_tail.post.shared_spec C05,C02
                r is Ok ==> r->Ok_0.0.primary_writer == a_primary_writer && r->Ok_0.1.primary_writer == a_primary_writer, //@label build_tail.post.primary C13
                r is Ok ==> r->Ok_0.0.other_writers == r->Ok_0.1.other_writers && *r->Ok_0.0.other_writers == self.the_other_writers(), //@label build_tail.post.writers C13
                r is Ok ==> r->Ok_0.0.filter == self.the_filter(), //@label build_tail.post.filter C02
        {
    //@ span src/logger.rs impl Logger / fn build
    //@   from let a_other_writers = Arc::new(self.other_writers);
    //@   before Ok((Box::new(flexi_logger), handle))
    //@   rename build_tail
            Ok((flexi_logger, handle))
        }
    }
}
}
fn main() {}

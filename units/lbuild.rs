#![allow(unused_imports, dead_code, unused_variables, unused_mut, unreachable_code, unused_parens)]
// Unit `lbuild` (C02, C20, C15, C13): Logger::build (src/logger.rs) — what a started logger is made of.
// `build(mut self)` returns `Box<dyn log::Log>` and matches `ref mut` patterns: outside Verus as a whole. Its second half
// — the statements from `let a_other_writers = ..` up to the final `Ok((Box::new(flexi_logger), handle))` — is copied into the wrapper
// `Logger::build_tail` below (same `self`; `a_primary_writer`, built by the first half, is a parameter; the wrapper
// returns the two objects the last line of build boxes and returns).
// The statement that constructs the primary writer is copied into the wrapper `Logger::build_primary`.
// NOT verified: the first lines of build (palette, use_utc hand-over to the builder, set_panic_on_error_channel_error).
use vstd::prelude::*;
verus! {
//@ include prelude/types.rs
//@ include prelude/sync.rs

#[verifier::external_type_specification]
pub struct ExLevelFilter(log::LevelFilter);
pub assume_specification<T>[ std::sync::RwLock::<T>::new ](t: T) -> (r: std::sync::RwLock<T>)
    ensures *lock_content(&r) == t;

/// `Duration == Duration` (derived PartialEq on two integers) is equality of the values
pub mod duration_axioms {
    use super::*;
    use vstd::std_specs::cmp::PartialEqSpec;
    pub broadcast axiom fn ax_duration_eq(a: std::time::Duration, b: std::time::Duration)
        ensures #[trigger] a.eq_spec(&b) == (a == b);
    pub broadcast axiom fn ax_duration_eq_obeys()
        ensures #[trigger] <std::time::Duration as PartialEqSpec<std::time::Duration>>::obeys_eq_spec();
    pub broadcast group group_duration_axioms { ax_duration_eq, ax_duration_eq_obeys }
}
pub mod flexi_error {
    use super::*;
    pub enum FlexiLoggerError { OutputIo(std::io::Error), Other }
}
pub mod shims {
    use super::*;
    use super::flexi_error::FlexiLoggerError;
    use std::{collections::HashMap, path::PathBuf, sync::{Arc, RwLock}, time::Duration};
    /// SHIM (R4): the fn-pointer alias FormatFunction
    #[derive(Clone, Copy)]
    pub struct VFormatFn { _o: () }
    pub struct LogSpecification { _o: () }
    /// oracle: the maximum level of a specification (bounded check kani/sort.rs; iterator adapters)
    pub uninterp spec fn spec_max(s: &LogSpecification) -> log::LevelFilter;
    impl LogSpecification {
        #[verifier::external_body]
        pub fn max_level(&self) -> (r: log::LevelFilter) ensures r == spec_max(self) { unimplemented!() }
    }
    //@ item src/write_mode.rs enum WriteMode
    //@   dropattr #[derive
    impl Clone for WriteMode { #[verifier::external_body] fn clone(&self) -> (r: WriteMode) ensures r == *self { unimplemented!() } }
    impl Copy for WriteMode {}
    impl PartialEq for WriteMode { #[verifier::external_body] fn eq(&self, o: &WriteMode) -> (r: bool) ensures r == (*self == *o) { unimplemented!() } }
    /// SHIM: the builder of the file writer: only its write mode and format function matter here
    pub struct FileLogWriterBuilder { pub mode: WriteMode, pub fmt: VFormatFn, pub rest: int }
    pub struct FileLogWriter { pub fmt: VFormatFn, pub from: int, pub mode: WriteMode }
    pub uninterp spec fn flw_build_result(b: FileLogWriterBuilder) -> Result<FileLogWriter, FlexiLoggerError>;
    pub struct FileSpec { _o: () }
    pub struct Criterion { _o: () }
    pub struct Naming { _o: () }
    pub struct Cleanup { _o: () }
    /// the builder after each of its setters (unit `builder` proves what each one changes: `settings()` / `others()`).
    /// Stated here: which setter was called with which arguments; none but `write_mode` changes the write mode, none but
    /// `format` the format function. Signatures are read from the source on every run.
    pub uninterp spec fn b_file_spec(b: FileLogWriterBuilder, f: FileSpec) -> FileLogWriterBuilder;
    pub uninterp spec fn b_print_message(b: FileLogWriterBuilder, on: bool) -> FileLogWriterBuilder;
    pub uninterp spec fn b_rotate(b: FileLogWriterBuilder, r: Option<(Criterion, Naming, Cleanup)>) -> FileLogWriterBuilder;
    pub uninterp spec fn b_append(b: FileLogWriterBuilder, on: bool) -> FileLogWriterBuilder;
    pub uninterp spec fn b_symlink<P>(b: FileLogWriterBuilder, p: Option<P>) -> FileLogWriterBuilder;
    pub uninterp spec fn b_crlf(b: FileLogWriterBuilder) -> FileLogWriterBuilder;
    pub uninterp spec fn b_bg(b: FileLogWriterBuilder, on: bool) -> FileLogWriterBuilder;
    pub uninterp spec fn b_utc(b: FileLogWriterBuilder) -> FileLogWriterBuilder;
    impl FileLogWriterBuilder {
        pub open spec fn same_mode_fmt(self, o: FileLogWriterBuilder) -> bool { self.mode == o.mode && self.fmt == o.fmt }
        #[verifier::external_body]
        pub fn get_write_mode(&self) -> (r: &WriteMode) ensures *r == self.mode { unimplemented!() }
        #[verifier::external_body]
        pub fn format(self, format: VFormatFn) -> (r: FileLogWriterBuilder) ensures r.fmt == format, r.mode == self.mode, r.rest == self.rest { unimplemented!() }
        /// unit `builder` + FileLogWriter::new: the writer uses the builder's format function and configuration
        #[verifier::external_body]
        pub fn try_build(self) -> (r: Result<FileLogWriter, FlexiLoggerError>)
            ensures r == flw_build_result(self), r is Ok ==> r->Ok_0.fmt == self.fmt && r->Ok_0.mode == self.mode && r->Ok_0.from == self.rest,
        { unimplemented!() }
    //@ sig src/writers/file_log_writer/builder.rs impl FileLogWriterBuilder / fn file_spec
    //@   ret r
    //@   rule R10 1
    //@   ens r == b_file_spec(self, file_spec) && r.same_mode_fmt(self)
    //@ sig src/writers/file_log_writer/builder.rs impl FileLogWriterBuilder / fn print_message
    //@   ret r
    //@   rule R10 1
    //@   ens r == b_print_message(self, true) && r.same_mode_fmt(self)
    //@ sig src/writers/file_log_writer/builder.rs impl FileLogWriterBuilder / fn o_print_message
    //@   ret r
    //@   rule R10 1
    //@   ens r == b_print_message(self, print_message) && r.same_mode_fmt(self)
    //@ sig src/writers/file_log_writer/builder.rs impl FileLogWriterBuilder / fn rotate
    //@   ret r
    //@   rule R10 1
    //@   ens r == b_rotate(self, Some((criterion, naming, cleanup))) && r.same_mode_fmt(self)
    //@ sig src/writers/file_log_writer/builder.rs impl FileLogWriterBuilder / fn o_rotate
    //@   ret r
    //@   rule R10 1
    //@   ens r == b_rotate(self, rotate_config) && r.same_mode_fmt(self)
    //@ sig src/writers/file_log_writer/builder.rs impl FileLogWriterBuilder / fn append
    //@   ret r
    //@   rule R10 1
    //@   ens r == b_append(self, true) && r.same_mode_fmt(self)
    //@ sig src/writers/file_log_writer/builder.rs impl FileLogWriterBuilder / fn o_append
    //@   ret r
    //@   rule R10 1
    //@   ens r == b_append(self, append) && r.same_mode_fmt(self)
    //@ sig src/writers/file_log_writer/builder.rs impl FileLogWriterBuilder / fn create_symlink
    //@   ret r
    //@   rule R10 1
    //@   ens r == b_symlink::<P>(self, Some(symlink)) && r.same_mode_fmt(self)
    //@ sig src/writers/file_log_writer/builder.rs impl FileLogWriterBuilder / fn o_create_symlink
    //@   ret r
    //@   rule R10 1
    //@   ens r == b_symlink::<S>(self, symlink) && r.same_mode_fmt(self)
    //@ sig src/writers/file_log_writer/builder.rs impl FileLogWriterBuilder / fn use_windows_line_ending
    //@   ret r
    //@   rule R10 1
    //@   ens r == b_crlf(self) && r.same_mode_fmt(self)
    //@ sig src/writers/file_log_writer/builder.rs impl FileLogWriterBuilder / fn cleanup_in_background_thread
    //@   ret r
    //@   rule R10 1
    //@   ens r == b_bg(self, use_background_thread) && r.same_mode_fmt(self)
    //@ sig src/writers/file_log_writer/builder.rs impl FileLogWriterBuilder / fn use_utc
    //@   ret r
    //@   rule R10 1
    //@   ens r == b_utc(self) && r.same_mode_fmt(self)
    //@ sig src/writers/file_log_writer/builder.rs impl FileLogWriterBuilder / fn write_mode
    //@   ret r
    //@   rule R10 1
    //@   ens r.mode == write_mode && r.fmt == self.fmt && r.rest == self.rest
    }
    /// SHIM for the fn item `default_format` (the default value of every format function)
    pub uninterp spec fn default_format_spec() -> VFormatFn;
    #[allow(non_upper_case_globals)]
    #[verifier::external_body]
    pub exec const default_format: VFormatFn ensures default_format == default_format_spec() { VFormatFn { _o: () } }
    pub uninterp spec fn default_file_spec() -> FileSpec;
    impl Default for FileSpec { #[verifier::external_body] fn default() -> (r: FileSpec) ensures r == default_file_spec() { unimplemented!() } }
    /// a new builder (unit `builder`: FileLogWriterBuilder::new.post — direct writing, default format, ...)
    pub uninterp spec fn b_new(f: FileSpec) -> FileLogWriterBuilder;
    impl FileLogWriter {
    //@ sig src/writers/file_log_writer.rs impl FileLogWriter / fn builder
    //@   ret r
    //@   ens r == b_new(file_spec) && r.mode is Direct && r.fmt == default_format_spec()
    }
    /// unit `wmode`: what `Logger::write_mode` splits a mode into
    pub uninterp spec fn wf_of(m: WriteMode) -> WriteMode;
    pub uninterp spec fn interval_of(m: WriteMode) -> std::time::Duration;
    /// a mode that would make a writer flush on its own (the std writers panic on it): unit `wmode` proves that
    /// `without_flushing` never returns one (without_flushing.post.no_flushing)
    #[cfg(not(feature = "async"))]
    pub open spec fn own_flushing(m: WriteMode) -> bool { m is BufferAndFlush || m is BufferAndFlushWith }
    #[cfg(feature = "async")]
    pub open spec fn own_flushing(m: WriteMode) -> bool { m is BufferAndFlush || m is BufferAndFlushWith || m is Async || (m is AsyncWith && m->flush_interval != super::logger::zero_duration()) }
    impl WriteMode {
    //@ sig src/write_mode.rs impl WriteMode / fn without_flushing
    //@   ret r
    //@   ens r == wf_of(*self) && !own_flushing(r)
    //@ sig src/write_mode.rs impl WriteMode / fn get_flush_interval
    //@   ret r
    //@   ens r == interval_of(*self)
    }
    /// permissions: which primary writer may be constructed from what
    pub uninterp spec fn pw_std_ok(out: bool, f: VFormatFn, m: WriteMode) -> bool;
    pub uninterp spec fn pw_test_ok(out: bool, f: VFormatFn) -> bool;
    pub uninterp spec fn pw_multi_ok(de: Duplicate, dout: Duplicate, sc: bool, fe: VFormatFn, fo: VFormatFn, fw: Option<Box<FileLogWriter>>, ow: Option<Box<dyn LogWriter>>) -> bool;
    pub struct PrimaryWriter { _o: () }
    pub type FormatFunction = VFormatFn;
    // the constructors of the primary writer: signatures read from the source on every run (their bodies: unit `primary`),
    // contracts stated by parameter name, so a changed parameter order shows at the call sites in `build`
    impl PrimaryWriter {
    //@ sig src/primary_writer.rs impl PrimaryWriter / fn multi
    //@   props C20,C13,C15
    //@   req[PrimaryWriter::multi.perm] pw_multi_ok(duplicate_stderr, duplicate_stdout, support_capture, format_for_stderr, format_for_stdout, o_file_writer, o_other_writer)
    //@ sig src/primary_writer.rs impl PrimaryWriter / fn stderr
    //@   props C20,C15
    //@   req[PrimaryWriter::stderr.perm] pw_std_ok(false, format, *write_mode)
    //@   props C10
    //@   req[PrimaryWriter::stderr.pre.no_own_flushing] !own_flushing(*write_mode)
    //@ sig src/primary_writer.rs impl PrimaryWriter / fn stdout
    //@   props C20,C15
    //@   req[PrimaryWriter::stdout.perm] pw_std_ok(true, format, *write_mode)
    //@   props C10
    //@   req[PrimaryWriter::stdout.pre.no_own_flushing] !own_flushing(*write_mode)
    //@ sig src/primary_writer.rs impl PrimaryWriter / fn test
    //@   props C20
    //@   req[PrimaryWriter::test.perm] pw_test_ok(stdout, format)
    }
    /// token fact: only `LogWriter::format(f)` on the additional writer establishes it
    pub uninterp spec fn ow_formatted(f: VFormatFn) -> bool;
    pub trait LogWriter {
        fn format(&mut self, format: VFormatFn)
            ensures ow_formatted(format);
    }
    pub trait LogLineFilter {}
    //@ item src/logger.rs enum Duplicate
    //@ item src/logger.rs enum ErrorChannel
    //@   dropattr #[derive
    //@   dropattr #[default
    //@   derivedefault

    /// permissions and token facts of the effects of the second half of build
    pub uninterp spec fn ec_ok(c: ErrorChannel) -> bool;
    pub uninterp spec fn flusher_ok(d: std::time::Duration) -> bool;
    pub uninterp spec fn flusher_started() -> bool;
    pub uninterp spec fn force_utc_ok() -> bool;
    /// token facts: only set_error_channel(c) / DeferredNow::force_utc() establish them
    pub uninterp spec fn ec_set(c: ErrorChannel) -> bool;
    pub uninterp spec fn utc_forced() -> bool;
    pub uninterp spec fn reconf_ok(l: log::LevelFilter) -> bool;
    /// token fact: only LoggerHandle::reconfigure(l) establishes it
    pub uninterp spec fn reconfigured(l: log::LevelFilter) -> bool;

    #[verifier::external_body]
    pub(crate) fn set_error_channel(channel: ErrorChannel)
        requires
            ec_ok(channel), //@label set_error_channel.perm C19
        ensures ec_set(channel),
    { unimplemented!() }
    #[verifier::external_body]
    pub(crate) fn start_flusher_thread(primary_writer: Arc<PrimaryWriter>, other_writers: Arc<HashMap<String, Box<dyn LogWriter>>>, flush_interval: std::time::Duration) -> (r: Result<(), FlexiLoggerError>)
        requires
            flusher_ok(flush_interval), //@label start_flusher_thread.perm C04
        ensures r is Ok ==> flusher_started(),
    { unimplemented!() }
    pub struct DeferredNow { _o: () }
    impl DeferredNow {
        #[verifier::external_body]
        pub fn force_utc()
            requires
                force_utc_ok(), //@label DeferredNow::force_utc.perm C20
            ensures utc_forced(),
        { unimplemented!() }
        #[verifier::external_body]
        pub fn new() -> DeferredNow { unimplemented!() }
        #[verifier::external_body]
        pub fn now(&mut self) { unimplemented!() }
    }
    /// SHIM for FlexiLogger / LoggerHandle: what they are made of
    pub struct FlexiLogger {
        pub log_specification: Arc<RwLock<LogSpecification>>, pub primary_writer: Arc<PrimaryWriter>,
        pub other_writers: Arc<HashMap<String, Box<dyn LogWriter>>>, pub filter: Option<Box<dyn LogLineFilter>>,
    }
    impl FlexiLogger {
        pub fn new(log_specification: Arc<RwLock<LogSpecification>>, primary_writer: Arc<PrimaryWriter>,
                   other_writers: Arc<HashMap<String, Box<dyn LogWriter>>>, filter: Option<Box<dyn LogLineFilter>>) -> (r: FlexiLogger)
            ensures r.log_specification == log_specification, r.primary_writer == primary_writer, r.other_writers == other_writers, r.filter == filter,
        { FlexiLogger { log_specification, primary_writer, other_writers, filter } }
    }
    pub struct LoggerHandle {
        pub spec: Arc<RwLock<LogSpecification>>, pub primary_writer: Arc<PrimaryWriter>, pub other_writers: Arc<HashMap<String, Box<dyn LogWriter>>>,
    }
    impl LoggerHandle {
        pub(crate) fn new(spec: Arc<RwLock<LogSpecification>>, primary_writer: Arc<PrimaryWriter>, other_writers: Arc<HashMap<String, Box<dyn LogWriter>>>) -> (r: LoggerHandle)
            ensures r.spec == spec, r.primary_writer == primary_writer, r.other_writers == other_writers,
        { LoggerHandle { spec, primary_writer, other_writers } }
        /// SHIM (unit handle_d proves: the facade level becomes max(level, writers' ceilings))
        #[verifier::external_body]
        pub(crate) fn reconfigure(&self, max_level: log::LevelFilter)
            requires
                reconf_ok(max_level), //@label LoggerHandle::reconfigure.perm C02
            ensures reconfigured(max_level),
        { unimplemented!() }
    }
}
pub mod logger {
    use super::*;
    use super::{flexi_error::FlexiLoggerError, shims::*};
    use std::{collections::HashMap, path::PathBuf, sync::{Arc, RwLock}};
    type FormatFunction = VFormatFn;
    broadcast use super::duration_axioms::group_duration_axioms;
    pub uninterp spec fn zero_duration() -> std::time::Duration;
    #[verifier::external_body]
    pub exec const ZERO_DURATION: std::time::Duration ensures ZERO_DURATION == zero_duration() { std::time::Duration::from_secs(0) }

    //@ item src/logger.rs enum LogTarget
    //@ item src/logger.rs struct Logger
    //@   rule R2 *

    impl Logger {
        pub closed spec fn the_spec(&self) -> LogSpecification { self.spec }
        pub closed spec fn the_error_channel(&self) -> ErrorChannel { self.error_channel }
        pub closed spec fn the_flush_interval(&self) -> std::time::Duration { self.flush_interval }
        pub closed spec fn the_use_utc(&self) -> bool { self.use_utc }
        pub closed spec fn the_other_writers(&self) -> HashMap<String, Box<dyn LogWriter>> { self.other_writers }
        pub closed spec fn the_filter(&self) -> Option<Box<dyn LogLineFilter>> { self.filter }

        pub closed spec fn the_target(&self) -> LogTarget { self.log_target }
        pub closed spec fn the_flwb(&self) -> FileLogWriterBuilder { self.flwb }
        pub closed spec fn fmt_file(&self) -> VFormatFn { self.format_for_file }
        pub closed spec fn fmt_err(&self) -> VFormatFn { self.format_for_stderr }
        pub closed spec fn fmt_out(&self) -> VFormatFn { self.format_for_stdout }
        pub closed spec fn fmt_writer(&self) -> VFormatFn { self.format_for_writer }
        pub closed spec fn dups(&self) -> (Duplicate, Duplicate) { (self.duplicate_err, self.duplicate_out) }
        pub open spec fn capture(&self) -> bool { self.the_flwb().mode is SupportCapture }


        pub closed spec fn is_multi_with(&self, f: bool, w: Option<Box<dyn LogWriter>>) -> bool { self.log_target == LogTarget::Multi(f, w) }
        /// everything the setters below must leave alone
        pub closed spec fn rest(&self) -> (LogSpecification, std::time::Duration, FileLogWriterBuilder, HashMap<String, Box<dyn LogWriter>>, Option<Box<dyn LogLineFilter>>, bool, bool) {
            (self.spec, self.flush_interval, self.flwb, self.other_writers, self.filter, self.use_utc, self.panic_on_error_channel_error)
        }
        pub closed spec fn formats(&self) -> (VFormatFn, VFormatFn, VFormatFn, VFormatFn) { (self.format_for_file, self.format_for_stderr, self.format_for_stdout, self.format_for_writer) }
    // the defaults of a new Logger: stderr, no duplication, default formats, no flusher, a fresh file writer builder, stderr as error channel
    //@ fn src/logger.rs impl Logger / fn from_spec_and_errs
    //@   ret r
    //@   props C13,C19,C20,C10,C04
    //@   ens[Logger::new.post.target] r.the_target() is StdErr && r.dups() == (Duplicate::None, Duplicate::None) && r.the_spec() == spec
    //@   ens[Logger::new.post.formats] r.formats() == (default_format_spec(), default_format_spec(), default_format_spec(), default_format_spec())
    //@   ens[Logger::new.post.flwb] r.the_flwb() == b_new(default_file_spec()) && r.the_flush_interval() == zero_duration() && !r.the_use_utc()
    //@   ens[Logger::new.post.error_channel] r.the_error_channel() is StdErr
    //@   ens[Logger::new.post.no_writers] r.the_other_writers()@.len() == 0 && r.the_filter() is None
    //@   ens[Logger::new.post.inv] r.inv()
    // configuration setters (`mut self` builder methods, rule R10b): each changes exactly the field(s) it names
    //@ fn src/logger.rs impl Logger / fn format
    //@   ret r
    //@   props C20
    //@   rule R10b 1
    //@   ens[Logger::format.post] r.formats() == (format, format, format, format) && r.rest() == self.rest() && r.the_target() == self.the_target() && r.dups() == self.dups() && r.the_error_channel() == self.the_error_channel()
    //@ fn src/logger.rs impl Logger / fn format_for_files
    //@   ret r
    //@   props C20
    //@   rule R10b 1
    //@   ens[Logger::format_for_files.post] r.formats() == (format, self.fmt_err(), self.fmt_out(), self.fmt_writer()) && r.rest() == self.rest() && r.the_target() == self.the_target() && r.dups() == self.dups() && r.the_error_channel() == self.the_error_channel()
    //@ fn src/logger.rs impl Logger / fn format_for_stderr
    //@   ret r
    //@   props C20
    //@   rule R10b 1
    //@   ens[Logger::format_for_stderr.post] r.formats() == (self.fmt_file(), format_function, self.fmt_out(), self.fmt_writer()) && r.rest() == self.rest() && r.the_target() == self.the_target() && r.dups() == self.dups() && r.the_error_channel() == self.the_error_channel()
    //@ fn src/logger.rs impl Logger / fn format_for_stdout
    //@   ret r
    //@   props C20
    //@   rule R10b 1
    //@   ens[Logger::format_for_stdout.post] r.formats() == (self.fmt_file(), self.fmt_err(), format_function, self.fmt_writer()) && r.rest() == self.rest() && r.the_target() == self.the_target() && r.dups() == self.dups() && r.the_error_channel() == self.the_error_channel()
    //@ fn src/logger.rs impl Logger / fn format_for_writer
    //@   ret r
    //@   props C20
    //@   rule R10b 1
    //@   ens[Logger::format_for_writer.post] r.formats() == (self.fmt_file(), self.fmt_err(), self.fmt_out(), format) && r.rest() == self.rest() && r.the_target() == self.the_target() && r.dups() == self.dups() && r.the_error_channel() == self.the_error_channel()
    //@ fn src/logger.rs impl Logger / fn duplicate_to_stderr
    //@   ret r
    //@   props C13
    //@   rule R10b 1
    //@   ens[Logger::duplicate_to_stderr.post] r.dups() == (dup, self.dups().1) && r.formats() == self.formats() && r.rest() == self.rest() && r.the_target() == self.the_target() && r.the_error_channel() == self.the_error_channel()
    //@ fn src/logger.rs impl Logger / fn duplicate_to_stdout
    //@   ret r
    //@   props C13
    //@   rule R10b 1
    //@   ens[Logger::duplicate_to_stdout.post] r.dups() == (self.dups().0, dup) && r.formats() == self.formats() && r.rest() == self.rest() && r.the_target() == self.the_target() && r.the_error_channel() == self.the_error_channel()
    //@ fn src/logger.rs impl Logger / fn log_to_stderr
    //@   ret r
    //@   props C13
    //@   rule R10b 1
    //@   ens[Logger::log_to_stderr.post] r.the_target() is StdErr && r.dups() == self.dups() && r.formats() == self.formats() && r.rest() == self.rest() && r.the_error_channel() == self.the_error_channel()
    //@ fn src/logger.rs impl Logger / fn log_to_stdout
    //@   ret r
    //@   props C13
    //@   rule R10b 1
    //@   ens[Logger::log_to_stdout.post] r.the_target() is StdOut && r.dups() == self.dups() && r.formats() == self.formats() && r.rest() == self.rest() && r.the_error_channel() == self.the_error_channel()
    //@ fn src/logger.rs impl Logger / fn do_not_log
    //@   ret r
    //@   props C13
    //@   rule R10b 1
    //@   ens[Logger::do_not_log.post] r.is_multi_with(false, None) && r.dups() == self.dups() && r.formats() == self.formats() && r.rest() == self.rest() && r.the_error_channel() == self.the_error_channel()
    //@ fn src/logger.rs impl Logger / fn log_to_writer
    //@   ret r
    //@   props C13
    //@   rule R10b 1
    //@   ens[Logger::log_to_writer.post] r.is_multi_with(false, Some(w)) && r.dups() == self.dups() && r.formats() == self.formats() && r.rest() == self.rest() && r.the_error_channel() == self.the_error_channel()
        /// everything but the builder of the file writer and the flush interval
        pub closed spec fn frame_but_flwb(&self) -> (LogSpecification, HashMap<String, Box<dyn LogWriter>>, Option<Box<dyn LogLineFilter>>, bool, bool, (VFormatFn, VFormatFn, VFormatFn, VFormatFn), (Duplicate, Duplicate), ErrorChannel, std::time::Duration) {
            (self.spec, self.other_writers, self.filter, self.use_utc, self.panic_on_error_channel_error, self.formats(), self.dups(), self.error_channel, self.flush_interval)
        }
        pub closed spec fn frame_wm(&self) -> (LogSpecification, HashMap<String, Box<dyn LogWriter>>, Option<Box<dyn LogLineFilter>>, bool, bool, (VFormatFn, VFormatFn, VFormatFn, VFormatFn), (Duplicate, Duplicate), ErrorChannel, LogTarget) {
            (self.spec, self.other_writers, self.filter, self.use_utc, self.panic_on_error_channel_error, self.formats(), self.dups(), self.error_channel, self.log_target)
        }
        /// C10 (representation invariant of the Logger builder): the write mode kept for the writers never flushes on its
        /// own — `Logger::write_mode` stores `without_flushing()` and hands the interval to the flusher thread; every
        /// setter keeps it (`rest()` contains the builder); the std writers' constructor relies on it (no `unreachable!`)
        pub open spec fn inv(&self) -> bool { !own_flushing(self.the_flwb().mode) }
    //@ fn src/logger.rs impl Logger / fn log_to_file
    //@   ret r
    //@   props C16,C13
    //@   rule R10b 1
    //@   ens[Logger::log_to_file.post] r.the_flwb() == b_file_spec(self.the_flwb(), file_spec) && r.is_multi_with(true, None) && r.frame_but_flwb() == self.frame_but_flwb()
    //@   ens[Logger::log_to_file.post.inv] self.inv() ==> r.inv()
    //@ fn src/logger.rs impl Logger / fn log_to_file_and_writer
    //@   ret r
    //@   props C16,C13
    //@   rule R10b 1
    //@   ens[Logger::log_to_file_and_writer.post] r.the_flwb() == b_file_spec(self.the_flwb(), file_spec) && r.is_multi_with(true, Some(w)) && r.frame_but_flwb() == self.frame_but_flwb()
    //@   ens[Logger::log_to_file_and_writer.post.inv] self.inv() ==> r.inv()
    //@ fn src/logger.rs impl Logger / fn print_message
    //@   ret r
    //@   props C16
    //@   rule R10b 1
    //@   ens[Logger::print_message.post] r.the_flwb() == b_print_message(self.the_flwb(), true) && r.the_target() == self.the_target() && r.frame_but_flwb() == self.frame_but_flwb()
    //@   ens[Logger::print_message.post.inv] self.inv() ==> r.inv()
    //@ fn src/logger.rs impl Logger / fn o_print_message
    //@   ret r
    //@   props C16
    //@   rule R10b 1
    //@   ens[Logger::o_print_message.post] r.the_flwb() == b_print_message(self.the_flwb(), print_message) && r.the_target() == self.the_target() && r.frame_but_flwb() == self.frame_but_flwb()
    //@   ens[Logger::o_print_message.post.inv] self.inv() ==> r.inv()
    //@ fn src/logger.rs impl Logger / fn rotate
    //@   ret r
    //@   props C16,C07,C08
    //@   rule R10b 1
    //@   ens[Logger::rotate.post] r.the_flwb() == b_rotate(self.the_flwb(), Some((criterion, naming, cleanup))) && r.the_target() == self.the_target() && r.frame_but_flwb() == self.frame_but_flwb()
    //@   ens[Logger::rotate.post.inv] self.inv() ==> r.inv()
    //@ fn src/logger.rs impl Logger / fn o_rotate
    //@   ret r
    //@   props C16,C07,C08
    //@   rule R10b 1
    //@   ens[Logger::o_rotate.post] r.the_flwb() == b_rotate(self.the_flwb(), rotate_config) && r.the_target() == self.the_target() && r.frame_but_flwb() == self.frame_but_flwb()
    //@   ens[Logger::o_rotate.post.inv] self.inv() ==> r.inv()
    //@ fn src/logger.rs impl Logger / fn append
    //@   ret r
    //@   props C06
    //@   rule R10b 1
    //@   ens[Logger::append.post] r.the_flwb() == b_append(self.the_flwb(), true) && r.the_target() == self.the_target() && r.frame_but_flwb() == self.frame_but_flwb()
    //@   ens[Logger::append.post.inv] self.inv() ==> r.inv()
    //@ fn src/logger.rs impl Logger / fn o_append
    //@   ret r
    //@   props C06
    //@   rule R10b 1
    //@   ens[Logger::o_append.post] r.the_flwb() == b_append(self.the_flwb(), append) && r.the_target() == self.the_target() && r.frame_but_flwb() == self.frame_but_flwb()
    //@   ens[Logger::o_append.post.inv] self.inv() ==> r.inv()
    //@ fn src/logger.rs impl Logger / fn create_symlink
    //@   ret r
    //@   props C16
    //@   rule R10b 1
    //@   ens[Logger::create_symlink.post] r.the_flwb() == b_symlink::<P>(self.the_flwb(), Some(symlink)) && r.the_target() == self.the_target() && r.frame_but_flwb() == self.frame_but_flwb()
    //@   ens[Logger::create_symlink.post.inv] self.inv() ==> r.inv()
    //@ fn src/logger.rs impl Logger / fn o_create_symlink
    //@   ret r
    //@   props C16
    //@   rule R10b 1
    //@   ens[Logger::o_create_symlink.post] r.the_flwb() == b_symlink::<P>(self.the_flwb(), symlink) && r.the_target() == self.the_target() && r.frame_but_flwb() == self.frame_but_flwb()
    //@   ens[Logger::o_create_symlink.post.inv] self.inv() ==> r.inv()
    //@ fn src/logger.rs impl Logger / fn use_windows_line_ending
    //@   ret r
    //@   props C20
    //@   rule R10b 1
    //@   ens[Logger::use_windows_line_ending.post] r.the_flwb() == b_crlf(self.the_flwb()) && r.the_target() == self.the_target() && r.frame_but_flwb() == self.frame_but_flwb()
    //@   ens[Logger::use_windows_line_ending.post.inv] self.inv() ==> r.inv()
    //@ fn src/logger.rs impl Logger / fn cleanup_in_background_thread
    //@   ret r
    //@   props C07
    //@   rule R10b 1
    //@   ens[Logger::cleanup_in_background_thread.post] r.the_flwb() == b_bg(self.the_flwb(), use_background_thread) && r.the_target() == self.the_target() && r.frame_but_flwb() == self.frame_but_flwb()
    //@   ens[Logger::cleanup_in_background_thread.post.inv] self.inv() ==> r.inv()
    //@ fn src/logger.rs impl Logger / fn write_mode
    //@   ret r
    //@   props C04,C15,C10
    //@   rule R10b 1
    //@   ens[Logger::write_mode.post.writers] r.the_flwb().mode == wf_of(write_mode) && r.the_flwb().fmt == self.the_flwb().fmt && r.the_flwb().rest == self.the_flwb().rest
    //@   ens[Logger::write_mode.post.flusher] r.the_flush_interval() == interval_of(write_mode)
    //@   ens[Logger::write_mode.post.frame] r.frame_wm() == self.frame_wm()
    //@   ens[Logger::write_mode.post.inv] r.inv()
    //@ fn src/logger.rs impl Logger / fn use_utc
    //@   ret r
    //@   props C09,C20
    //@   rule R10b 1
    //@   ens[Logger::use_utc.post] r.the_use_utc() && r.the_flwb() == self.the_flwb() && r.the_target() == self.the_target() && r.formats() == self.formats() && r.dups() == self.dups() && r.the_error_channel() == self.the_error_channel() && r.the_flush_interval() == self.the_flush_interval() && r.the_spec() == self.the_spec()
    //@ fn src/logger.rs impl Logger / fn error_channel
    //@   ret r
    //@   props C19
    //@   rule R10b 1
    //@   ens[Logger::error_channel.post] r.the_error_channel() == error_channel && r.the_target() == self.the_target() && r.dups() == self.dups() && r.formats() == self.formats() && r.rest() == self.rest()

        /// first half of Logger::build: the primary writer is made from the configured target, format functions, write
        /// mode and duplication levels
        fn build_primary(self) -> (r: Result<Arc<PrimaryWriter>, FlexiLoggerError>)
            requires
                self.inv(),
                forall|out: bool, f: VFormatFn, m: WriteMode| #[trigger] pw_std_ok(out, f, m) <==> (!self.capture() && m == self.the_flwb().mode
                    && ((self.the_target() is StdOut && out && f == self.fmt_out()) || (self.the_target() is StdErr && !out && f == self.fmt_err()))),
                forall|out: bool, f: VFormatFn| #[trigger] pw_test_ok(out, f) <==> (self.capture()
                    && ((self.the_target() is StdOut && out && f == self.fmt_out()) || (self.the_target() is StdErr && !out && f == self.fmt_err()))),
                forall|de: Duplicate, dout: Duplicate, sc: bool, fe: VFormatFn, fo: VFormatFn, fw: Option<Box<FileLogWriter>>, ow: Option<Box<dyn LogWriter>>|
                    #[trigger] pw_multi_ok(de, dout, sc, fe, fo, fw, ow) <==> (self.the_target() is Multi && (de, dout) == self.dups() && sc == self.capture()
                        && fe == self.fmt_err() && fo == self.fmt_out()
                        && (fw is Some) == self.the_target()->Multi_0
                        && (fw is Some ==> fw->Some_0.fmt == self.fmt_file() && fw->Some_0.mode == self.the_flwb().mode && fw->Some_0.from == self.the_flwb().rest)
                        && (ow is Some) == (self.the_target()->Multi_1 is Some)
                        && (ow is Some ==> ow_formatted(self.fmt_writer()))),
        {
    //@ span src/logger.rs impl Logger / fn build
    //@   from let a_primary_writer = Arc::new(match self.log_target
    //@   uptosemi let a_primary_writer = Arc::new(match self.log_target
    //@   rename build_primary
            Ok(a_primary_writer)
        }

        /// second half of Logger::build
        pub fn build_tail(self, a_primary_writer: Arc<PrimaryWriter>) -> (r: Result<(FlexiLogger, LoggerHandle), FlexiLoggerError>)
            requires
                // C02: the facade's level gate is set from the maximum level of the initial specification
                forall|l: log::LevelFilter| #[trigger] reconf_ok(l) <==> l == spec_max(&self.the_spec()),
                forall|c: ErrorChannel| #[trigger] ec_ok(c) <==> c == self.the_error_channel(),
                forall|d: std::time::Duration| #[trigger] flusher_ok(d) <==> (d == self.the_flush_interval() && d != zero_duration()),
                force_utc_ok() <==> self.the_use_utc(),
            ensures
                r is Ok ==> reconfigured(spec_max(&self.the_spec())), //@label build_tail.post.reconfigured C02
                r is Ok && self.the_flush_interval() != zero_duration() ==> flusher_started(), //@label build_tail.post.flusher C04
                r is Ok ==> ec_set(self.the_error_channel()), //@label build_tail.post.error_channel C19
                r is Ok && self.the_use_utc() ==> utc_forced(), //@label build_tail.post.utc C20
                // logger and handle share one specification lock, which holds the initial specification, and the writers
                r is Ok ==> r->Ok_0.0.log_specification == r->Ok_0.1.spec && *lock_content(&*r->Ok_0.1.spec) == self.the_spec(), //@label build_tail.post.shared_spec C05,C02
                r is Ok ==> r->Ok_0.0.primary_writer == a_primary_writer && r->Ok_0.1.primary_writer == a_primary_writer, //@label build_tail.post.primary C13
                r is Ok ==> r->Ok_0.0.other_writers == r->Ok_0.1.other_writers && *r->Ok_0.0.other_writers == self.the_other_writers(), //@label build_tail.post.writers C13
                r is Ok ==> r->Ok_0.0.filter == self.the_filter(), //@label build_tail.post.filter C02
        {
    //@ span src/logger.rs impl Logger / fn build
    //@   from let a_other_writers = Arc::new(self.other_writers);
    //@   before Ok((Box::new(flexi_logger), handle))
    //@   rename build_tail
            Ok((flexi_logger, handle))
        }
    }
}
}
fn main() {}

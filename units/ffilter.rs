#![feature(pattern)]
#![allow(unused_imports, dead_code, unused_variables, unused_mut, unreachable_code, unused_parens)]
// Unit `ffilter` (C14, C07, C06, C16, C10): the two filter closures of FileSpec::filter_files (src/parameters/file_spec.rs)
// — which directory entries count as files of the logger's own family: the configured suffix, and a stem of the form
// [fixed name part + '_'] + infix [+ '.' + anything] with an infix the active naming scheme accepts. For every file name
// (UTF-8 model of byte offsets as in unit `infix`), not a catalogue. The closure bodies are copied as the bodies of the
// wrapper functions below (`blocknth` spans); not verified: the iterator chain around them (`iter().filter(..).filter(..)
// .map(PathBuf::clone).collect()`) — each closure decides one entry independently of the others.
use vstd::prelude::*;
verus! {
//@ include prelude/types.rs
//@ include prelude/strings.rs
//@ include prelude/combinators.rs

#[verifier::external_type_specification]
#[verifier::external_body]
pub struct ExOsStr(std::ffi::OsStr);
pub uninterp spec fn pathbuf_path(p: &std::path::PathBuf) -> &std::path::Path;
pub assume_specification[ <std::path::PathBuf as core::ops::Deref>::deref ](p: &std::path::PathBuf) -> (r: &std::path::Path)
    ensures r == pathbuf_path(p);
/// oracles for the text of a path's file stem / extension (std::path; lossy conversion included)
pub uninterp spec fn stem_text(p: &std::path::Path) -> Option<Seq<char>>;
pub uninterp spec fn ext_text(p: &std::path::Path) -> Option<Seq<char>>;
pub uninterp spec fn osstr_text(s: &std::ffi::OsStr) -> Seq<char>;
pub uninterp spec fn cow_text(c: std::borrow::Cow<'_, str>) -> Seq<char>;
pub assume_specification[ std::path::Path::file_stem ](p: &std::path::Path) -> (r: Option<&std::ffi::OsStr>)
    ensures (r is Some) == (stem_text(p) is Some), r is Some ==> osstr_text(r->Some_0) == stem_text(p)->Some_0;
pub assume_specification[ std::path::Path::extension ](p: &std::path::Path) -> (r: Option<&std::ffi::OsStr>)
    ensures (r is Some) == (ext_text(p) is Some), r is Some ==> osstr_text(r->Some_0) == ext_text(p)->Some_0;
pub uninterp spec fn file_name_text(p: &std::path::Path) -> Option<Seq<char>>;
pub assume_specification[ std::path::Path::file_name ](p: &std::path::Path) -> (r: Option<&std::ffi::OsStr>)
    ensures (r is Some) == (file_name_text(p) is Some), r is Some ==> osstr_text(r->Some_0) == file_name_text(p)->Some_0;
pub assume_specification[ std::ffi::OsStr::to_string_lossy ](s: &std::ffi::OsStr) -> (r: std::borrow::Cow<'_, str>)
    ensures cow_text(r) == osstr_text(s);
/// R29 SHIM for `cow == text` (`impl PartialEq<&str> for Cow<str>`: its signature has lifetime binders assume_specification cannot match)
#[verifier::external_body]
pub fn vcow_eq(a: &std::borrow::Cow<'_, str>, b: &str) -> (r: bool)
    ensures r == (cow_text(*a) == b@)
{ a == b }
pub uninterp spec fn cow_deref<'a, 'b, B: ?Sized + ToOwned>(c: &'b std::borrow::Cow<'a, B>) -> &'b B;
pub assume_specification<'a, 'b, B: ?Sized + ToOwned>[ <std::borrow::Cow<'a, B> as core::ops::Deref>::deref ](c: &'b std::borrow::Cow<'a, B>) -> (r: &'b B)
    ensures r == cow_deref(c);
pub broadcast axiom fn ax_cow_deref_str<'a>(c: &std::borrow::Cow<'a, str>)
    ensures (#[trigger] cow_deref::<str>(c))@ == cow_text(*c);

//@ include prelude/utf8.rs

/// stripping a concatenated prefix is stripping its two parts one after the other (so that an equivalent way of writing the
/// code - `strip_prefix(fixed + "_")` - verifies as well)
pub broadcast proof fn lemma_strip_concat(s: Seq<char>, a: Seq<char>, b: Seq<char>)
    ensures #[trigger] strip_prefix_spec(s, a + b) == (match strip_prefix_spec(s, a) { Some(r) => strip_prefix_spec(r, b), None => None }),
{
    let ab = a + b;
    if is_prefix_chars(ab, s) {
        assert forall|i: int| 0 <= i < a.len() implies a[i] == s[i] by { assert(ab[i] == a[i]); }
        let r = s.subrange(a.len() as int, s.len() as int);
        assert forall|i: int| 0 <= i < b.len() implies b[i] == r[i] by { assert(ab[a.len() + i] == b[i]); }
        assert(s.subrange(ab.len() as int, s.len() as int) =~= r.subrange(b.len() as int, r.len() as int));
    } else if is_prefix_chars(a, s) {
        let r = s.subrange(a.len() as int, s.len() as int);
        if is_prefix_chars(b, r) {
            assert forall|i: int| 0 <= i < ab.len() implies ab[i] == s[i] by {
                if i < a.len() { assert(ab[i] == a[i]); } else { assert(ab[i] == b[i - a.len()]); assert(r[i - a.len()] == s[i]); }
            }
        }
    }
}

/// the order of paths (`Ord for PathBuf`: component-wise comparison, an oracle here; total, see `ax_path_total`)
pub uninterp spec fn path_le(a: &std::path::PathBuf, b: &std::path::PathBuf) -> bool;
pub open spec fn sorted_asc(s: Seq<std::path::PathBuf>) -> bool { forall|i: int, j: int| 0 <= i <= j < s.len() ==> path_le(&#[trigger] s[i], &#[trigger] s[j]) }
/// `<[PathBuf]>::sort_unstable()`: an ascending permutation (trusted, like the `sort_by` specification of unit `spec`)
#[verifier::external_body]
pub fn vsort_unstable(v: &mut Vec<std::path::PathBuf>)
    ensures sorted_asc(final(v)@), final(v)@.to_multiset() == old(v)@.to_multiset()
{ v.sort_unstable() }
/// `<[T]>::reverse()`
#[verifier::external_body]
pub fn vreverse(v: &mut Vec<std::path::PathBuf>)
    ensures final(v)@ == old(v)@.reverse(), final(v)@.to_multiset() == old(v)@.to_multiset()
{ v.reverse() }

pub mod infix_filter {
    use super::*;
    //@ opaque src/writers/file_log_writer/infix_filter.rs enum InfixFilter
    //@   dropattr #[derive
    /// which infix the active naming scheme accepts as one of its own: defined and proved for filter_infix in unit `infix`
    pub uninterp spec fn accepts(f: &InfixFilter, infix: Seq<char>) -> bool;
    impl InfixFilter {
    //@ sig src/writers/file_log_writer/infix_filter.rs impl InfixFilter / fn filter_infix
    //@   ret r
    //@   ens r == accepts(self, infix@)
    }
}

pub mod file_spec {
    use super::*;
    use super::infix_filter::{InfixFilter, accepts};
    use std::path::{Path, PathBuf};
    broadcast use group_pat_seq, ax_cow_deref_str, lemma_first_pos, lemma_strip_concat;

    /// the text before the first '.', or all of it
    pub open spec fn upto_dot(s: Seq<char>) -> Seq<char> { s.subrange(0, first_pos(s, '.')) }
    /// what follows the fixed name part and its separator in a stem of the family
    pub open spec fn after_fixed(fixed: Seq<char>, stem: Seq<char>) -> Option<Seq<char>> {
        if fixed.len() == 0 { Some(stem) } else {
            match strip_prefix_spec(stem, fixed) { Some(rest) => strip_prefix_spec(rest, seq!['_']), None => None }
        }
    }
    /// C14: the stem belongs to the family: [fixed name part + '_'] + non-empty rest whose part before the first '.' is an infix
    /// of the active naming scheme
    pub open spec fn stem_in_family(fixed: Seq<char>, stem: Seq<char>, f: &InfixFilter) -> bool {
        match after_fixed(fixed, stem) { Some(rest) => rest.len() > 0 && accepts(f, upto_dot(rest)), None => false }
    }
    /// the same as a pattern: stem == [fixed + "_"] + infix + tail, infix accepted and without '.', tail empty or starting with '.'
    pub open spec fn family_split(fixed: Seq<char>, stem: Seq<char>, f: &InfixFilter, infix: Seq<char>, tail: Seq<char>) -> bool {
        stem == (if fixed.len() == 0 { Seq::<char>::empty() } else { fixed + seq!['_'] }) + infix + tail
        && infix.len() + tail.len() > 0
        && accepts(f, infix) && (tail.len() == 0 || tail[0] == '.') && (forall|i: int| 0 <= i < infix.len() ==> infix[i] != '.')
    }
    pub proof fn lemma_family_pattern(fixed: Seq<char>, stem: Seq<char>, f: &InfixFilter)
        requires stem_in_family(fixed, stem, f),
        ensures exists|infix: Seq<char>, tail: Seq<char>| #[trigger] family_split(fixed, stem, f, infix, tail),
    {
        let rest = after_fixed(fixed, stem)->Some_0;
        lemma_first_pos(rest, '.');
        let infix = upto_dot(rest);
        let tail = rest.subrange(first_pos(rest, '.'), rest.len() as int);
        assert(rest =~= infix + tail);
        if fixed.len() == 0 {
            assert(stem =~= Seq::<char>::empty() + infix + tail);
        } else {
            let r1 = strip_prefix_spec(stem, fixed)->Some_0;
            assert(stem =~= fixed + r1);
            assert(r1 =~= seq!['_'] + rest);
            assert(stem =~= fixed + seq!['_'] + infix + tail);
        }
        assert(family_split(fixed, stem, f, infix, tail));
    }
    /// and back: every stem of that pattern is accepted
    pub proof fn lemma_pattern_family(fixed: Seq<char>, stem: Seq<char>, f: &InfixFilter, infix: Seq<char>, tail: Seq<char>)
        requires family_split(fixed, stem, f, infix, tail),
        ensures stem_in_family(fixed, stem, f),
    {
        let rest = infix + tail;
        lemma_first_pos(rest, '.');
        // the first '.' of infix + tail is where the tail starts
        assert(first_pos(rest, '.') == infix.len()) by {
            if first_pos(rest, '.') < infix.len() { assert(rest[first_pos(rest, '.')] == infix[first_pos(rest, '.')]); }
            if first_pos(rest, '.') > infix.len() { assert(rest[infix.len() as int] == tail[0]); }
        }
        assert(upto_dot(rest) =~= infix);
        if fixed.len() == 0 {
            assert(stem =~= rest);
        } else {
            let pre = fixed + seq!['_'];
            assert(stem =~= pre + rest);
            assert(is_prefix_chars(fixed, stem));
            let r1 = stem.subrange(fixed.len() as int, stem.len() as int);
            assert(r1 =~= seq!['_'] + rest);
            assert(is_prefix_chars(seq!['_'], r1));
            assert(r1.subrange(1, r1.len() as int) =~= rest);
        }
    }

    /// the name filter of read_dir_related_files: the file name starts with the fixed name part (entries without a file name are dropped)
    pub(crate) fn name_has_fixed_part(path: &PathBuf, fixed_name_part: String) -> (r: bool)
        ensures
            r == (file_name_text(pathbuf_path(path)) is Some && is_prefix_chars(fixed_name_part@, file_name_text(pathbuf_path(path))->Some_0)), //@label read_dir_related_files.name.post C14,C16
    //@ span src/parameters/file_spec.rs impl FileSpec / fn read_dir_related_files
    //@   blocknth 1/1 .filter(|path|
    //@   rename name_has_fixed_part

    /// the last two statements of read_dir_related_files: the listing is handed on in DESCENDING path order ("newest first" for names
    /// whose order is their age: zero-padded numbers, year-first time stamps - premise A5 / finding F10), nothing added, nothing lost
    pub(crate) fn sort_newest_first(log_files_in: Vec<PathBuf>) -> (r: Vec<PathBuf>)
        ensures
            forall|i: int, j: int| 0 <= i <= j < r@.len() ==> path_le(&#[trigger] r@[j], &#[trigger] r@[i]), //@label read_dir_related_files.order.post C07,C06,C16
            r@.to_multiset() == log_files_in@.to_multiset(), //@label read_dir_related_files.order.permutation C07,C14
        {
            let mut log_files = log_files_in;
    //@ span src/parameters/file_spec.rs impl FileSpec / fn read_dir_related_files
    //@   from log_files.
    //@   toend
    //@   rename sort_newest_first
    //@   rule R45 *
        }

    /// first filter closure of filter_files: the configured suffix. From the property statement (`..[.suffix]`): the file NAME ends with
    /// '.' + suffix - the suffix may contain dots itself ("trc.log"), which is why `Path::extension` is not the right question (defect F18)
    pub open spec fn name_has_suffix(name: Seq<char>, suffix: Seq<char>) -> bool {
        // the name ends with the suffix, and what precedes the suffix ends with '.'
        match strip_suffix_spec(name, suffix) { Some(rest) => is_suffix_chars(seq!['.'], rest), None => false }
    }
    pub(crate) fn suffix_matches(path: &&PathBuf, o_suffix: Option<&str>) -> (r: bool)
        ensures
            r == match o_suffix { Some(suffix) => file_name_text(pathbuf_path(*path)) is Some && name_has_suffix(file_name_text(pathbuf_path(*path))->Some_0, suffix@), None => true }, //@label filter_files.suffix.post C14,C07,C06,C16
    //@ span src/parameters/file_spec.rs impl FileSpec / fn filter_files
    //@   blocknth 1/2 .filter(|path|
    //@   rename suffix_matches
    //@   rule R29 *
    //@   closure ~s.strip_suffix(suffix) ## sig |name: &std::ffi::OsStr| -> (r: bool)
    //@   closure ~s.strip_suffix(suffix) ## ens r == name_has_suffix(osstr_text(name), suffix@)
    //@   closure ~rest.ends_with('.') ## sig |rest: &str| -> (r: bool)
    //@   closure ~rest.ends_with('.') ## ens r == is_suffix_chars(seq!['.'], rest@)

    /// second filter closure of filter_files: the stem
    pub(crate) fn stem_matches(path: &&PathBuf, fixed_name_part: &String, infix_filter: &InfixFilter) -> (r: bool)
        requires
            // the entries come from read_dir: they have a file name (the code says "CANNOT FAIL")
            stem_text(pathbuf_path(*path)) is Some,
        ensures
            r == stem_in_family(fixed_name_part@, stem_text(pathbuf_path(*path))->Some_0, infix_filter), //@label filter_files.stem.post C14,C07,C06,C16,C01
        {
            // (wrapper, not copied code) the separator as a string literal is the same text as the character
            proof { reveal_strlit("_"); assert("_"@ =~= seq!['_']); }
    //@ span src/parameters/file_spec.rs impl FileSpec / fn filter_files
    //@   blocknth 2/2 .filter(|path|
    //@   rename stem_matches
    //@   rule R25 *
    //@   rule R28 *
    //@   rule R41 *
    //@   closure ~rest.strip_prefix('_') ## sig |rest: &str| -> (r: Option<&str>)
    //@   closure ~rest.strip_prefix('_') ## ens opt_str_view(r) == strip_prefix_spec(rest@, seq!['_'])
        }
}
}
fn main() {}

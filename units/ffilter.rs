#![feature(pattern)]
#![allow(unused_imports, dead_code, unused_variables, unused_mut, unreachable_code, unused_parens)]
// Unit `ffilter` (C14, C07, C06, C16, C10): the two filter closures of FileSpec::filter_files (src/parameters/file_spec.rs)
// — which directory entries count as files of the logger's own family: the configured suffix, and a stem of the form
// [fixed name part + '_'] + infix [+ '.' + anything] with an infix the active naming scheme accepts. For every file name
// (UTF-8 model of byte offsets as in unit `infix`), not a catalogue. The closure bodies are copied as the bodies of the
// wrapper functions below (`blocknth` spans); not verified: the iterator chain around them (`iter().filter(..).filter(..)
// .map(PathBuf::clone).collect()`) — each closure decides one entry independently of the others.
use vstd::prelude::*;
verus! {
//@ include prelude/types.rs
//@ include prelude/strings.rs
//@ include prelude/combinators.rs

#[verifier::external_type_specification]
#[verifier::external_body]
pub struct ExOsStr(std::ffi::OsStr);
pub uninterp spec fn pathbuf_path(p: &std::path::PathBuf) -> &std::path::Path;
pub assume_specification[ <std::path::PathBuf as core::ops::Deref>::deref ](p: &std::path::PathBuf) -> (r: &std::path::Path)
    ensures r == pathbuf_path(p);
/// oracles for the text of a path's file stem / extension (std::path; lossy conversion included)
pub uninterp spec fn stem_text(p: &std::path::Path) -> Option<Seq<char>>;
pub uninterp spec fn ext_text(p: &std::path::Path) -> Option<Seq<char>>;
pub uninterp spec fn osstr_text(s: &std::ffi::OsStr) -> Seq<char>;
pub uninterp spec fn cow_text(c: std::borrow::Cow<'_, str>) -> Seq<char>;
pub assume_specification[ std::path::Path::file_stem ](p: &std::path::Path) -> (r: Option<&std::ffi::OsStr>)
    ensures (r is Some) == (stem_text(p) is Some), r is Some ==> osstr_text(r->Some_0) == stem_text(p)->Some_0;
pub assume_specification[ std::path::Path::extension ](p: &std::path::Path) -> (r: Option<&std::ffi::OsStr>)
    ensures (r is Some) == (ext_text(p) is Some), r is Some ==> osstr_text(r->Some_0) == ext_text(p)->Some_0;
pub assume_specification[ std::ffi::OsStr::to_string_lossy ](s: &std::ffi::OsStr) -> (r: std::borrow::Cow<'_, str>)
    ensures cow_text(r) == osstr_text(s);
/// R29 SHIM for `cow == text` (`impl PartialEq<&str> for Cow<str>`: its signature has lifetime binders assume_specification cannot match)
#[verifier::external_body]
pub fn vcow_eq(a: &std::borrow::Cow<'_, str>, b: &str) -> (r: bool)
    ensures r == (cow_text(*a) == b@)
{ a == b }
pub uninterp spec fn cow_deref<'a, 'b, B: ?Sized + ToOwned>(c: &'b std::borrow::Cow<'a, B>) -> &'b B;
pub assume_specification<'a, 'b, B: ?Sized + ToOwned>[ <std::borrow::Cow<'a, B> as core::ops::Deref>::deref ](c: &'b std::borrow::Cow<'a, B>) -> (r: &'b B)
    ensures r == cow_deref(c);
pub broadcast axiom fn ax_cow_deref_str<'a>(c: &std::borrow::Cow<'a, str>)
    ensures (#[trigger] cow_deref::<str>(c))@ == cow_text(*c);

/// UTF-8 (as in unit `infix`): the length of a string in bytes is the sum of the widths of its characters
pub uninterp spec fn byte_len(s: Seq<char>) -> nat;
pub uninterp spec fn utf8_width(c: char) -> nat;
pub broadcast axiom fn ax_byte_len_empty(s: Seq<char>)
    requires s.len() == 0,
    ensures #[trigger] byte_len(s) == 0;
pub broadcast axiom fn ax_byte_len_step(s: Seq<char>)
    requires s.len() > 0,
    ensures #[trigger] byte_len(s) == utf8_width(s[0]) + byte_len(s.subrange(1, s.len() as int));
pub broadcast axiom fn ax_utf8_width(c: char)
    ensures 1 <= #[trigger] utf8_width(c) <= 4, (c as u32) < 128 ==> utf8_width(c) == 1;
/// byte offset of the character position k
pub open spec fn offset_of(s: Seq<char>, k: int) -> nat { byte_len(s.subrange(0, k)) }
/// position of the first occurrence of c, or the length
pub open spec fn first_pos(s: Seq<char>, c: char) -> int
    decreases s.len()
{
    if s.len() == 0 { 0 } else if s[0] == c { 0 } else { 1 + first_pos(s.subrange(1, s.len() as int), c) }
}
pub broadcast proof fn lemma_first_pos(s: Seq<char>, c: char)
    ensures 0 <= #[trigger] first_pos(s, c) <= s.len(),
        forall|i: int| 0 <= i < first_pos(s, c) ==> s[i] != c,
        first_pos(s, c) < s.len() ==> s[first_pos(s, c)] == c,
    decreases s.len()
{
    if s.len() > 0 && s[0] != c {
        let t = s.subrange(1, s.len() as int);
        lemma_first_pos(t, c);
        assert forall|i: int| 0 <= i < first_pos(s, c) implies s[i] != c by {
            if i > 0 { assert(s[i] == t[i - 1]); }
        }
        if first_pos(s, c) < s.len() { assert(s[first_pos(s, c)] == t[first_pos(t, c)]); }
    }
}
/// R25 SHIM for `str::len()`
pub trait VLen { fn vlen(&self) -> usize; }
impl VLen for str {
    #[verifier::external_body]
    fn vlen(&self) -> (r: usize)
        ensures r == byte_len(self@), r == offset_of(self@, self@.len() as int)
    { self.len() }
}
impl VLen for String {
    #[verifier::external_body]
    fn vlen(&self) -> (r: usize)
        ensures r == byte_len(self@), r == offset_of(self@, self@.len() as int)
    { self.len() }
}
/// R28 SHIMS: `s.find(c)` -> `s.vfind(c)`: the byte offset of the first occurrence; `&s[..end]` -> `s.vslice_to(end)`: the text
/// before a byte offset, which must be a character boundary (the panic of str slicing is the precondition, C10);
/// `&cow[..]` -> `vfull(&cow)`: the whole text
pub open spec fn boundary(s: Seq<char>, end: nat) -> bool { exists|k: int| 0 <= k <= s.len() && #[trigger] offset_of(s, k) == end }
pub trait VFind: vstd::view::View<V = Seq<char>> {
    fn vfind(&self, c: char) -> (r: Option<usize>)
        ensures
            r is None <==> first_pos(self@, c) == self@.len(),
            r is Some ==> r->Some_0 == offset_of(self@, first_pos(self@, c));
    fn vslice_to(&self, end: usize) -> (r: &str)
        requires
            boundary(self@, end as nat), //@label str_slice.char_boundary C10
        ensures
            // the text before the position whose offset is `end` (an offset identifies its position: lemma_offset_injective)
            forall|k: int| 0 <= k <= self@.len() && #[trigger] offset_of(self@, k) == end ==> r@ == self@.subrange(0, k);
    /// `s.get(start..)` (not used by the code as it is)
    fn vget_from(&self, start: usize) -> (r: Option<&str>)
        ensures
            r is Some <==> boundary(self@, start as nat),
            r is Some ==> forall|k: int| 0 <= k <= self@.len() && #[trigger] offset_of(self@, k) == start ==> (r->Some_0)@ == self@.subrange(k, self@.len() as int);
}
impl VFind for str {
    #[verifier::external_body]
    fn vfind(&self, c: char) -> (r: Option<usize>)
    { self.find(c) }
    #[verifier::external_body]
    fn vslice_to(&self, end: usize) -> (r: &str)
    { &self[..end] }
    #[verifier::external_body]
    fn vget_from(&self, start: usize) -> (r: Option<&str>)
    { self.get(start..) }
}
#[verifier::external_body]
pub fn vfull<'a>(c: &'a std::borrow::Cow<'a, str>) -> (r: &'a str)
    ensures r@ == cow_text(*c)
{ &c[..] }

/// offsets grow strictly with the position: an offset identifies its position
pub proof fn lemma_offset_step(s: Seq<char>, k: int)
    requires 0 <= k < s.len(),
    ensures offset_of(s, k + 1) == offset_of(s, k) + utf8_width(s[k]),
    decreases k
{
    broadcast use ax_byte_len_empty, ax_byte_len_step, ax_utf8_width;
    if k == 0 {
        assert(s.subrange(0, 1).subrange(1, 1).len() == 0);
        assert(s.subrange(0, 0).len() == 0);
        assert(s.subrange(0, 1)[0] == s[0]);
    } else {
        let t = s.subrange(1, s.len() as int);
        lemma_offset_step(t, k - 1);
        assert(s.subrange(0, k + 1).subrange(1, k + 1) =~= t.subrange(0, k));
        assert(s.subrange(0, k).subrange(1, k) =~= t.subrange(0, k - 1));
        assert(s.subrange(0, k + 1)[0] == s[0] && s.subrange(0, k)[0] == s[0]);
        assert(t[k - 1] == s[k]);
    }
}
pub proof fn lemma_offset_mono(s: Seq<char>, i: int, j: int)
    requires 0 <= i < j <= s.len(),
    ensures offset_of(s, i) < offset_of(s, j),
    decreases j - i
{
    broadcast use ax_utf8_width;
    lemma_offset_step(s, j - 1);
    if i < j - 1 { lemma_offset_mono(s, i, j - 1); }
}
pub proof fn lemma_offset_injective(s: Seq<char>, i: int, j: int)
    requires 0 <= i <= s.len(), 0 <= j <= s.len(), offset_of(s, i) == offset_of(s, j),
    ensures i == j,
{
    if i < j { lemma_offset_mono(s, i, j); }
    if j < i { lemma_offset_mono(s, j, i); }
}

pub mod infix_filter {
    use super::*;
    //@ opaque src/writers/file_log_writer/infix_filter.rs enum InfixFilter
    //@   dropattr #[derive
    /// which infix the active naming scheme accepts as one of its own: defined and proved for filter_infix in unit `infix`
    pub uninterp spec fn accepts(f: &InfixFilter, infix: Seq<char>) -> bool;
    impl InfixFilter {
    //@ sig src/writers/file_log_writer/infix_filter.rs impl InfixFilter / fn filter_infix
    //@   ret r
    //@   ens r == accepts(self, infix@)
    }
}

pub mod file_spec {
    use super::*;
    use super::infix_filter::{InfixFilter, accepts};
    use std::path::{Path, PathBuf};
    broadcast use group_pat_seq, ax_cow_deref_str, lemma_first_pos;

    /// the text before the first '.', or all of it
    pub open spec fn upto_dot(s: Seq<char>) -> Seq<char> { s.subrange(0, first_pos(s, '.')) }
    /// what follows the fixed name part and its separator in a stem of the family
    pub open spec fn after_fixed(fixed: Seq<char>, stem: Seq<char>) -> Option<Seq<char>> {
        if fixed.len() == 0 { Some(stem) } else {
            match strip_prefix_spec(stem, fixed) { Some(rest) => strip_prefix_spec(rest, seq!['_']), None => None }
        }
    }
    /// C14: the stem belongs to the family: [fixed name part + '_'] + non-empty rest whose part before the first '.' is an infix
    /// of the active naming scheme
    pub open spec fn stem_in_family(fixed: Seq<char>, stem: Seq<char>, f: &InfixFilter) -> bool {
        match after_fixed(fixed, stem) { Some(rest) => rest.len() > 0 && accepts(f, upto_dot(rest)), None => false }
    }
    /// the same as a pattern: stem == [fixed + "_"] + infix + tail, infix accepted and without '.', tail empty or starting with '.'
    pub open spec fn family_split(fixed: Seq<char>, stem: Seq<char>, f: &InfixFilter, infix: Seq<char>, tail: Seq<char>) -> bool {
        stem == (if fixed.len() == 0 { Seq::<char>::empty() } else { fixed + seq!['_'] }) + infix + tail
        && infix.len() + tail.len() > 0
        && accepts(f, infix) && (tail.len() == 0 || tail[0] == '.') && (forall|i: int| 0 <= i < infix.len() ==> infix[i] != '.')
    }
    pub proof fn lemma_family_pattern(fixed: Seq<char>, stem: Seq<char>, f: &InfixFilter)
        requires stem_in_family(fixed, stem, f),
        ensures exists|infix: Seq<char>, tail: Seq<char>| #[trigger] family_split(fixed, stem, f, infix, tail),
    {
        let rest = after_fixed(fixed, stem)->Some_0;
        lemma_first_pos(rest, '.');
        let infix = upto_dot(rest);
        let tail = rest.subrange(first_pos(rest, '.'), rest.len() as int);
        assert(rest =~= infix + tail);
        if fixed.len() == 0 {
            assert(stem =~= Seq::<char>::empty() + infix + tail);
        } else {
            let r1 = strip_prefix_spec(stem, fixed)->Some_0;
            assert(stem =~= fixed + r1);
            assert(r1 =~= seq!['_'] + rest);
            assert(stem =~= fixed + seq!['_'] + infix + tail);
        }
        assert(family_split(fixed, stem, f, infix, tail));
    }
    /// and back: every stem of that pattern is accepted
    pub proof fn lemma_pattern_family(fixed: Seq<char>, stem: Seq<char>, f: &InfixFilter, infix: Seq<char>, tail: Seq<char>)
        requires family_split(fixed, stem, f, infix, tail),
        ensures stem_in_family(fixed, stem, f),
    {
        let rest = infix + tail;
        lemma_first_pos(rest, '.');
        // the first '.' of infix + tail is where the tail starts
        assert(first_pos(rest, '.') == infix.len()) by {
            if first_pos(rest, '.') < infix.len() { assert(rest[first_pos(rest, '.')] == infix[first_pos(rest, '.')]); }
            if first_pos(rest, '.') > infix.len() { assert(rest[infix.len() as int] == tail[0]); }
        }
        assert(upto_dot(rest) =~= infix);
        if fixed.len() == 0 {
            assert(stem =~= rest);
        } else {
            let pre = fixed + seq!['_'];
            assert(stem =~= pre + rest);
            assert(is_prefix_chars(fixed, stem));
            let r1 = stem.subrange(fixed.len() as int, stem.len() as int);
            assert(r1 =~= seq!['_'] + rest);
            assert(is_prefix_chars(seq!['_'], r1));
            assert(r1.subrange(1, r1.len() as int) =~= rest);
        }
    }

    /// first filter closure of filter_files: the configured suffix
    pub(crate) fn suffix_matches(path: &&PathBuf, o_suffix: Option<&str>) -> (r: bool)
        ensures
            r == match o_suffix { Some(suffix) => ext_text(pathbuf_path(*path)) == Some(suffix@), None => true }, //@label filter_files.suffix.post C14,C07,C06,C16
    //@ span src/parameters/file_spec.rs impl FileSpec / fn filter_files
    //@   blocknth 1/2 .filter(|path|
    //@   rename suffix_matches
    //@   rule R29 *
    //@   closure ~s == suffix ## sig |ext: &std::ffi::OsStr| -> (r: bool)
    //@   closure ~s == suffix ## ens r == (osstr_text(ext) == suffix@)

    /// second filter closure of filter_files: the stem
    pub(crate) fn stem_matches(path: &&PathBuf, fixed_name_part: &String, infix_filter: &InfixFilter) -> (r: bool)
        requires
            // the entries come from read_dir: they have a file name (the code says "CANNOT FAIL")
            stem_text(pathbuf_path(*path)) is Some,
        ensures
            r == stem_in_family(fixed_name_part@, stem_text(pathbuf_path(*path))->Some_0, infix_filter), //@label filter_files.stem.post C14,C07,C06,C16,C01
    //@ span src/parameters/file_spec.rs impl FileSpec / fn filter_files
    //@   blocknth 2/2 .filter(|path|
    //@   rename stem_matches
    //@   rule R25 *
    //@   rule R28 *
    //@   closure ~rest.strip_prefix('_') ## sig |rest: &str| -> (r: Option<&str>)
    //@   closure ~rest.strip_prefix('_') ## ens opt_str_view(r) == strip_prefix_spec(rest@, seq!['_'])
}
}
fn main() {}

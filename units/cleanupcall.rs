#![allow(unused_imports, dead_code, unused_variables, unused_mut, unreachable_code, unused_parens)]
// Unit `cleanupcall` (C07): list_and_cleanup::remove_or_compress_too_old_logfiles (src/writers/file_log_writer/state/list_and_cleanup.rs) — the
// function State calls after every rotation: without a cleanup thread the cleanup (`.._impl`, proved in unit `cleanup`) runs at once, with exactly
// the arguments given, and its result is handed back ("immediately when cleanup runs synchronously"); with a cleanup thread exactly one `Act`
// message is sent to it and nothing is cleaned up in the calling thread. Unit `state` assumed this function's contract (`cleanup_result`).
use vstd::prelude::*;
verus! {
//@ include prelude/types.rs
//@ include prelude/combinators.rs

#[verifier::external_type_specification]
#[verifier::external_body]
#[verifier::reject_recursive_types(T)]
pub struct ExSender<T>(std::sync::mpsc::Sender<T>);
#[verifier::external_type_specification]
#[verifier::external_body]
#[verifier::reject_recursive_types(T)]
pub struct ExSendError<T>(std::sync::mpsc::SendError<T>);
#[verifier::external_type_specification]
#[verifier::external_body]
#[verifier::reject_recursive_types(T)]
pub struct ExJoinHandle<T>(std::thread::JoinHandle<T>);
/// permission / token fact for messages to the cleanup thread
pub uninterp spec fn send_ok<T>(m: T) -> bool;
pub uninterp spec fn sent<T>(m: T) -> bool;
pub assume_specification<T>[ std::sync::mpsc::Sender::<T>::send ](s: &std::sync::mpsc::Sender<T>, t: T) -> (r: Result<(), std::sync::mpsc::SendError<T>>)
    requires
        send_ok::<T>(t), //@label mpsc::Sender::send.perm C07
    ensures sent::<T>(t);

pub mod shims {
    use super::*;
    pub struct FileSpec { _o: () }
    pub struct InfixFilter { _o: () }
}
pub mod cleanup {
    use super::*;
    //@ item src/parameters/cleanup.rs enum Cleanup
    //@   dropattr #[derive
}
pub mod list_and_cleanup {
    use super::*;
    use super::shims::*;
    use super::cleanup::Cleanup;
    use std::thread::JoinHandle;

    //@ item src/writers/file_log_writer/state/list_and_cleanup.rs enum MessageToCleanupThread
    //@ item src/writers/file_log_writer/state/list_and_cleanup.rs struct CleanupThreadHandle

    /// (visibility: the message type is private) the `Act` message was sent / is the only message that may be sent, if any
    pub closed spec fn act_sent() -> bool { sent::<MessageToCleanupThread>(MessageToCleanupThread::Act) }
    pub closed spec fn only_act_may_be_sent(allowed: bool) -> bool { forall|m: MessageToCleanupThread| #[trigger] send_ok::<MessageToCleanupThread>(m) <==> (allowed && m is Act) }
    /// permission, token fact and result oracle of the synchronous cleanup (`.._impl`: unit `cleanup`)
    pub uninterp spec fn impl_ok(c: &Cleanup, fs: &FileSpec, f: &InfixFilter, direct: bool) -> bool;
    pub uninterp spec fn impl_called(c: &Cleanup, fs: &FileSpec, f: &InfixFilter, direct: bool) -> bool;
    pub uninterp spec fn impl_result(c: &Cleanup, fs: &FileSpec, f: &InfixFilter, direct: bool) -> Result<(), std::io::Error>;
    //@ sig src/writers/file_log_writer/state/list_and_cleanup.rs fn remove_or_compress_too_old_logfiles_impl
    //@   ret r
    //@   props C07
    //@   req[cleanup_impl.perm] impl_ok(cleanup_config, file_spec, infix_filter, writes_direct)
    //@   ens r == impl_result(cleanup_config, file_spec, infix_filter, writes_direct) && impl_called(cleanup_config, file_spec, infix_filter, writes_direct)

    /// the body of the cleanup thread's loop: every `Act` message runs the cleanup with the arguments the thread was started with
    pub(crate) fn cleanup_thread_step(cleanup: Cleanup, file_spec: FileSpec, infix_filter_cp: InfixFilter, writes_direct: bool)
        requires
            forall|c: &Cleanup, fs: &FileSpec, f: &InfixFilter, d: bool| #[trigger] impl_ok(c, fs, f, d) <==> (*c == cleanup && *fs == file_spec && *f == infix_filter_cp && d == writes_direct),
        ensures
            impl_called(&cleanup, &file_spec, &infix_filter_cp, writes_direct), //@label cleanup_thread.step.post C07
    //@ span src/writers/file_log_writer/state/list_and_cleanup.rs fn start_cleanup_thread
    //@   block while let Ok(MessageToCleanupThread::Act) = receiver.recv()
    //@   rename cleanup_thread_step

    //@ fn src/writers/file_log_writer/state/list_and_cleanup.rs fn remove_or_compress_too_old_logfiles
    //@   ret r
    //@   props C07
    //@   req[cleanup_call.pre.impl] forall|c: &Cleanup, fs: &FileSpec, f: &InfixFilter, d: bool| #[trigger] impl_ok(c, fs, f, d) <==> (o_cleanup_thread_handle is None && c == cleanup_config && fs == file_spec && f == infix_filter && d == writes_direct)
    //@   req[cleanup_call.pre.send] only_act_may_be_sent(o_cleanup_thread_handle is Some)
    //@   ens[cleanup_call.post.synchronous] o_cleanup_thread_handle is None ==> impl_called(cleanup_config, file_spec, infix_filter, writes_direct) && r == impl_result(cleanup_config, file_spec, infix_filter, writes_direct)
    //@   ens[cleanup_call.post.background] o_cleanup_thread_handle is Some ==> act_sent() && r is Ok
    //@   closure ~remove_or_compress_too_old_logfiles_impl ## sig || -> (r: Result<(), std::io::Error>)
    //@   closure ~remove_or_compress_too_old_logfiles_impl ## req impl_ok(cleanup_config, file_spec, infix_filter, writes_direct)
    //@   closure ~remove_or_compress_too_old_logfiles_impl ## ens r == impl_result(cleanup_config, file_spec, infix_filter, writes_direct) && impl_called(cleanup_config, file_spec, infix_filter, writes_direct)
    //@   closure ~MessageToCleanupThread::Act ## sig |cleanup_thread_handle: &&CleanupThreadHandle| -> (r: Result<(), std::io::Error>)
    //@   closure ~MessageToCleanupThread::Act ## req send_ok::<MessageToCleanupThread>(MessageToCleanupThread::Act)
    //@   closure ~MessageToCleanupThread::Act ## ens r is Ok && sent::<MessageToCleanupThread>(MessageToCleanupThread::Act)
    //@   canary
}
}
fn main() {}

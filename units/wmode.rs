#![allow(unused_imports, dead_code, unused_variables, unused_mut, unreachable_code, unused_parens)]
// Unit `wmode` (C04, C15, C10): WriteMode (src/write_mode.rs) — what a configured write mode means: its buffer capacity,
// its flush interval, and the split `Logger::write_mode` makes of it (the mode "without flushing" goes to the writers,
// the flush interval to the flusher thread). Run with the default features and with `async`.
use vstd::prelude::*;
verus! {
//@ include prelude/types.rs

/// the value of `Duration::from_secs(n)`; distinct numbers of seconds are distinct durations
pub uninterp spec fn dur_secs(secs: u64) -> std::time::Duration;
pub assume_specification[ std::time::Duration::from_secs ](secs: u64) -> (r: std::time::Duration)
    ensures r == dur_secs(secs);
pub broadcast axiom fn ax_dur_secs_injective(a: u64, b: u64)
    ensures #[trigger] dur_secs(a) == #[trigger] dur_secs(b) ==> a == b;

//@ item src/lib.rs const ZERO_DURATION
//@   props C04,C15
//@   execconst dur_secs(0)

pub mod write_mode {
    use super::*;
    use std::time::Duration;
    use super::ZERO_DURATION;
    broadcast use super::ax_dur_secs_injective;
    //@ item src/write_mode.rs const DEFAULT_BUFFER_CAPACITY
    //@ item src/write_mode.rs const DEFAULT_POOL_CAPA
    //@ item src/write_mode.rs const DEFAULT_MESSAGE_CAPA
    //@ item src/write_mode.rs const DEFAULT_FLUSH_INTERVAL
    //@   props C04
    //@   execconst dur_secs(1)
    //@ item src/write_mode.rs enum WriteMode
    //@   dropattr #[derive
    impl Clone for WriteMode { #[verifier::external_body] fn clone(&self) -> (r: WriteMode) ensures r == *self { unimplemented!() } }
    impl Copy for WriteMode {}
    //@ item src/write_mode.rs enum EffectiveWriteMode
    impl WriteMode {
        /// C15 / C04: the buffer capacity a mode stands for (None: unbuffered or asynchronous)
        pub open spec fn capacity(&self) -> Option<usize> {
            match self {
                WriteMode::BufferAndFlush | WriteMode::BufferDontFlush => Some(DEFAULT_BUFFER_CAPACITY),
                WriteMode::BufferAndFlushWith(n, _) => Some(*n),
                WriteMode::BufferDontFlushWith(n) => Some(*n),
                _ => None,
            }
        }
        pub open spec fn is_direct(&self) -> bool { self is Direct || self is SupportCapture }
        pub open spec fn flushes_itself(&self) -> bool { self is BufferAndFlush || self is BufferAndFlushWith }
        pub open spec fn is_buffer_dont_flush(&self) -> bool { self is BufferDontFlush || self is BufferDontFlushWith }
        /// C04: the interval in which a mode wants its output flushed (zero: never)
        pub open spec fn interval(&self) -> Duration {
            match self {
                WriteMode::Direct | WriteMode::SupportCapture | WriteMode::BufferDontFlush | WriteMode::BufferDontFlushWith(_) => dur_secs(0),
                WriteMode::BufferAndFlush => dur_secs(1),
                WriteMode::BufferAndFlushWith(_, d) => *d,
                #[cfg(feature = "async")]
                WriteMode::Async => dur_secs(1),
                #[cfg(feature = "async")]
                WriteMode::AsyncWith { flush_interval, .. } => *flush_interval,
            }
        }
        /// the capacities (pool, message) of the asynchronous modes
        pub open spec fn async_capas(&self) -> Option<(usize, usize)> {
            match self {
                #[cfg(feature = "async")]
                WriteMode::Async => Some((DEFAULT_POOL_CAPA, DEFAULT_MESSAGE_CAPA)),
                #[cfg(feature = "async")]
                WriteMode::AsyncWith { pool_capa, message_capa, .. } => Some((*pool_capa, *message_capa)),
                _ => None,
            }
        }
        /// C15: what a mode means for the bytes: unbuffered, buffered with a capacity, or asynchronous with two capacities
        pub open spec fn same_writing(&self, o: &WriteMode) -> bool {
            self.is_direct() == o.is_direct() && self.capacity() == o.capacity() && self.async_capas() == o.async_capas()
        }
    //@ fn src/write_mode.rs impl WriteMode / fn effective_write_mode
    //@   ret r
    //@   props C15,C04
    //@   ens[wmode.effective_write_mode.post] match r {
    //@       EffectiveWriteMode::Direct => self.is_direct(),
    //@       EffectiveWriteMode::BufferAndFlushWith(n) => Some(n) == self.capacity() && self.flushes_itself(),
    //@       EffectiveWriteMode::BufferDontFlushWith(n) => Some(n) == self.capacity() && self.is_buffer_dont_flush(),
    //@       #[cfg(feature = "async")]
    //@       EffectiveWriteMode::AsyncWith { pool_capa, message_capa, flush_interval } => Some((pool_capa, message_capa)) == self.async_capas() && flush_interval == self.interval(),
    //@   }
    //@ fn src/write_mode.rs impl WriteMode / fn without_flushing
    //@   ret r
    //@   props C15,C04,C10
    //@   ens[without_flushing.post.same_writing] r.same_writing(self) && (self is SupportCapture <==> r is SupportCapture)
    //@   ens[without_flushing.post.no_flushing] !r.flushes_itself() && r.interval() == dur_secs(0)
    //@ fn src/write_mode.rs impl WriteMode / fn buffersize
    //@   ret r
    //@   props C15
    //@   ens[wmode.buffersize.post] r == self.capacity()
    //@ fn src/write_mode.rs impl WriteMode / fn get_flush_interval
    //@   ret r
    //@   props C04
    //@   ens[get_flush_interval.post] r == self.interval()
    }
}
}
fn main() {}

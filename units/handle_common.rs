// shared by the handle_* units: opaque collaborators of LoggerHandle / WritersHandle
//@ include prelude/logcrate.rs
//@ include prelude/sync.rs
//@ include prelude/combinators.rs

pub assume_specification<T>[ core::mem::replace ](dest: &mut T, src: T) -> (r: T)
    ensures *final(dest) == src, r == *old(dest);

pub mod flexi_error {
    use super::*;
    /// SHIM (trusted): reduced FlexiLoggerError (see units/state.rs)
    pub enum FlexiLoggerError { Reset, NoFileLogger, Poison, Parse(String, super::log_specification::LogSpecification), Other }
}
pub mod util {
    use super::*;
    //@ item src/util.rs enum ErrorCode
    pub trait VErr {}
    impl VErr for super::flexi_error::FlexiLoggerError {}
    #[verifier::external_body]
    pub(crate) fn eprint_err<E: VErr>(error_code: ErrorCode, msg: &str, err: &E) { unimplemented!() }
}
pub mod log_specification {
    use super::*;
    use super::flexi_error::FlexiLoggerError;
    //@ opaque src/log_specification.rs struct LogSpecification
    //@   dropattr #[derive
    /// SHIM (trusted): derive(Clone) yields an equal specification
    impl Clone for LogSpecification {
        #[verifier::external_body]
        fn clone(&self) -> (r: LogSpecification) ensures r == *self { unimplemented!() }
    }
    pub uninterp spec fn as_str_view<S>(s: S) -> Seq<char>;
    /// R22 SHIM for `new_spec.as_ref()` with `S: AsRef<str>` (not used by the code as it is; Verus accepts neither an
    /// assume_specification nor an external trait specification for AsRef::as_ref): the text the argument stands for
    #[verifier::external_body]
    pub fn vas_ref<S: AsRef<str>>(s: &S) -> (r: &str)
        ensures r@ == as_str_view::<S>(*s)
    { s.as_ref() }
    pub broadcast axiom fn ax_as_str_view_str(s: &str)
        ensures #[trigger] as_str_view::<&str>(s) == s@;
    /// oracle: outcome of parsing a specification string (parser is outside the verifier, C17)
    pub uninterp spec fn parse_result(s: Seq<char>) -> Result<LogSpecification, FlexiLoggerError>;
    //@ opaque src/log_specification.rs struct ModuleFilter
    //@   dropattr #[derive
    /// SHIM (not used by the code as it is): comparing module-filter lists
    impl PartialEq for ModuleFilter {
        #[verifier::external_body]
        fn eq(&self, other: &ModuleFilter) -> (r: bool) ensures r == (*self == *other) { unimplemented!() }
    }
    impl LogSpecification {
        pub uninterp spec fn mfs_spec(&self) -> Seq<ModuleFilter>;
        //@ sig src/log_specification.rs impl LogSpecification / fn module_filters
        //@   ret r
        //@   ens r@ == self.mfs_spec()
        pub uninterp spec fn max_level_spec(&self) -> log::LevelFilter;
        //@ sig src/log_specification.rs impl LogSpecification / fn max_level
        //@   ret r
        //@   ens r == self.max_level_spec()
        //@ sig src/log_specification.rs impl LogSpecification / fn parse
        //@   ret r
        //@   attr #[verifier::allow(undeclared_external_trait)]
        //@   ens r == parse_result(as_str_view::<S>(spec))
    }
}
pub mod primary_writer {
    use super::*;
    //@ opaque src/primary_writer.rs enum PrimaryWriter
}
pub mod writers {
    use super::*;
    pub trait LogWriter: Sync + Send {
        spec fn max_log_level_spec(&self) -> log::LevelFilter;
        fn max_log_level(&self) -> (r: log::LevelFilter) ensures r == self.max_log_level_spec();
    }
}

#![allow(unused_imports, dead_code, unused_variables, unused_mut, unreachable_code, unused_parens)]
// Unit `handle_b2` (C05): LoggerHandle::parse_new_spec(&self) activates exactly the parsed specification, and nothing
// when the string is malformed (unit-local effect permission on the &self callee).
use vstd::prelude::*;
verus! {
//@ include units/handle_common.rs

pub mod logger_handle {
//@ include units/handle_types.rs

    impl LoggerHandle {
        pub uninterp spec fn set_ok(s: LogSpecification) -> bool;
        //@ sig src/logger_handle.rs impl LoggerHandle / fn set_new_spec
        //@   props C05
        //@   req[LoggerHandle::set_new_spec.perm] LoggerHandle::set_ok(new_spec)
        //@   ens self.active_after() == new_spec
    //@ fn src/logger_handle.rs impl LoggerHandle / fn parse_new_spec
    //@   ret r
    //@   props C05
    //@   req[parse_new_spec.pre.perm] forall|s: LogSpecification| #[trigger] LoggerHandle::set_ok(s) <==> (parse_result(as_str_view::<&str>(spec)) is Ok && s == parse_result(as_str_view::<&str>(spec))->Ok_0)
    //@   ens[parse_new_spec.post] r is Ok <==> parse_result(as_str_view::<&str>(spec)) is Ok
    //@   ens[parse_new_spec.post.written] r is Ok ==> self.active_after() == parse_result(as_str_view::<&str>(spec))->Ok_0
    //@   count 1 .set_new_spec(
    //@   canary
    }
}
}
// plain-Rust glue outside verus! (never executed, not verified): the shim has the real type's Display so that code using it still parses
impl std::fmt::Display for log_specification::LogSpecification { fn fmt(&self, _f: &mut std::fmt::Formatter) -> std::fmt::Result { Ok(()) } }
fn main() {}

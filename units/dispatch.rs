#![feature(allocator_api)]
#![allow(unused_imports, dead_code, unused_variables, unused_mut, unreachable_code, unused_parens)]
// Unit `dispatch` (C15, C04; feature async): the body of the writer thread of start_async_fs_writer
// (src/writers/file_log_writer/state.rs): the block of the arm `Ok(mut message) => {..}` of the thread loop's `match receiver.recv()` is copied, braces included,
// into the body of the function `async_dispatch` below, whose parameters are the variables the closure captures.
use vstd::prelude::*;
verus! {
//@ include prelude/types.rs
//@ include prelude/sync.rs
//@ include prelude/combinators.rs

#[verifier::external_type_specification]
#[verifier::external_body]
#[verifier::reject_recursive_types(T)]
pub struct ExArrayQueue<T>(crossbeam_queue::ArrayQueue<T>);
/// permission: which buffer may be put (back) into the pool
pub uninterp spec fn pool_ok(v: Seq<u8>) -> bool;
pub assume_specification<T>[ crossbeam_queue::ArrayQueue::<T>::push ](q: &crossbeam_queue::ArrayQueue<T>, v: T) -> (r: Result<(), T>)
    requires
        pool_push_ok::<T>(v), //@label ArrayQueue::push.perm C15
;
pub uninterp spec fn pool_push_ok<T>(v: T) -> bool;
pub broadcast axiom fn ax_pool_push_ok(v: Vec<u8>)
    ensures #[trigger] pool_push_ok::<Vec<u8>>(v) == pool_ok(v@);

pub assume_specification<T, A: core::alloc::Allocator>[ <Vec<T, A> as AsRef<[T]>>::as_ref ](v: &Vec<T, A>) -> (r: &[T])
    ensures r@ == v@;
pub assume_specification<T, A: core::alloc::Allocator>[ Vec::<T, A>::capacity ](v: &Vec<T, A>) -> (r: usize);

/// byte slices are equal exactly when their contents are (needed for the slice-constant patterns of the dispatch `match`)
pub broadcast axiom fn ax_slice_ext(a: &[u8], b: &[u8])
    ensures (a == b) == (#[trigger] a@ == #[trigger] b@);

/// (not used by the code as it is) Vec operations that keep / cut the content
pub assume_specification<T, A: std::alloc::Allocator>[ Vec::<T, A>::shrink_to_fit ](v: &mut Vec<T, A>)
    ensures final(v)@ == old(v)@;
/// R23 SHIM for `slice.chunks(n)` (not used by the code as it is): pieces of at most n bytes whose concatenation is the slice
pub open spec fn concat_chunks(c: Seq<&[u8]>) -> Seq<u8> decreases c.len() { if c.len() == 0 { Seq::empty() } else { concat_chunks(c.drop_last()) + c.last()@ } }
pub trait VChunks: vstd::view::View<V = Seq<u8>> {
    fn vchunks(&self, n: usize) -> (r: Vec<&[u8]>)
        requires n > 0,
        ensures concat_chunks(r@) == self@, forall|i: int| 0 <= i < r@.len() ==> 0 < (#[trigger] r@[i])@.len() <= n,
            self@.len() > n ==> r@.len() >= 2;
}
impl VChunks for [u8] {
    #[verifier::external_body]
    fn vchunks(&self, n: usize) -> (r: Vec<&[u8]>)
    { self.chunks(n).collect() }
}
pub mod util {
    use super::*;
    //@ item src/util.rs enum ErrorCode
    //@ item src/util.rs const ASYNC_FLUSH
    //@   bytesconst
    //@ item src/util.rs const ASYNC_SHUTDOWN
    //@   bytesconst
    pub uninterp spec fn reportable(code: ErrorCode) -> bool;
    pub trait VErr {}
    impl VErr for std::io::Error {}
    #[verifier::external_body]
    pub(crate) fn eprint_err<E: VErr>(error_code: ErrorCode, msg: &str, err: &E)
        requires
            reportable(error_code), //@label eprint_err.perm.reportable C19
        ensures reported(error_code),
    { unimplemented!() }
    /// token fact (C19, "if" direction): a problem was handed to the error channel with this code - only eprint_err establishes it
    pub uninterp spec fn reported(code: ErrorCode) -> bool;
}
pub mod state {
    use super::*;
    use super::util::{eprint_err, ErrorCode, ASYNC_FLUSH, ASYNC_SHUTDOWN};
    use crossbeam_queue::ArrayQueue;
    use std::sync::Arc;
    broadcast use ax_pool_push_ok, ax_slice_ext;

    /// SHIM for `State` (unit `state`) with unit-local effect permissions
    pub struct State { _o: () }
    pub uninterp spec fn wb_ok(buf: Seq<u8>) -> bool;
    pub uninterp spec fn flush_ok() -> bool;
    pub uninterp spec fn shutdown_ok() -> bool;
    /// oracles: the outcomes of State::write_buffer / State::flush in this call
    pub uninterp spec fn wb_result(buf: Seq<u8>) -> std::io::Result<()>;
    pub uninterp spec fn flush_result() -> std::io::Result<()>;
    impl State {
        #[verifier::external_body]
        pub fn write_buffer(&mut self, buf: &[u8]) -> (r: std::io::Result<()>)
            requires
                wb_ok(buf@), //@label State::write_buffer.perm C15
            ensures r == wb_result(buf@),
        { unimplemented!() }
        #[verifier::external_body]
        pub fn flush(&mut self) -> (r: std::io::Result<()>)
            requires
                flush_ok(), //@label State::flush.perm C15
            ensures r == flush_result(),
        { unimplemented!() }
        #[verifier::external_body]
        pub fn shutdown(&mut self)
            requires
                shutdown_ok(), //@label State::shutdown.perm C15
        { unimplemented!() }
    }
    pub(crate) open spec fn is_flush(m: Seq<u8>) -> bool { m == super::util::ASYNC_FLUSH_spec() }
    pub(crate) open spec fn is_shutdown(m: Seq<u8>) -> bool { m == super::util::ASYNC_SHUTDOWN_spec() }

    /// The writer thread's reaction to one message. Returns true iff the thread stops (the `break`).
    #[verifier::exec_allows_no_decreases_clause]
    #[verifier::loop_isolation(false)]
    pub(crate) fn async_dispatch(mut message: Vec<u8>, am_state: &Arc<std::sync::Mutex<State>>, message_capa: usize, a_pool: &Arc<ArrayQueue<Vec<u8>>>) -> (stopped: bool)
        requires
            // A10: the state mutex is not poisoned (the thread panics otherwise: `lock().unwrap()`)
            !mutex_poisoned(&**am_state),
            // C15: a data message is written as it is, and only a data message; control messages only flush / shut down
            forall|b: Seq<u8>| #[trigger] wb_ok(b) <==> (b == message@ && !is_flush(message@) && !is_shutdown(message@)),
            flush_ok() <==> is_flush(message@),
            shutdown_ok() <==> is_shutdown(message@),
            // buffers are cleared before being pooled
            forall|v: Seq<u8>| #[trigger] pool_ok(v) <==> v.len() == 0,
            forall|c: ErrorCode| #[trigger] super::util::reportable(c) <==> (c is Flush || c is Write),
        ensures
            stopped == is_shutdown(message@), //@label async_dispatch.post.stop C04,C15
            // C19: in the writer thread nobody can be handed an error: a failing flush / write is reported
            is_flush(message@) && flush_result() is Err ==> super::util::reported(ErrorCode::Flush), //@label async_dispatch.post.flush_failure_reported C19
            !is_flush(message@) && !is_shutdown(message@) && wb_result(message@) is Err ==> super::util::reported(ErrorCode::Write), //@label async_dispatch.post.write_failure_reported C19
    {
        let ghost m0 = message@;
        // (wrapper, not copied code) the two control messages differ
        assert(super::util::ASYNC_FLUSH_spec()[0] != super::util::ASYNC_SHUTDOWN_spec()[0]);
        // the copied statements contain the thread loop's `break`: they sit in a loop that is left after one pass
        loop
            invariant message@ == m0,
        {
    //@ span src/writers/file_log_writer/state.rs fn start_async_fs_writer
    //@   block Ok(mut message) =>
    //@   rename async_dispatch
    //@   rule R23 *
    //@   closure ~eprint_err(ErrorCode::Flush ## sig |e: std::io::Error| -> (u: ())
    //@   closure ~eprint_err(ErrorCode::Flush ## req super::util::reportable(ErrorCode::Flush)
    //@   closure ~eprint_err(ErrorCode::Flush ## ens super::util::reported(ErrorCode::Flush)
    //@   closure ~eprint_err(ErrorCode::Write ## sig |e: std::io::Error| -> (u: ())
    //@   closure ~eprint_err(ErrorCode::Write ## req super::util::reportable(ErrorCode::Write)
    //@   closure ~eprint_err(ErrorCode::Write ## ens super::util::reported(ErrorCode::Write)
            return false;
        }
        true
    }
}
}
fn main() {}

#![allow(unused_imports, dead_code, unused_variables, unused_mut, unreachable_code, unused_parens)]
// Unit `tsparse` (C14, C06, C07): timestamps::timestamp_from_ts_infix (src/writers/file_log_writer/state/timestamps.rs) — which infixes count as
// time stamps of the active format: the WHOLE infix must parse as date-time (or, for date-only formats, as date) of the format; an infix that
// merely starts with a time stamp is not one (`InfixFilter::Timstmps` decides with this function which files belong to the family).
// chrono's parsers are oracles; the exact parsers and the prefix parsers (`parse_and_remainder`) are DIFFERENT oracles.
use vstd::prelude::*;
verus! {
#[verifier::external_type_specification]
#[verifier::external_body]
#[verifier::reject_recursive_types(Tz)]
pub struct ExDateTime<Tz: chrono::TimeZone>(chrono::DateTime<Tz>);
#[verifier::external_type_specification]
#[verifier::external_body]
pub struct ExLocal(chrono::Local);
#[verifier::external_type_specification]
#[verifier::external_body]
pub struct ExNaiveDateTime(chrono::NaiveDateTime);
#[verifier::external_type_specification]
#[verifier::external_body]
pub struct ExNaiveDate(chrono::NaiveDate);
#[verifier::external_type_specification]
#[verifier::external_body]
pub struct ExParseError(chrono::format::ParseError);

/// oracles: chrono's exact parsers, its prefix parsers, the kind of a parse error, the local time for a naive one
pub uninterp spec fn ndt_exact(s: Seq<char>, fmt: Seq<char>) -> Result<chrono::NaiveDateTime, chrono::format::ParseError>;
pub uninterp spec fn nd_exact(s: Seq<char>, fmt: Seq<char>) -> Result<chrono::NaiveDate, chrono::format::ParseError>;
pub uninterp spec fn ndt_prefix(s: Seq<char>, fmt: Seq<char>) -> Result<chrono::NaiveDateTime, chrono::format::ParseError>;
pub uninterp spec fn nd_prefix(s: Seq<char>, fmt: Seq<char>) -> Result<chrono::NaiveDate, chrono::format::ParseError>;
pub uninterp spec fn not_enough(e: &chrono::format::ParseError) -> bool;
pub uninterp spec fn local_earliest(dt: &chrono::NaiveDateTime) -> Option<chrono::DateTime<chrono::Local>>;
pub uninterp spec fn at_ten(d: &chrono::NaiveDate) -> chrono::NaiveDateTime;
pub assume_specification[ chrono::NaiveDateTime::parse_from_str ](s: &str, fmt: &str) -> (r: Result<chrono::NaiveDateTime, chrono::format::ParseError>)
    ensures r == ndt_exact(s@, fmt@);
pub assume_specification[ chrono::NaiveDate::parse_from_str ](s: &str, fmt: &str) -> (r: Result<chrono::NaiveDate, chrono::format::ParseError>)
    ensures r == nd_exact(s@, fmt@);
pub assume_specification<'a>[ chrono::NaiveDateTime::parse_and_remainder ](s: &'a str, fmt: &str) -> (r: Result<(chrono::NaiveDateTime, &'a str), chrono::format::ParseError>)
    ensures (r is Ok) == (ndt_prefix(s@, fmt@) is Ok), r is Ok ==> (r->Ok_0).0 == ndt_prefix(s@, fmt@)->Ok_0, r is Err ==> Err::<chrono::NaiveDateTime, chrono::format::ParseError>(r->Err_0) == ndt_prefix(s@, fmt@);
pub assume_specification<'a>[ chrono::NaiveDate::parse_and_remainder ](s: &'a str, fmt: &str) -> (r: Result<(chrono::NaiveDate, &'a str), chrono::format::ParseError>)
    ensures (r is Ok) == (nd_prefix(s@, fmt@) is Ok), r is Ok ==> (r->Ok_0).0 == nd_prefix(s@, fmt@)->Ok_0, r is Err ==> Err::<chrono::NaiveDate, chrono::format::ParseError>(r->Err_0) == nd_prefix(s@, fmt@);
/// R47 SHIMS: `e.kind() == ParseErrorKind::NotEnough` -> `vnot_enough(&e)`; `Local.from_local_datetime(&x).earliest()` -> `vlocal_earliest(&x)`;
/// `d1.and_hms_opt(10, 0, 0).unwrap()` -> `vat_ten(&d1)` (10:00:00 is a valid time of day)
#[verifier::external_body]
pub fn vnot_enough(e: &chrono::format::ParseError) -> (r: bool) ensures r == not_enough(e) { unimplemented!() }
#[verifier::external_body]
pub fn vlocal_earliest(dt: &chrono::NaiveDateTime) -> (r: Option<chrono::DateTime<chrono::Local>>) ensures r == local_earliest(dt) { unimplemented!() }
#[verifier::external_body]
pub fn vat_ten(d: &chrono::NaiveDate) -> (r: chrono::NaiveDateTime) ensures r == at_ten(d) { unimplemented!() }
/// R32 SHIM for `format!`
#[verifier::external_body]
pub fn vfmt_nonempty() -> (r: String)
    ensures r@.len() > 0
{ String::new() }
macro_rules! vformat {
    ($($t:tt)*) => { vfmt_nonempty() };
}

pub mod state {
    use super::*;
    /// SHIM: the format of the infix, reduced to its text
    pub struct InfixFormat { _o: () }
    impl InfixFormat {
        pub uninterp spec fn text(&self) -> Seq<char>;
        #[verifier::external_body]
        pub(super) fn format(&self) -> (r: &str) ensures r@ == self.text() { unimplemented!() }
    }
    pub mod timestamps {
        use super::*;
        use super::super::*;
        use chrono::{DateTime, Local, NaiveDate, NaiveDateTime};

        /// C14: the infix IS a time stamp of the format
        pub open spec fn ts_parses(infix: Seq<char>, fmt: &InfixFormat) -> bool {
            match ndt_exact(infix, fmt.text()) {
                Ok(dt) => local_earliest(&dt) is Some,
                Err(e) => not_enough(&e) && match nd_exact(infix, fmt.text()) { Ok(d) => local_earliest(&at_ten(&d)) is Some, Err(_) => false },
            }
        }
    //@ fn src/writers/file_log_writer/state/timestamps.rs fn timestamp_from_ts_infix
    //@   ret r
    //@   props C14,C06,C07
    //@   rule R47 *
    //@   rule R3 *
    //@   rule R32 *
    //@   ens[timestamp_from_ts_infix.post] (r is Ok) == ts_parses(infix@, fmt)
    //@   canary
    }
}
}
fn main() {}

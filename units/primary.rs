#![allow(unused_imports, dead_code, unused_variables, unused_mut, unreachable_code, unused_parens)]
// Unit `primary` (C04, C13, C16): PrimaryWriter — dispatch of write / flush / shutdown / existing_log_files to the
// configured kind of writer (src/primary_writer.rs). Result-flow clauses: the record / the flush reaches exactly the
// writer of the active arm and its result is the result.
use vstd::prelude::*;
verus! {
//@ include prelude/types.rs
#[verifier::external_type_specification]
#[verifier::external_body]
pub struct ExRecord<'a>(log::Record<'a>);
#[verifier::external_type_specification]
#[verifier::external_body]
pub struct ExStderr(std::io::Stderr);
#[verifier::external_type_specification]
#[verifier::external_body]
pub struct ExStdout(std::io::Stdout);
pub assume_specification[ std::io::stderr ]() -> (r: std::io::Stderr);
pub assume_specification[ std::io::stdout ]() -> (r: std::io::Stdout);

pub mod logger {
    use super::*;
    //@ item src/logger.rs enum Duplicate
}
pub mod shims {
    use super::*;
    use log::Record;
    use std::path::PathBuf;
    use std::io::{Stderr, Stdout};
    //@ include prelude/dnow_shim.rs
    pub struct FlexiLoggerError { _o: () }
    pub struct LogfileSelector { _o: () }
    /// permission + result oracles per kind of writer (kind: 0 = Std, 1 = Multi, 2 = Test)
    pub uninterp spec fn w_ok(kind: int, record: &Record) -> bool;
    pub uninterp spec fn w_result(kind: int, record: &Record) -> std::io::Result<()>;
    pub uninterp spec fn f_ok(kind: int) -> bool;
    pub uninterp spec fn f_result(kind: int) -> std::io::Result<()>;
    pub uninterp spec fn s_ok(kind: int) -> bool;
    /// token fact ("happened before"): only the ensures of a flush call can establish it, shutdown requires it.
    /// C04 anchor "PrimaryWriter::shutdown flushes first".
    pub uninterp spec fn flush_done(kind: int) -> bool;
    pub uninterp spec fn elf_result(sel: &LogfileSelector) -> Result<Vec<PathBuf>, FlexiLoggerError>;
    macro_rules! writer_shim {
        ($name:ident, $kind:expr) => {
            verus! {
            pub struct $name { _o: () }
            impl $name {
                #[verifier::external_body]
                pub fn write(&self, now: &mut DeferredNow, record: &Record) -> (r: std::io::Result<()>)
                    requires
                        w_ok($kind, record), //@label KindWriter::write.perm C13
                        now_ok(old(now).origin()), //@label KindWriter::write.same_now C20
                    ensures r == w_result($kind, record), final(now).origin() == old(now).origin(),
                { unimplemented!() }
                #[verifier::external_body]
                pub fn flush(&self) -> (r: std::io::Result<()>)
                    requires
                        f_ok($kind), //@label KindWriter::flush.perm C04
                    ensures r == f_result($kind), flush_done($kind),
                { unimplemented!() }
                #[verifier::external_body]
                pub fn shutdown(&self)
                    requires
                        s_ok($kind), //@label KindWriter::shutdown.perm C04
                        flush_done($kind), //@label KindWriter::shutdown.flushed_first C04
                { unimplemented!() }
            }
            }
        };
    }
    writer_shim!(StdWriter, 0int);
    writer_shim!(MultiWriter, 1int);
    writer_shim!(TestWriter, 2int);
    /// the constructors' arguments: what PrimaryWriter::{multi, stderr, stdout, test} must hand on, argument by argument.
    /// The constructors themselves are `sig` directives (signatures read from the source on every run), so their
    /// contracts are stated by parameter *name* and a changed parameter order shows at the call sites.
    pub struct FormatFunction { pub id: int }
    pub struct WriteMode { pub id: int }
    /// a mode that makes a writer flush on its own (units `wmode`, `lbuild`: the Logger never keeps one); the std writer's
    /// constructor has no implementation for it (`unreachable!`, `assert_eq!`: unit `stdw`)
    pub uninterp spec fn own_flushing(m: WriteMode) -> bool;
    pub struct FileLogWriter { _o: () }
    pub trait LogWriter {}
    pub use super::logger::Duplicate;
    //@ item src/primary_writer/std_stream.rs enum StdStream
    pub uninterp spec fn mw_made(de: Duplicate, dout: Duplicate, sc: bool, fe: FormatFunction, fo: FormatFunction, fw: Option<Box<FileLogWriter>>, ow: Option<Box<dyn LogWriter>>) -> MultiWriter;
    pub uninterp spec fn sw_made(to_stdout: bool, f: FormatFunction, m: WriteMode) -> StdWriter;
    pub uninterp spec fn tw_made(to_stdout: bool, f: FormatFunction) -> TestWriter;
    impl MultiWriter {
    //@ sig src/primary_writer/multi_writer.rs impl MultiWriter / fn new
    //@   ret r
    //@   ens r == mw_made(duplicate_stderr, duplicate_stdout, support_capture, format_for_stderr, format_for_stdout, o_file_writer, o_other_writer)
    }
    impl StdWriter {
    //@ sig src/primary_writer/std_writer.rs impl StdWriter / fn new
    //@   ret r
    //@   props C10
    //@   req[StdWriter::new.pre.no_own_flushing] !own_flushing(*write_mode)
    //@   ens r == sw_made(stdstream is Out, format, *write_mode)
    }
    impl TestWriter {
    //@ sig src/primary_writer/test_writer.rs impl TestWriter / fn new
    //@   ret r
    //@   ens r == tw_made(stdout, format)
    }
    impl MultiWriter {
        #[verifier::external_body]
        pub(crate) fn existing_log_files(&self, selector: &LogfileSelector) -> (r: Result<Vec<PathBuf>, FlexiLoggerError>)
            ensures r == elf_result(selector),
        { unimplemented!() }
    }
}
pub mod primary_writer {
    use super::*;
    use super::shims::*;
    use log::Record;
    use std::path::PathBuf;
    //@ item src/primary_writer.rs enum PrimaryWriter
    impl PrimaryWriter {
        pub closed spec fn kind(&self) -> int { match self { PrimaryWriter::Std(_) => 0, PrimaryWriter::Multi(_) => 1, PrimaryWriter::Test(_) => 2 } }
        pub closed spec fn is_multi_of(&self, m: MultiWriter) -> bool { *self == PrimaryWriter::Multi(m) }
        pub closed spec fn is_std_of(&self, m: StdWriter) -> bool { *self == PrimaryWriter::Std(m) }
        pub closed spec fn is_test_of(&self, m: TestWriter) -> bool { *self == PrimaryWriter::Test(m) }
    //@ fn src/primary_writer.rs impl PrimaryWriter / fn multi
    //@   ret r
    //@   props C20,C13,C15
    //@   ens[PrimaryWriter::multi.post] r.is_multi_of(mw_made(duplicate_stderr, duplicate_stdout, support_capture, format_for_stderr, format_for_stdout, o_file_writer, o_other_writer))
    //@ fn src/primary_writer.rs impl PrimaryWriter / fn stderr
    //@   ret r
    //@   props C20,C15
    //@   req[PrimaryWriter::stderr.pre.no_own_flushing] !own_flushing(*write_mode)
    //@   ens[PrimaryWriter::stderr.post] r.is_std_of(sw_made(false, format, *write_mode))
    //@ fn src/primary_writer.rs impl PrimaryWriter / fn stdout
    //@   ret r
    //@   props C20,C15
    //@   req[PrimaryWriter::stdout.pre.no_own_flushing] !own_flushing(*write_mode)
    //@   ens[PrimaryWriter::stdout.post] r.is_std_of(sw_made(true, format, *write_mode))
    //@ fn src/primary_writer.rs impl PrimaryWriter / fn test
    //@   ret r
    //@   props C20
    //@   ens[PrimaryWriter::test.post] r.is_test_of(tw_made(stdout, format))
    //@ fn src/primary_writer.rs impl PrimaryWriter / fn write
    //@   ret r
    //@   props C13,C02
    //@   req[PrimaryWriter::write.pre.perm] forall|k: int, x: &Record| #[trigger] w_ok(k, x) <==> (k == self.kind() && x == record)
    //@   props C20
    //@   req[PrimaryWriter::write.pre.same_now] forall|o: int| #[trigger] now_ok(o) <==> o == old(now).origin()
    //@   ens[PrimaryWriter::write.post.same_now] final(now).origin() == old(now).origin()
    //@   props C13,C02
    //@   ens[PrimaryWriter::write.post.handed_over] r == w_result(self.kind(), record)
    //@   canary
    //@ fn src/primary_writer.rs impl PrimaryWriter / fn flush
    //@   ret r
    //@   props C04
    //@   req[PrimaryWriter::flush.pre.perm] forall|k: int| #[trigger] f_ok(k) <==> k == self.kind()
    //@   ens[PrimaryWriter::flush.post.handed_over] r == f_result(self.kind())
    //@   ens[PrimaryWriter::flush.post.token] flush_done(self.kind())
    //@   canary
    //@ fn src/primary_writer.rs impl PrimaryWriter / fn shutdown
    //@   props C04
    //@   req[PrimaryWriter::shutdown.pre.perm.flush] forall|k: int| #[trigger] f_ok(k) <==> k == self.kind()
    //@   req[PrimaryWriter::shutdown.pre.perm] forall|k: int| #[trigger] s_ok(k) <==> k == self.kind()
    //@ fn src/primary_writer.rs impl PrimaryWriter / fn existing_log_files
    //@   ret r
    //@   props C16
    //@   ens[PrimaryWriter::existing_log_files.post] if self.kind() == 1 { r == elf_result(selector) } else { r is Ok && r->Ok_0@.len() == 0 }
    }
}
}
fn main() {}

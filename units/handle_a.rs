#![allow(unused_imports, dead_code, unused_variables, unused_mut, unreachable_code, unused_parens)]
// Unit `handle_a` (C05): LoggerHandle::{push_temp_spec, pop_temp_spec, parse_and_push_temp_spec} — the stack of saved
// specifications. The callee LoggerHandle::set_new_spec is a shim declared `&mut self` so that the content of the
// specification lock can be modelled as part of the handle's abstract state (DESIGN.md 5/C05); the copied callers,
// which hold `&mut self`, compile unchanged against it. Its contract is what layers handle_b / handle_c establish.
use vstd::prelude::*;
verus! {
//@ include units/handle_common.rs

pub mod logger_handle {
//@ include units/handle_types.rs

    impl LoggerHandle {
        /// the specification that filtering follows: the content of the shared lock
        pub closed spec fn active(&self) -> LogSpecification { *lock_content(&*self.writers_handle.spec) }
        pub closed spec fn stack(&self) -> Seq<LogSpecification> { self.writers_handle.spec_stack@ }
        pub closed spec fn rest_same(&self, o: &LoggerHandle) -> bool {
            self.writers_handle.primary_writer == o.writers_handle.primary_writer && self.writers_handle.other_writers == o.writers_handle.other_writers
        }
        /// permission (DESIGN 3.4): which specification the function under proof may activate
        pub uninterp spec fn set_ok(s: LogSpecification) -> bool;
        /// token fact: the level gate of the `log` facade was reconfigured for this specification (only set_new_spec /
        /// parse_new_spec establish it: units handle_b..d prove that they reach `reconfigure(max(spec.max_level(), ceilings))`).
        /// C05 "filtering follows exactly the specification that is then active": a specification stored in the lock behind
        /// the back of set_new_spec leaves the facade gate at the old level
        pub uninterp spec fn gate_set_for(s: LogSpecification) -> bool;

        /// SHIM for `pub fn set_new_spec(&self, new_spec: LogSpecification)`, declared `&mut self` (see header)
        #[verifier::external_body]
        pub fn set_new_spec(&mut self, new_spec: LogSpecification)
            requires
                LoggerHandle::set_ok(new_spec), //@label set_new_spec.perm C05
            ensures
                final(self).active() == new_spec,
                final(self).stack() == old(self).stack(),
                final(self).rest_same(old(self)),
                LoggerHandle::gate_set_for(new_spec),
        { unimplemented!() }

        /// SHIM for `pub fn parse_new_spec(&self, spec: &str)`, declared `&mut self` like set_new_spec (unit handle_b proves: the
        /// parsed specification is activated, a rejected string changes nothing); not called by the code as it is — specified
        /// so that a refactoring which routes through it is decided instead of being rejected by the compiler
        #[verifier::external_body]
        pub fn parse_new_spec(&mut self, spec: &str) -> (r: Result<(), FlexiLoggerError>)
            requires
                parse_result(spec@) is Ok ==> LoggerHandle::set_ok(parse_result(spec@)->Ok_0), //@label parse_new_spec.perm C05
            ensures
                r is Ok <==> parse_result(spec@) is Ok,
                r is Ok ==> final(self).active() == parse_result(spec@)->Ok_0 && LoggerHandle::gate_set_for(parse_result(spec@)->Ok_0),
                r is Err ==> final(self).active() == old(self).active(),
                final(self).stack() == old(self).stack(),
                final(self).rest_same(old(self)),
        { unimplemented!() }

    //@ fn src/logger_handle.rs impl LoggerHandle / fn push_temp_spec
    //@   props C05
    //@   req[push.pre.perm] forall|s: LogSpecification| #[trigger] LoggerHandle::set_ok(s) <==> s == new_spec
    //@   ens[push.post.stack] final(self).stack() == old(self).stack().push(old(self).active())
    //@   ens[push.post.active] final(self).active() == new_spec
    //@   ens[push.post.gate] LoggerHandle::gate_set_for(new_spec)
    //@   unmodelled .write() ## push.post.stack push.post.active
    //@   canary
    //@ fn src/logger_handle.rs impl LoggerHandle / fn pop_temp_spec
    //@   props C05
    //@   req[pop.pre.perm] forall|s: LogSpecification| #[trigger] LoggerHandle::set_ok(s) <==> (old(self).stack().len() > 0 && s == old(self).stack().last())
    //@   ens[pop.post.nonempty] old(self).stack().len() > 0 ==> final(self).stack() == old(self).stack().drop_last() && final(self).active() == old(self).stack().last()
    //@   ens[pop.post.gate] old(self).stack().len() > 0 ==> LoggerHandle::gate_set_for(old(self).stack().last())
    //@   unmodelled .write() ## pop.post.nonempty pop.post.empty
    //@   ens[pop.post.empty] old(self).stack().len() == 0 ==> final(self).stack() == old(self).stack() && final(self).active() == old(self).active()
    //@   canary
    //@ fn src/logger_handle.rs impl LoggerHandle / fn parse_and_push_temp_spec
    //@   ret r
    //@   props C05
    //@   attr #[verifier::allow(undeclared_external_trait)]
    //@   rule R3 *
    //@   rule R22 *
    //@   req[parse_and_push.pre.perm] forall|s: LogSpecification| #[trigger] LoggerHandle::set_ok(s) <==> (parse_result(as_str_view::<S>(new_spec)) is Ok && s == parse_result(as_str_view::<S>(new_spec))->Ok_0)
    //@   ens[parse_and_push.post.ok] parse_result(as_str_view::<S>(new_spec)) is Ok ==> r is Ok && final(self).stack() == old(self).stack().push(old(self).active())
    //@       && final(self).active() == parse_result(as_str_view::<S>(new_spec))->Ok_0
    //@   ens[parse_and_push.post.gate] parse_result(as_str_view::<S>(new_spec)) is Ok ==> LoggerHandle::gate_set_for(parse_result(as_str_view::<S>(new_spec))->Ok_0)
    //@   unmodelled .write() ## parse_and_push.post.ok parse_and_push.post.err
    //@   ens[parse_and_push.post.err] parse_result(as_str_view::<S>(new_spec)) is Err ==> r is Err && final(self).stack() == old(self).stack() && final(self).active() == old(self).active()
    //@   canary
    }

    /// C05 "push/pop is an exact stack": over the postconditions above, a pop after a push restores stack and active spec
    pub proof fn lemma_stack(h0: &LoggerHandle, h1: &LoggerHandle, h2: &LoggerHandle, s: LogSpecification) //@lemma C05
        requires
            h1.stack() == h0.stack().push(h0.active()), h1.active() == s,                                   // push.post
            h1.stack().len() > 0 ==> h2.stack() == h1.stack().drop_last() && h2.active() == h1.stack().last(), // pop.post
        ensures h2.stack() == h0.stack() && h2.active() == h0.active(),
    {
        assert(h0.stack().push(h0.active()).drop_last() =~= h0.stack());
    }
}
}
// plain-Rust glue outside verus! (never executed, not verified): the shim has the real type's Display so that code using it still parses
impl std::fmt::Display for log_specification::LogSpecification { fn fmt(&self, _f: &mut std::fmt::Formatter) -> std::fmt::Result { Ok(()) } }
fn main() {}

#![feature(pattern)]
#![allow(unused_imports, dead_code, unused_variables, unused_mut, unreachable_code, unused_parens)]
// Unit `restartnum` (C10, C06, C01, C07): file_spec::restart_number (src/parameters/file_spec.rs) — the number a sibling's name carries
// after ".restart-": panic-free for every name (the repair of F13), `None` unless four bytes follow the marker on character
// boundaries, never above 9999 — the contract unit `collide` *assumes* for it (`number_in`). UTF-8 offset model of prelude/utf8.rs.
use vstd::prelude::*;
verus! {
//@ include prelude/types.rs
//@ include prelude/combinators.rs
pub uninterp spec fn cow_text(c: std::borrow::Cow<'_, str>) -> Seq<char>;
//@ include prelude/utf8.rs

#[verifier::external_type_specification]
#[verifier::external_body]
pub struct ExParseIntError(core::num::ParseIntError);
/// does `pat` occur in `s` at position `i`
pub open spec fn occurs_at(s: Seq<char>, pat: Seq<char>, i: int) -> bool {
    0 <= i && i + pat.len() <= s.len() && s.subrange(i, i + pat.len()) == pat
}
/// oracle: the value of a decimal text as usize (`str::parse::<usize>`), None if it is not one
pub uninterp spec fn parse_usize(s: Seq<char>) -> Option<usize>;
/// TRUSTED: a text of at most four bytes denotes at most 9999; a Rust string is at most isize::MAX bytes long
pub broadcast axiom fn ax_parse_four(s: Seq<char>)
    ensures byte_len(s) <= 4 && (#[trigger] parse_usize(s)) is Some ==> parse_usize(s)->Some_0 <= 9999;
pub broadcast axiom fn ax_str_size(s: &str)
    ensures #[trigger] byte_len(s@) <= isize::MAX;
/// R39 SHIMS: `s.find(".restart-")` -> `s.vfind_str(..)`: byte offset of the first occurrence of an ASCII marker;
/// `s.get(a..b)` -> `s.vget_range(a, b)`: the text between two byte offsets if both are character boundaries and a <= b;
/// `.parse::<usize>()` -> `.vparse_usize()`
pub trait VFindStr: vstd::view::View<V = Seq<char>> {
    fn vfind_str(&self, pat: &str) -> (r: Option<usize>)
        requires pat@.len() > 0,
        ensures
            r is None <==> forall|i: int| !occurs_at(self@, pat@, i),
            r is Some ==> exists|i: int| #[trigger] occurs_at(self@, pat@, i) && r->Some_0 == offset_of(self@, i) && forall|j: int| #[trigger] occurs_at(self@, pat@, j) ==> i <= j,
            // the occurrence lies inside the text
            r is Some ==> r->Some_0 + byte_len(pat@) <= byte_len(self@);
    fn vget_range(&self, a: usize, b: usize) -> (r: Option<&str>)
        ensures
            r is Some <==> (a <= b && boundary(self@, a as nat) && boundary(self@, b as nat)),
            r is Some ==> forall|i: int, j: int| 0 <= i <= j <= self@.len() && #[trigger] offset_of(self@, i) == a && #[trigger] offset_of(self@, j) == b ==> (r->Some_0)@ == self@.subrange(i, j),
            // the text between two offsets has their difference as its length in bytes (lemma_offset_diff)
            r is Some ==> byte_len((r->Some_0)@) == b - a;
    fn vparse_usize(&self) -> (r: Result<usize, core::num::ParseIntError>)
        ensures (r is Ok) == (parse_usize(self@) is Some), r is Ok ==> r->Ok_0 == parse_usize(self@)->Some_0;
}
impl VFindStr for str {
    #[verifier::external_body]
    fn vfind_str(&self, pat: &str) -> (r: Option<usize>) { self.find(pat) }
    #[verifier::external_body]
    fn vget_range(&self, a: usize, b: usize) -> (r: Option<&str>) { self.get(a..b) }
    #[verifier::external_body]
    fn vparse_usize(&self) -> (r: Result<usize, core::num::ParseIntError>) { self.parse::<usize>() }
}
/// the bytes between two positions
pub proof fn lemma_offset_diff(s: Seq<char>, i: int, j: int)
    requires 0 <= i <= j <= s.len(),
    ensures offset_of(s, j) - offset_of(s, i) == byte_len(s.subrange(i, j)),
    decreases j - i
{
    broadcast use ax_byte_len_empty, ax_byte_len_step, ax_utf8_width;
    if i == j {
        assert(s.subrange(i, j).len() == 0);
    } else {
        lemma_offset_diff(s, i, j - 1);
        lemma_offset_step(s, j - 1);
        // byte_len(s[i..j]) == byte_len(s[i..j-1]) + width(s[j-1]): the same step on the suffix that starts at i
        let t = s.subrange(i, s.len() as int);
        lemma_offset_step(t, j - 1 - i);
        assert(t.subrange(0, j - i) =~= s.subrange(i, j));
        assert(t.subrange(0, j - 1 - i) =~= s.subrange(i, j - 1));
        assert(t[j - 1 - i] == s[j - 1]);
    }
}

pub mod file_spec {
    use super::*;
    broadcast use ax_parse_four, ax_str_size;

    //@ fn src/parameters/file_spec.rs fn restart_number
    //@   ret r
    //@   props C06,C01,C07
    //@   rule R39 *
    //@   prefix proof { reveal_strlit(".restart-"); }
    //@   ens[restart_number.post.bounded] r is Some ==> r->Some_0 <= 9999
    //@   ens[restart_number.post.none_without_marker] (forall|i: int| !occurs_at(name@, ".restart-"@, i)) ==> r is None
    //@   canary
}
}
fn main() {}

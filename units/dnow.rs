#![allow(unused_imports, dead_code, unused_variables, unused_mut, unreachable_code, unused_parens)]
// Unit `dnow` (C20): DeferredNow — one timestamp per log call: the first `now()` reads the clock, later calls return the stored value.
use vstd::prelude::*;
verus! {
#[verifier::external_type_specification]
#[verifier::external_body]
#[verifier::reject_recursive_types(Tz)]
pub struct ExDateTime<Tz: chrono::TimeZone>(chrono::DateTime<Tz>);
#[verifier::external_type_specification]
#[verifier::external_body]
pub struct ExLocal(chrono::Local);
//@ include prelude/combinators.rs
pub uninterp spec fn clock_now() -> chrono::DateTime<chrono::Local>;
pub assume_specification[ chrono::Local::now ]() -> (r: chrono::DateTime<chrono::Local>)
    ensures r == clock_now();
pub assume_specification<T, F: FnOnce() -> T>[ Option::<T>::get_or_insert_with ](o: &mut Option<T>, f: F) -> (r: &mut T)
    requires (*old(o)) is None ==> f.requires(()),
    ensures
        (*old(o)) is Some ==> *final(o) == *old(o) && *r == (*old(o))->Some_0,
        (*old(o)) is None ==> (*final(o)) is Some && f.ensures((), (*final(o))->Some_0) && *r == (*final(o))->Some_0;

#[verifier::external_type_specification]
#[verifier::external_body]
pub struct ExUtc(chrono::Utc);
/// the UTC form of a local time stamp (`From<DateTime<Local>> for DateTime<Utc>`): a function of the time stamp
pub uninterp spec fn utc_of(d: chrono::DateTime<chrono::Local>) -> chrono::DateTime<chrono::Utc>;
pub broadcast axiom fn ax_into_utc(d: chrono::DateTime<chrono::Local>, r: chrono::DateTime<chrono::Utc>)
    ensures #[trigger] call_ensures(<chrono::DateTime<chrono::Local> as Into<chrono::DateTime<chrono::Utc>>>::into, (d,), r) ==> r == utc_of(d);
/// a second clock (not used by the code as it is): unrelated to the stored time stamp
pub uninterp spec fn utc_clock_now() -> chrono::DateTime<chrono::Utc>;
pub assume_specification[ chrono::Utc::now ]() -> (r: chrono::DateTime<chrono::Utc>)
    ensures r == utc_clock_now();

pub mod deferred_now {
    use super::*;
    use chrono::{DateTime, Local, Utc};
    broadcast use ax_into_utc;
    //@ item src/deferred_now.rs struct DeferredNow
    //@   dropattr #[derive
    impl<'a> DeferredNow {
        pub closed spec fn stored(&self) -> Option<DateTime<Local>> { self.0 }
    //@ fn src/deferred_now.rs impl<'a> DeferredNow / fn new
    //@   ret r
    //@   props C20
    //@   ens[DeferredNow::new.post] r.stored() is None
    //@ fn src/deferred_now.rs impl<'a> DeferredNow / fn now
    //@   ret r
    //@   props C20
    //@   ens[DeferredNow::now.post.first] old(self).stored() is None ==> final(self).stored() == Some(clock_now()) && *r == clock_now()
    //@   ens[DeferredNow::now.post.later] old(self).stored() is Some ==> final(self).stored() == old(self).stored() && *r == old(self).stored()->Some_0
    //@ fn src/deferred_now.rs impl<'a> DeferredNow / fn now_utc_owned
    //@   ret r
    //@   props C20
    //@   ens[DeferredNow::now_utc_owned.post.first] old(self).stored() is None ==> final(self).stored() == Some(clock_now()) && r == utc_of(clock_now())
    //@   ens[DeferredNow::now_utc_owned.post.later] old(self).stored() is Some ==> final(self).stored() == old(self).stored() && r == utc_of(old(self).stored()->Some_0)
    }
}
}
fn main() {}

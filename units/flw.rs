#![feature(pattern)]
#![allow(unused_imports, dead_code, unused_variables, unused_mut, unreachable_code, unused_parens)]
// Unit `flw` (C13, C15, C18): FileLogWriter — the level ceiling of `write` and the forwarding wrappers
// (src/writers/file_log_writer.rs). Callee StateHandle is a shim carrying unit-local effect permissions.
use vstd::prelude::*;
verus! {
//@ include prelude/types.rs
//@ include prelude/logcrate.rs
//@ include prelude/strings.rs
//@ include prelude/logrecord.rs

pub mod shims {
    use super::*;
    pub struct DeferredNow { _o: () }
    pub struct FlexiLoggerError { _o: () }
    pub struct FileLogWriterBuilder { _o: () }
    pub struct FileLogWriterConfig { _o: () }
    pub struct LogfileSelector { _o: () }
}
pub mod state_handle {
    use super::*;
    use super::shims::*;
    use log::Record;
    use std::path::PathBuf;
    /// SHIM for `enum StateHandle` (decided in unit `handle`): the operations FileLogWriter forwards to
    pub struct StateHandle { _o: () }
    /// permission: the record that may reach the state handle / the bytes that may be written raw
    pub uninterp spec fn sh_write_ok(record: &Record) -> bool;
    pub uninterp spec fn sh_plain_ok(buf: Seq<u8>) -> bool;
    /// oracle: the result of handing a record to the state handle
    pub uninterp spec fn sh_write_result(record: &Record) -> std::io::Result<()>;
    pub uninterp spec fn plain_write_result(buf: Seq<u8>) -> Result<usize, std::io::Error>;
    impl StateHandle {
        #[verifier::external_body]
        pub(super) fn write(&self, now: &mut DeferredNow, record: &Record) -> (r: std::io::Result<()>)
            requires
                sh_write_ok(record), //@label StateHandle::write.perm C13
            ensures r == sh_write_result(record),
        { unimplemented!() }
        #[verifier::external_body]
        pub(super) fn plain_write(&self, buffer: &[u8]) -> (r: std::result::Result<usize, std::io::Error>)
            requires
                sh_plain_ok(buffer@), //@label StateHandle::plain_write.perm C15
            ensures r == plain_write_result(buffer@),
        { unimplemented!() }
        #[verifier::external_body]
        pub(super) fn flush(&self) -> std::io::Result<()> { unimplemented!() }
        #[verifier::external_body]
        pub(super) fn shutdown(&self) { unimplemented!() }
    }
}
pub mod file_log_writer {
    use super::*;
    use super::level_axioms::*;
    use super::shims::*;
    use super::state_handle::*;
    use log::Record;
    broadcast use group_level_axioms;

    //@ item src/writers/file_log_writer.rs struct FileLogWriter
    //@   dropattr #[derive
    impl FileLogWriter {
        pub closed spec fn ceiling(&self) -> log::LevelFilter { self.max_log_level }
    //@ fn src/writers/file_log_writer.rs impl FileLogWriter / fn plain_write
    //@   ret r
    //@   props C15
    //@   req[FileLogWriter::plain_write.pre.perm] forall|b: Seq<u8>| #[trigger] sh_plain_ok(b) <==> b == buffer@
    //@   ens[FileLogWriter::plain_write.post] r == plain_write_result(buffer@)
    //@   canary
    }
    // R9: the methods of `impl LogWriter for FileLogWriter` are emitted as inherent methods (no `requires` on trait impls)
    impl FileLogWriter {
    //@ fn src/writers/file_log_writer.rs impl LogWriter for FileLogWriter / fn write
    //@   ret r
    //@   props C13
    //@   req[FileLogWriter::write.pre.perm] forall|x: &Record| #[trigger] sh_write_ok(x) <==> (x == record && level_num(record_level(record)) <= filter_num(self.ceiling()))
    //@   ens[FileLogWriter::write.post.above] !(level_num(record_level(record)) <= filter_num(self.ceiling())) ==> r is Ok
    //@   ens[FileLogWriter::write.post.handed_over] level_num(record_level(record)) <= filter_num(self.ceiling()) ==> r == sh_write_result(record)
    //@   canary
    //@ fn src/writers/file_log_writer.rs impl LogWriter for FileLogWriter / fn max_log_level
    //@   ret r
    //@   props C13,C02
    //@   ens[FileLogWriter::max_log_level.post] r == self.ceiling()
    //@ fn src/writers/file_log_writer.rs impl LogWriter for FileLogWriter / fn flush
    //@   props C04
    //@ fn src/writers/file_log_writer.rs impl LogWriter for FileLogWriter / fn shutdown
    //@   props C04
    }
}
}
fn main() {}

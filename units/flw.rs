#![feature(pattern)]
#![allow(unused_imports, dead_code, unused_variables, unused_mut, unreachable_code, unused_parens)]
// Unit `flw` (C13, C15, C18): FileLogWriter — the level ceiling of `write` and the forwarding wrappers
// (src/writers/file_log_writer.rs). Callee StateHandle is a shim carrying unit-local effect permissions.
use vstd::prelude::*;
verus! {
//@ include prelude/types.rs
//@ include prelude/logcrate.rs
//@ include prelude/strings.rs
//@ include prelude/logrecord.rs

pub mod shims {
    use super::*;
    //@ include prelude/dnow_shim.rs
    // abstract collaborators (no extensionality: two values are not provably equal)
    #[verifier::external_body]
    pub struct FlexiLoggerError { _o: () }
    #[verifier::external_body]
    pub struct FileLogWriterBuilder { _o: () }
    #[verifier::external_body]
    pub struct FileLogWriterConfig { _o: () }
    #[verifier::external_body]
    pub struct LogfileSelector { _o: () }
}
pub mod state_handle {
    use super::*;
    use super::shims::*;
    use log::Record;
    use std::path::PathBuf;
    use std::time::Duration;
    /// SHIM for `State` / `WriteMode`: only the effective write mode of the configuration matters in `FileLogWriter::new`
    //@ item src/write_mode.rs enum EffectiveWriteMode
    pub struct WriteMode { _o: () }
    pub uninterp spec fn effective(m: WriteMode) -> EffectiveWriteMode;
    impl WriteMode {
        #[verifier::external_body]
        pub(crate) fn effective_write_mode(&self) -> (r: EffectiveWriteMode) ensures r == effective(*self) { unimplemented!() }
    }
    pub struct FileLogWriterConfig2 { pub write_mode: WriteMode }
    pub struct State { pub cfg: FileLogWriterConfig2, pub id: int }
    impl State {
        #[verifier::external_body]
        pub fn config(&self) -> (r: &FileLogWriterConfig2) ensures *r == self.cfg { unimplemented!() }
    }
    /// SHIM (R4): the fn-pointer alias FormatFunction
    #[derive(Clone, Copy)]
    pub struct VFormatFn { _o: () }
    /// SHIM for `enum StateHandle` (decided in unit `handle`): the operations FileLogWriter forwards to; `made` records what
    /// a handle was made from (state, format function, asynchronous?)
    pub struct StateHandle { _o: () }
    pub uninterp spec fn made(h: StateHandle) -> (State, VFormatFn, bool);
    pub uninterp spec fn async_capas(h: StateHandle) -> (usize, usize);
    impl StateHandle {
        #[verifier::external_body]
        pub(super) fn new_sync(state: State, format_function: VFormatFn) -> (r: StateHandle)
            ensures made(r) == (state, format_function, false)
        { unimplemented!() }
        #[verifier::external_body]
        pub(super) fn new_async(pool_capa: usize, message_capa: usize, state: State, format_function: VFormatFn) -> (r: StateHandle)
            ensures made(r) == (state, format_function, true), async_capas(r) == (pool_capa, message_capa)
        { unimplemented!() }
    }
    /// permission: the record that may reach the state handle / the bytes that may be written raw
    pub uninterp spec fn sh_write_ok(record: &Record) -> bool;
    pub uninterp spec fn sh_plain_ok(buf: Seq<u8>) -> bool;
    /// oracle: the result of handing a record to the state handle
    pub uninterp spec fn sh_write_result(record: &Record) -> std::io::Result<()>;
    pub uninterp spec fn plain_write_result(buf: Seq<u8>) -> Result<usize, std::io::Error>;
    impl StateHandle {
        #[verifier::external_body]
        pub(super) fn write(&self, now: &mut DeferredNow, record: &Record) -> (r: std::io::Result<()>)
            requires
                sh_write_ok(record), //@label StateHandle::write.perm C13
                now_ok(old(now).origin()), //@label StateHandle::write.same_now C20
            ensures r == sh_write_result(record), final(now).origin() == old(now).origin(),
        { unimplemented!() }
        #[verifier::external_body]
        pub(super) fn plain_write(&self, buffer: &[u8]) -> (r: std::result::Result<usize, std::io::Error>)
            requires
                sh_plain_ok(buffer@), //@label StateHandle::plain_write.perm C15
            ensures r == plain_write_result(buffer@),
        { unimplemented!() }
        #[verifier::external_body]
        pub(super) fn flush(&self) -> (r: std::io::Result<()>) ensures r == sh_flush_result(), sh_flushed() { unimplemented!() }
        #[verifier::external_body]
        pub(super) fn shutdown(&self) ensures sh_shut() { unimplemented!() }
        #[verifier::external_body]
        pub(super) fn reset(&self, flwb: &FileLogWriterBuilder) -> (r: Result<(), FlexiLoggerError>) ensures r == sh_reset_result(flwb) { unimplemented!() }
        #[verifier::external_body]
        pub(super) fn config(&self) -> (r: Result<FileLogWriterConfig, FlexiLoggerError>) ensures r == sh_config_result() { unimplemented!() }
        #[verifier::external_body]
        pub(super) fn reopen_outputfile(&self) -> (r: Result<(), FlexiLoggerError>) ensures r == sh_reopen_result(), sh_reopened() { unimplemented!() }
        #[verifier::external_body]
        pub(super) fn rotate(&self) -> (r: Result<(), FlexiLoggerError>) ensures r == sh_rotate_result(), sh_rotated() { unimplemented!() }
        #[verifier::external_body]
        pub(super) fn existing_log_files(&self, selector: &LogfileSelector) -> (r: Result<Vec<PathBuf>, FlexiLoggerError>)
            ensures r == sh_elf_result(selector)
        { unimplemented!() }
    }
    /// result oracles and token facts ("the call happened": only the callee's ensures establishes them) of the forwarded operations
    pub uninterp spec fn sh_flush_result() -> std::io::Result<()>;
    pub uninterp spec fn sh_flushed() -> bool;
    pub uninterp spec fn sh_shut() -> bool;
    pub uninterp spec fn sh_reset_result(b: &FileLogWriterBuilder) -> Result<(), FlexiLoggerError>;
    pub uninterp spec fn sh_config_result() -> Result<FileLogWriterConfig, FlexiLoggerError>;
    pub uninterp spec fn sh_reopen_result() -> Result<(), FlexiLoggerError>;
    pub uninterp spec fn sh_reopened() -> bool;
    pub uninterp spec fn sh_rotate_result() -> Result<(), FlexiLoggerError>;
    pub uninterp spec fn sh_rotated() -> bool;
    /// oracle: the state handle's listing for a selector (unit `handle`)
    pub uninterp spec fn sh_elf_result(selector: &LogfileSelector) -> Result<Vec<PathBuf>, FlexiLoggerError>;
}
pub mod file_log_writer {
    use super::*;
    use super::level_axioms::*;
    use super::shims::*;
    use super::state_handle::*;
    use log::Record;
    use std::path::PathBuf;
    broadcast use group_level_axioms;

    //@ item src/writers/file_log_writer.rs struct FileLogWriter
    //@   dropattr #[derive
    type FormatFunction = VFormatFn;
    impl FileLogWriter {
        pub closed spec fn ceiling(&self) -> log::LevelFilter { self.max_log_level }
        pub closed spec fn handle(&self) -> StateHandle { self.state_handle }
    //@ fn src/writers/file_log_writer.rs impl FileLogWriter / fn new
    //@   ret r
    //@   props C20,C15,C13
    //@   ens[FileLogWriter::new.post.ceiling] r.ceiling() == max_log_level
    //@   ens[FileLogWriter::new.post.made_from] made(r.handle()).0 == state && made(r.handle()).1 == format_function
    //@   ens[FileLogWriter::new.post.mode] made(r.handle()).2 == !(effective(state.cfg.write_mode) is Direct || effective(state.cfg.write_mode) is BufferAndFlushWith || effective(state.cfg.write_mode) is BufferDontFlushWith)
    //@ fn src/writers/file_log_writer.rs impl FileLogWriter / fn existing_log_files
    //@   ret r
    //@   props C16
    //@   ens[FileLogWriter::existing_log_files.post] r == sh_elf_result(selector)
    //@ fn src/writers/file_log_writer.rs impl FileLogWriter / fn reset
    //@   ret r
    //@   props C18
    //@   ens[FileLogWriter::reset.post] r == sh_reset_result(flwb)
    //@ fn src/writers/file_log_writer.rs impl FileLogWriter / fn config
    //@   ret r
    //@   props C18
    //@   ens[FileLogWriter::config.post] r == sh_config_result()
    //@ fn src/writers/file_log_writer.rs impl FileLogWriter / fn reopen_outputfile
    //@   ret r
    //@   props C18
    //@   ens[FileLogWriter::reopen_outputfile.post] r == sh_reopen_result() && sh_reopened()
    //@ fn src/writers/file_log_writer.rs impl FileLogWriter / fn rotate
    //@   ret r
    //@   props C08,C01,C18
    //@   ens[FileLogWriter::rotate.post] r == sh_rotate_result() && sh_rotated()
    //@ fn src/writers/file_log_writer.rs impl FileLogWriter / fn plain_write
    //@   ret r
    //@   props C15,C01
    //@   req[FileLogWriter::plain_write.pre.perm] forall|b: Seq<u8>| #[trigger] sh_plain_ok(b) <==> b == buffer@
    //@   ens[FileLogWriter::plain_write.post] r == plain_write_result(buffer@)
    //@   canary
    }
    // R9: the methods of `impl LogWriter for FileLogWriter` are emitted as inherent methods (no `requires` on trait impls)
    impl FileLogWriter {
    //@ fn src/writers/file_log_writer.rs impl LogWriter for FileLogWriter / fn write
    //@   ret r
    //@   props C13,C01,C02
    //@   req[FileLogWriter::write.pre.perm] forall|x: &Record| #[trigger] sh_write_ok(x) <==> (x == record && level_num(record_level(record)) <= filter_num(self.ceiling()))
    //@   props C20
    //@   req[FileLogWriter::write.pre.same_now] forall|o: int| #[trigger] now_ok(o) <==> o == old(now).origin()
    //@   ens[FileLogWriter::write.post.same_now] final(now).origin() == old(now).origin()
    //@   props C13
    //@   ens[FileLogWriter::write.post.above] !(level_num(record_level(record)) <= filter_num(self.ceiling())) ==> r is Ok
    //@   ens[FileLogWriter::write.post.handed_over] level_num(record_level(record)) <= filter_num(self.ceiling()) ==> r == sh_write_result(record)
    //@   canary
    //@ fn src/writers/file_log_writer.rs impl LogWriter for FileLogWriter / fn max_log_level
    //@   fallback src/writers/log_writer.rs trait LogWriter / fn max_log_level
    //@   ret r
    //@   props C13,C02
    //@   ens[FileLogWriter::max_log_level.post] r == self.ceiling()
    //@ fn src/writers/file_log_writer.rs impl LogWriter for FileLogWriter / fn flush
    //@   ret r
    //@   props C04,C15
    //@   ens[FileLogWriter::flush.post] r == sh_flush_result() && sh_flushed()
    //@ fn src/writers/file_log_writer.rs impl LogWriter for FileLogWriter / fn shutdown
    //@   fallback src/writers/log_writer.rs trait LogWriter / fn shutdown
    //@   props C04,C15
    //@   ens[FileLogWriter::shutdown.post] sh_shut()
    //@ fn src/writers/file_log_writer.rs impl LogWriter for FileLogWriter / fn reopen_output
    //@   fallback src/writers/log_writer.rs trait LogWriter / fn reopen_output
    //@   ret r
    //@   props C18
    //@   ens[FileLogWriter::reopen_output.post] r == sh_reopen_result() && sh_reopened()
    //@ fn src/writers/file_log_writer.rs impl LogWriter for FileLogWriter / fn rotate
    //@   fallback src/writers/log_writer.rs trait LogWriter / fn rotate
    //@   ret r
    //@   rename rotate_as_log_writer
    //@   props C08,C01,C18
    //@   ens[LogWriter_for_FileLogWriter::rotate.post] r == sh_rotate_result() && sh_rotated()
    // C04: dropping the writer shuts it down (flushes)
    //@ fn src/writers/file_log_writer.rs impl Drop for FileLogWriter / fn drop
    //@   rename drop_impl
    //@   props C04
    //@   ens[FileLogWriter::drop.post] sh_shut()
    }
}
}
fn main() {}

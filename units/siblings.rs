#![allow(unused_imports, dead_code, unused_variables, unused_mut, unreachable_code, unused_parens)]
// Unit `siblings` (C14, C07, C06, C01): the head of FileSpec::collision_free_infix_for_rotated_file (src/parameters/file_spec.rs) —
// which listed files count as `.restart-NNNN` siblings of a rotated file: the files of both listings (plain suffix, `.gz`) whose
// suffix — a trailing `.gz` ignored — is the configured one and whose name contains ".restart-"; all of them, no others. The
// statement that builds `restart_siblings` is copied into the wrapper below (rule R20: eager iterator shims, `chain` included);
// std::path / OsString operations are oracles over the path text.
use vstd::prelude::*;
verus! {
//@ include prelude/types.rs
//@ include prelude/combinators.rs
//@ include prelude/viter.rs

#[verifier::external_type_specification]
#[verifier::external_body]
pub struct ExOsStr(std::ffi::OsStr);
#[verifier::external_type_specification]
#[verifier::external_body]
pub struct ExOsString(std::ffi::OsString);
pub uninterp spec fn pathbuf_path(p: &std::path::PathBuf) -> &std::path::Path;
pub assume_specification[ <std::path::PathBuf as core::ops::Deref>::deref ](p: &std::path::PathBuf) -> (r: &std::path::Path)
    ensures r == pathbuf_path(p);
/// oracles over the text of a path: its extension, its file name, and the path without its extension
pub uninterp spec fn ext_text(p: &std::path::Path) -> Option<Seq<char>>;
pub uninterp spec fn file_name_text(p: &std::path::Path) -> Option<Seq<char>>;
pub uninterp spec fn osstr_text(s: &std::ffi::OsStr) -> Seq<char>;
pub uninterp spec fn osstring_text(s: &std::ffi::OsString) -> Seq<char>;
pub uninterp spec fn cow_text(c: std::borrow::Cow<'_, str>) -> Seq<char>;
/// the extension of the path that remains when the extension is taken away (`a.log.gz` -> `log`)
pub uninterp spec fn inner_ext_text(p: &std::path::Path) -> Option<Seq<char>>;
pub assume_specification[ std::path::Path::extension ](p: &std::path::Path) -> (r: Option<&std::ffi::OsStr>)
    ensures (r is Some) == (ext_text(p) is Some), r is Some ==> osstr_text(r->Some_0) == ext_text(p)->Some_0;
pub assume_specification[ std::path::Path::file_name ](p: &std::path::Path) -> (r: Option<&std::ffi::OsStr>)
    ensures (r is Some) == (file_name_text(p) is Some), r is Some ==> osstr_text(r->Some_0) == file_name_text(p)->Some_0;
pub assume_specification[ std::ffi::OsStr::to_string_lossy ](s: &std::ffi::OsStr) -> (r: std::borrow::Cow<'_, str>)
    ensures cow_text(r) == osstr_text(s);
/// SHIMS (R42) for the OsString / PathBuf conversions of the suffix filter
#[verifier::external_body]
pub fn vpathbuf_from(pb: &std::path::PathBuf) -> (r: std::path::PathBuf)
    ensures r == *pb
{ std::path::PathBuf::from(pb) }
/// `p.extension() == Some(OsString::from(text).as_ref())`
#[verifier::external_body]
pub fn vext_is(p: &std::path::PathBuf, text: &str) -> (r: bool)
    ensures r == (ext_text(pathbuf_path(p)) == Some(text@))
{ p.extension() == Some(std::ffi::OsString::from(text).as_ref()) }
/// `p.set_extension("")`: the extension is taken away
#[verifier::external_body]
pub fn vdrop_extension(p: &mut std::path::PathBuf) -> (r: bool)
    ensures ext_text(pathbuf_path(final(p))) == inner_ext_text(pathbuf_path(old(p))),
{ p.set_extension("") }
/// `text.contains(".restart-")` on the lossy file name
pub uninterp spec fn has_restart_marker(name: Seq<char>) -> bool;
pub trait VContainsMarker: Sized { spec fn vtext(self) -> Seq<char>; fn vcontains_marker(self) -> (r: bool) ensures r == has_restart_marker(self.vtext()); }
impl<'a> VContainsMarker for std::borrow::Cow<'a, str> {
    open spec fn vtext(self) -> Seq<char> { cow_text(self) }
    #[verifier::external_body]
    fn vcontains_marker(self) -> (r: bool) { self.contains(".restart-") }
}

pub mod file_spec {
    use super::*;
    use std::path::{Path, PathBuf};
    /// SHIM: only the suffix option is read here
    pub struct FileSpec { pub o_suffix: Option<String> }

    /// the suffix of a listed file with a trailing `.gz` ignored
    pub open spec fn suffix_of(pb: &PathBuf) -> Option<Seq<char>> {
        if ext_text(pathbuf_path(pb)) == Some("gz"@) { inner_ext_text(pathbuf_path(pb)) } else { ext_text(pathbuf_path(pb)) }
    }
    /// C14: a listed file is a restart sibling iff its suffix (`.gz` ignored) is the configured one and its name carries the marker
    pub open spec fn is_sibling(fs: &FileSpec, pb: &PathBuf) -> bool {
        (match fs.o_suffix { Some(sfx) => suffix_of(pb) == Some(sfx@), None => true })
        && file_name_text(pathbuf_path(pb)) is Some && has_restart_marker(file_name_text(pathbuf_path(pb))->Some_0)
    }
    impl FileSpec {
        pub(crate) fn restart_siblings_of(&self, uncompressed_files: Vec<PathBuf>, compressed_files: Vec<PathBuf>) -> (r: Vec<PathBuf>)
            requires
                // the entries come from read_dir: they have a file name (the code unwraps it)
                forall|i: int| 0 <= i < uncompressed_files@.len() ==> file_name_text(pathbuf_path(&#[trigger] uncompressed_files@[i])) is Some,
                forall|i: int| 0 <= i < compressed_files@.len() ==> file_name_text(pathbuf_path(&#[trigger] compressed_files@[i])) is Some,
            ensures
                // only siblings, and only listed files
                forall|j: int| 0 <= j < r@.len() ==> is_sibling(self, &#[trigger] r@[j]) && (uncompressed_files@ + compressed_files@).contains(r@[j]), //@label restart_siblings.post.only_siblings C14,C07,C06,C01
                // every listed sibling
                forall|i: int| 0 <= i < (uncompressed_files@ + compressed_files@).len() && is_sibling(self, &#[trigger] (uncompressed_files@ + compressed_files@)[i]) ==> r@.contains((uncompressed_files@ + compressed_files@)[i]), //@label restart_siblings.post.all_siblings C14,C07,C06,C01
        {
            proof { reveal_strlit("gz"); }
    //@ span src/parameters/file_spec.rs impl FileSpec / fn collision_free_infix_for_rotated_file
    //@   from let restart_siblings = uncompressed_files
    //@   uptosemi .collect::<Vec<PathBuf>>()
    //@   rename restart_siblings_of
    //@   rule R20 *
    //@   rule R42 *
    //@   closure ~pb2.set_extension ## sig |pb: &PathBuf| -> (r: bool)
    //@   closure ~pb2.set_extension ## ens r == (match self.o_suffix { Some(sfx) => suffix_of(pb) == Some(sfx@), None => true })
    //@   closure ~.contains(".restart-") ## sig |pb: &PathBuf| -> (r: bool)
    //@   closure ~.contains(".restart-") ## req file_name_text(pathbuf_path(pb)) is Some
    //@   closure ~.contains(".restart-") ## ens r == has_restart_marker(file_name_text(pathbuf_path(pb))->Some_0)
            restart_siblings
        }
    }
}
}
fn main() {}

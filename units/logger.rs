#![feature(pattern)]
#![allow(unused_imports, dead_code, unused_variables, unused_mut, unreachable_code, unused_parens)]
// Unit `logger` (C02, C13, C10, C19, C20): FlexiLogger::{primary_enabled, enabled, log, flush} (src/flexi_logger.rs)
use vstd::prelude::*;
verus! {
//@ include prelude/types.rs
//@ include prelude/logcrate.rs
//@ include prelude/sync.rs
//@ include prelude/strings.rs
//@ include prelude/logrecord.rs
//@ include prelude/combinators.rs
//@ include prelude/hashmap.rs

pub mod util {
    use super::*;
    //@ item src/util.rs enum ErrorCode
    pub uninterp spec fn reportable(code: ErrorCode) -> bool;
    pub trait VErr {}
    impl VErr for std::io::Error {}
    impl<T> VErr for std::sync::PoisonError<T> {}
    #[verifier::external_body]
    pub(crate) fn eprint_err<E: VErr>(error_code: ErrorCode, msg: &str, err: &E)
        requires
            reportable(error_code), //@label eprint_err.perm.reportable C19
        ensures reported(error_code),
    { unimplemented!() }
    /// token fact (C19 / C13, "if" direction): a problem was handed to the error channel with this code - only eprint_err /
    /// eprint_msg establish it (unit `errchan`: both serve the configured channel)
    pub uninterp spec fn reported(code: ErrorCode) -> bool;
    //@ sig src/util.rs fn eprint_msg
    //@   props C13,C19
    //@   req[eprint_msg.perm.reportable] reportable(error_code)
    //@   ens reported(error_code)
}
pub mod deferred_now {
    use super::*;
    //@ opaque src/deferred_now.rs struct DeferredNow
    //@   dropattr #[derive
    impl DeferredNow {
        /// C20 "all outputs of one record carry the same timestamp": the identity of a timestamp holder. Two calls of
        /// `DeferredNow::new()` return holders whose origins are unrelated unknowns; every output keeps the origin of the
        /// holder it is handed (`final(now).origin() == old(now).origin()`); `DeferredNow::now()` reads the clock once per
        /// holder (unit `dnow`). So "every output was handed a holder of one origin" is "one timestamp".
        pub uninterp spec fn origin(&self) -> int;
        #[verifier::external_body]
        pub fn new() -> (r: DeferredNow) ensures is_origin(r.origin()) { unimplemented!() }
    }
    /// marker (always usable as a trigger): o is the origin of a holder that exists in this call
    pub uninterp spec fn is_origin(o: int) -> bool;
    impl DeferredNow {
    }
}
pub mod log_specification {
    use super::*;
    use regex::Regex;
    //@ opaque src/log_specification.rs struct LogSpecification
    //@   dropattr #[derive
    impl LogSpecification {
        /// = spec_enabled_from(self.mfs(), 0, level, target), proved for LogSpecification::enabled in unit `spec`
        pub uninterp spec fn enabled_spec(&self, level: log::Level, target: Seq<char>) -> bool;
        pub uninterp spec fn text_filter_spec(&self) -> Option<&regex::Regex>;
        //@ sig src/log_specification.rs impl LogSpecification / fn enabled
        //@   ret r
        //@   ens r == self.enabled_spec(level, writing_module@)
        //@ sig src/log_specification.rs impl LogSpecification / fn text_filter
        //@   ret r
        //@   ens r == self.text_filter_spec()
    }
}
pub mod filter {
    use super::*;
    use super::deferred_now::DeferredNow;
    use log::Record;
    pub trait LogLineWriter {
        fn write(&self, now: &mut DeferredNow, record: &Record) -> std::io::Result<()>;
    }
    /// permission: the record the user-supplied line filter may be handed (DESIGN 3.4)
    pub uninterp spec fn filter_ok(record: &Record) -> bool;
    /// token fact: only a call of the line filter's write establishes it
    pub uninterp spec fn filter_called() -> bool;
    pub uninterp spec fn filter_called_from(origin: int) -> bool;
    /// oracle: the outcome of the line filter's write
    pub uninterp spec fn filter_result(record: &Record) -> std::io::Result<()>;
    pub trait LogLineFilter: Send + Sync {
        fn write(&self, now: &mut DeferredNow, record: &Record, log_line_writer: &dyn LogLineWriter) -> (r: std::io::Result<()>)
            requires
                filter_ok(record), //@label LogLineFilter::write.perm C02,C13
            ensures filter_called(), filter_called_from(old(now).origin()), final(now).origin() == old(now).origin(), r == filter_result(record),
        ;
    }
}
pub mod primary_writer {
    use super::*;
    use super::deferred_now::DeferredNow;
    use log::Record;
    //@ opaque src/primary_writer.rs enum PrimaryWriter
    pub uninterp spec fn pw_ok(record: &Record) -> bool;
    /// token fact: only a call of PrimaryWriter::write establishes it
    pub uninterp spec fn pw_written() -> bool;
    pub uninterp spec fn pw_written_from(origin: int) -> bool;
    pub uninterp spec fn pw_flushed() -> bool;
    /// oracle: the outcome of the primary writer's flush
    pub uninterp spec fn pw_flush_result() -> std::io::Result<()>;
    /// oracle: the outcome of the primary writer's write
    pub uninterp spec fn pw_result(record: &Record) -> std::io::Result<()>;
    impl PrimaryWriter {
        //@ sig src/primary_writer.rs impl PrimaryWriter / fn write
        //@   props C02,C13
        //@   req[PrimaryWriter::write.perm] pw_ok(record)
        //@   ens pw_written() && pw_written_from(old(now).origin()) && final(now).origin() == old(now).origin()
        //@   ret r
        //@   ens r == pw_result(record)
        //@ sig src/primary_writer.rs impl PrimaryWriter / fn flush
        //@   ret r
        //@   ens pw_flushed()
        //@   ens r == pw_flush_result()
    }
    impl super::filter::LogLineWriter for PrimaryWriter {
        #[verifier::external_body]
        fn write(&self, now: &mut DeferredNow, record: &Record) -> std::io::Result<()> { unimplemented!() }
    }
}
pub mod writers {
    use super::*;
    use super::deferred_now::DeferredNow;
    use log::Record;
    /// permission: which additional writer (by identity) may be handed which record
    pub uninterp spec fn ow_ok(wid: int, record: &Record) -> bool;
    /// token fact: only a call of write on the additional writer with this identity establishes it
    pub uninterp spec fn ow_written(wid: int) -> bool;
    pub uninterp spec fn ow_written_from(wid: int, origin: int) -> bool;
    pub uninterp spec fn ow_flushed(wid: int) -> bool;
    /// oracle: the outcome of flushing the additional writer with this identity
    pub uninterp spec fn ow_flush_result(wid: int) -> std::io::Result<()>;
    /// oracle: the outcome of handing the record to the additional writer with this identity
    pub uninterp spec fn ow_result(wid: int, record: &Record) -> std::io::Result<()>;
    /// SHIM: the methods of `trait LogWriter` that FlexiLogger calls
    pub trait LogWriter: Send + Sync {
        spec fn max_log_level_spec(&self) -> log::LevelFilter;
        /// identity of a writer object
        spec fn wid(&self) -> int;
        fn write(&self, now: &mut DeferredNow, record: &Record) -> (r: std::io::Result<()>)
            requires
                ow_ok(self.wid(), record), //@label LogWriter::write.perm C13
            ensures ow_written(self.wid()), ow_written_from(self.wid(), old(now).origin()), final(now).origin() == old(now).origin(), r == ow_result(self.wid(), record),
        ;
        fn flush(&self) -> (r: std::io::Result<()>)
            ensures ow_flushed(self.wid()), r == ow_flush_result(self.wid());
        fn max_log_level(&self) -> (r: log::LevelFilter)
            ensures r == self.max_log_level_spec();
    }
}

pub mod flexi_logger {
    use super::*;
    use super::level_axioms::*;
    use super::{filter::LogLineFilter, primary_writer::PrimaryWriter, util::{eprint_err, eprint_msg, ErrorCode}, writers::LogWriter,
        deferred_now::DeferredNow, log_specification::LogSpecification};
    use regex::Regex;
    use std::collections::HashMap;
    use std::sync::{Arc, RwLock};
    use super::strmap_axioms::*;
    broadcast use group_level_axioms, group_pat_seq, group_strmap, vstd::std_specs::hash::group_hash_axioms;

    //@ item src/flexi_logger.rs struct FlexiLogger
    //@   rule R2 *

    impl FlexiLogger {
        pub closed spec fn active(&self) -> LogSpecification { *lock_content(&*self.log_specification) }
    //@ fn src/flexi_logger.rs impl FlexiLogger / fn primary_enabled
    //@   ret r
    //@   props C02
    //@   req[primary_enabled.pre.report] super::util::reportable(ErrorCode::Poison)
    //@   ens[primary_enabled.post] r == self.active().enabled_spec(level, module@)
    //@   canary
    }
    // ---- brace targets (C13) ---------------------------------------------------------------------
    pub open spec fn is_brace(t: Seq<char>) -> bool { is_prefix_chars(seq!['{'], t) }
    pub open spec fn inner_of(t: Seq<char>) -> Seq<char> {
        let a = match strip_prefix_spec(t, seq!['{']) { Some(x) => x, None => t };
        match strip_suffix_spec(a, seq!['}']) { Some(x) => x, None => a }
    }
    /// the writer names of a brace target `{a,b,_Default}`
    pub open spec fn pieces(t: Seq<char>) -> Seq<Seq<char>> { split_seq(inner_of(t), seq![',']) }
    pub open spec fn has_default(t: Seq<char>) -> bool { exists|k: int| 0 <= k < pieces(t).len() && #[trigger] pieces(t)[k] == "_Default"@ }

    impl FlexiLogger {
        pub closed spec fn writers(&self) -> Map<String, Box<dyn LogWriter>> { (*self.other_writers)@ }
        pub closed spec fn has_filter(&self) -> bool { self.filter is Some }
        /// the additional writer with identity `id` is registered under a name listed in the brace target `t`
        pub open spec fn addressed(&self, t: Seq<char>, id: int) -> bool {
            is_brace(t) && exists|k: int| 0 <= k < pieces(t).len() && pieces(t)[k] != "_Default"@
                && (#[trigger] str_lookup(self.writers(), pieces(t)[k])) is Some && str_lookup(self.writers(), pieces(t)[k])->Some_0.wid() == id
        }
        /// C02/C13: the default channel may get the record only if ...
        pub open spec fn primary_allowed(&self, record: &log::Record) -> bool {
            let t = record_target(record);
            // a brace target reaches the default channel only if it lists _Default; then the module path decides
            &&& (is_brace(t) ==> has_default(t))
            &&& self.active().enabled_spec(record_level(record),
                    if is_brace(t) { match record_module_path(record) { Some(m) => m, None => ""@ } } else { t })
            // and the text filter, when set, matches the message
            &&& match self.active().text_filter_spec() { Some(re) => regex_is_match(re, record_msg(record)), None => true }
        }
    }
    // R9: the methods of `impl log::Log for FlexiLogger` are emitted as inherent methods (Verus accepts no `requires`
    // on trait-impl methods); signatures and bodies are the copied text.
    impl FlexiLogger {
    //@ fn src/flexi_logger.rs impl log::Log for FlexiLogger / fn enabled
    //@   attr #[verifier::loop_isolation(false)]
    //@   ret r
    //@   props C02
    //@   rule R8 1
    //@   req[enabled.pre.report] forall|c: ErrorCode| #[trigger] super::util::reportable(c) <==> (c is Poison || c is WriterSpec)
    //@   loop 1 iter it
    //@   loop 1 inv[enabled.loop.inv] forall|k: int| 0 <= k < it.index@ ==> !(pieces(metadata_target(metadata))[k] != "_Default"@ && (#[trigger] str_lookup(self.writers(), pieces(metadata_target(metadata))[k])) is Some
    //@       && level_num(metadata_level(metadata)) <= filter_num(str_lookup(self.writers(), pieces(metadata_target(metadata))[k])->Some_0.max_log_level_spec()))
    //@   loop 1 inv it.seq().len() == pieces(metadata_target(metadata)).len() && forall|k: int| 0 <= k < it.seq().len() ==> (#[trigger] it.seq()[k])@ == pieces(metadata_target(metadata))[k]
    //@   ens[enabled.post.plain] !(self.writers().len() > 0 && is_brace(metadata_target(metadata))) ==> r == self.active().enabled_spec(metadata_level(metadata), metadata_target(metadata))
    //@   ens[enabled.post.brace] forall|k: int| self.writers().len() > 0 && is_brace(metadata_target(metadata)) && 0 <= k < pieces(metadata_target(metadata)).len()
    //@       && pieces(metadata_target(metadata))[k] != "_Default"@ && (#[trigger] str_lookup(self.writers(), pieces(metadata_target(metadata))[k])) is Some
    //@       && level_num(metadata_level(metadata)) <= filter_num(str_lookup(self.writers(), pieces(metadata_target(metadata))[k])->Some_0.max_log_level_spec()) ==> r
    //@   canary
    //@ fn src/flexi_logger.rs impl log::Log for FlexiLogger / fn log
    //@   attr #[verifier::loop_isolation(false)]
    //@   props C02,C13
    //@   rule R8 1
    //@   req[log.pre.report] forall|c: ErrorCode| #[trigger] super::util::reportable(c) <==> (c is Poison || c is WriterSpec || c is Write)
    //@   req[log.pre.pw] forall|r: &log::Record| #[trigger] super::primary_writer::pw_ok(r) <==> (r == record && !self.has_filter() && self.primary_allowed(record))
    //@   req[log.pre.filter] forall|r: &log::Record| #[trigger] super::filter::filter_ok(r) <==> (r == record && self.has_filter() && self.primary_allowed(record))
    //@   req[log.pre.ow] forall|id: int, r: &log::Record| #[trigger] super::writers::ow_ok(id, r) <==> (r == record && self.addressed(record_target(record), id))
    //@   loop 1 iter it
    //@   loop 1 inv[log.loop.written] forall|k: int| 0 <= k < it.index@ && pieces(record_target(record))[k] != "_Default"@ && (#[trigger] str_lookup(self.writers(), pieces(record_target(record))[k])) is Some
    //@       ==> super::writers::ow_written(str_lookup(self.writers(), pieces(record_target(record))[k])->Some_0.wid())
    //@   loop 1 inv[log.loop.default_seen] (exists|k: int| 0 <= k < it.index@ && #[trigger] pieces(record_target(record))[k] == "_Default"@) ==> use_default
    //@   ens[log.post.every_named_writer] forall|k: int| is_brace(record_target(record)) && 0 <= k < pieces(record_target(record)).len() && pieces(record_target(record))[k] != "_Default"@
    //@       && (#[trigger] str_lookup(self.writers(), pieces(record_target(record))[k])) is Some ==> super::writers::ow_written(str_lookup(self.writers(), pieces(record_target(record))[k])->Some_0.wid())
    //@   ens[log.post.default_channel] self.primary_allowed(record) ==> (if self.has_filter() { super::filter::filter_called() } else { super::primary_writer::pw_written() })
    //@   props C19,C13
    //@   loop 1 inv[log.loop.unknown_reported] forall|k: int| 0 <= k < it.index@ && pieces(record_target(record))[k] != "_Default"@ && (#[trigger] str_lookup(self.writers(), pieces(record_target(record))[k])) is None ==> super::util::reported(ErrorCode::WriterSpec)
    //@   loop 1 inv[log.loop.failure_reported] forall|k: int| 0 <= k < it.index@ && pieces(record_target(record))[k] != "_Default"@ && (#[trigger] str_lookup(self.writers(), pieces(record_target(record))[k])) is Some
    //@       && super::writers::ow_result(str_lookup(self.writers(), pieces(record_target(record))[k])->Some_0.wid(), record) is Err ==> super::util::reported(ErrorCode::Write)
    //@   ens[log.post.unknown_name_reported] forall|k: int| is_brace(record_target(record)) && 0 <= k < pieces(record_target(record)).len() && pieces(record_target(record))[k] != "_Default"@
    //@       && (#[trigger] str_lookup(self.writers(), pieces(record_target(record))[k])) is None ==> super::util::reported(ErrorCode::WriterSpec)
    //@   ens[log.post.writer_failure_reported] forall|k: int| is_brace(record_target(record)) && 0 <= k < pieces(record_target(record)).len() && pieces(record_target(record))[k] != "_Default"@
    //@       && (#[trigger] str_lookup(self.writers(), pieces(record_target(record))[k])) is Some
    //@       && super::writers::ow_result(str_lookup(self.writers(), pieces(record_target(record))[k])->Some_0.wid(), record) is Err ==> super::util::reported(ErrorCode::Write)
    //@   ens[log.post.primary_failure_reported] self.primary_allowed(record) && (if self.has_filter() { super::filter::filter_result(record) } else { super::primary_writer::pw_result(record) }) is Err ==> super::util::reported(ErrorCode::Write)
    //@   closure ~writing log line to custom writer ## sig |e: std::io::Error| -> (u: ())
    //@   closure ~writing log line to custom writer ## req super::util::reportable(ErrorCode::Write)
    //@   closure ~writing log line to custom writer ## ens super::util::reported(ErrorCode::Write)
    //@   closure ~writing log line failed ## sig |e: std::io::Error| -> (u: ())
    //@   closure ~writing log line failed ## req super::util::reportable(ErrorCode::Write)
    //@   closure ~writing log line failed ## ens super::util::reported(ErrorCode::Write)
    //@   props C20
    //@   loop 1 inv[log.loop.one_now] super::deferred_now::is_origin(now.origin()) && forall|k: int| 0 <= k < it.index@ && pieces(record_target(record))[k] != "_Default"@ && (#[trigger] str_lookup(self.writers(), pieces(record_target(record))[k])) is Some
    //@       ==> super::writers::ow_written_from(str_lookup(self.writers(), pieces(record_target(record))[k])->Some_0.wid(), now.origin())
    //@   ens[log.post.one_timestamp] exists|o: int| #[trigger] super::deferred_now::is_origin(o)
    //@       && (forall|k: int| is_brace(record_target(record)) && 0 <= k < pieces(record_target(record)).len() && pieces(record_target(record))[k] != "_Default"@
    //@           && (#[trigger] str_lookup(self.writers(), pieces(record_target(record))[k])) is Some ==> super::writers::ow_written_from(str_lookup(self.writers(), pieces(record_target(record))[k])->Some_0.wid(), o))
    //@       && (self.primary_allowed(record) ==> (if self.has_filter() { super::filter::filter_called_from(o) } else { super::primary_writer::pw_written_from(o) }))
    //@   props C02,C13
    //@   loop 1 inv[log.loop.default] use_default ==> exists|k: int| 0 <= k < it.index@ && #[trigger] pieces(record_target(record))[k] == "_Default"@
    //@   loop 1 inv it.seq().len() == pieces(record_target(record)).len() && forall|k: int| 0 <= k < it.seq().len() ==> (#[trigger] it.seq()[k])@ == pieces(record_target(record))[k]
    //@   closure ~text_filter.map_or ## sig |text_filter: Option<&Regex>| -> (r: bool)
    //@   closure ~text_filter.map_or ## ens r == match text_filter { Some(re) => regex_is_match(re, record_msg(record)), None => true }
    //@   closure ~filter.is_match ## sig |filter: &Regex| -> (r: bool)
    //@   closure ~filter.is_match ## ens r == regex_is_match(filter, record_msg(record))
    //@   canary
    //@ fn src/flexi_logger.rs impl log::Log for FlexiLogger / fn flush
    //@   attr #[verifier::loop_isolation(false)]
    //@   props C19
    //@   req[flush.pre.report] forall|c: ErrorCode| #[trigger] super::util::reportable(c) <==> c is Flush
    //@   props C04
    //@   loop 1 iter it
    //@   loop 1 inv[FlexiLogger::flush.loop.all] forall|w: Box<dyn LogWriter>| self.writers().values().contains(w) ==> #[trigger] it.seq().contains(&w)
    //@   loop 1 inv[FlexiLogger::flush.loop.done] super::primary_writer::pw_flushed() && forall|j: int| 0 <= j < it.index@ ==> super::writers::ow_flushed((#[trigger] it.seq()[j]).wid())
    //@   ens[FlexiLogger::flush.post.all] super::primary_writer::pw_flushed() && forall|w: Box<dyn LogWriter>| #[trigger] self.writers().values().contains(w) ==> super::writers::ow_flushed(w.wid())
    //@   props C19
    //@   loop 1 inv[FlexiLogger::flush.loop.reported] (super::primary_writer::pw_flush_result() is Err ==> super::util::reported(ErrorCode::Flush)) && forall|j: int| 0 <= j < it.index@ && super::writers::ow_flush_result((#[trigger] it.seq()[j]).wid()) is Err ==> super::util::reported(ErrorCode::Flush)
    //@   ens[FlexiLogger::flush.post.failure_reported] (super::primary_writer::pw_flush_result() is Err ==> super::util::reported(ErrorCode::Flush)) && forall|w: Box<dyn LogWriter>| #[trigger] self.writers().values().contains(w) && super::writers::ow_flush_result(w.wid()) is Err ==> super::util::reported(ErrorCode::Flush)
    //@   closure ~flushing primary writer failed ## sig |e: std::io::Error| -> (u: ())
    //@   closure ~flushing primary writer failed ## req super::util::reportable(ErrorCode::Flush)
    //@   closure ~flushing primary writer failed ## ens super::util::reported(ErrorCode::Flush)
    //@   closure ~flushing custom writer failed ## sig |e: std::io::Error| -> (u: ())
    //@   closure ~flushing custom writer failed ## req super::util::reportable(ErrorCode::Flush)
    //@   closure ~flushing custom writer failed ## ens super::util::reported(ErrorCode::Flush)
    }
}
}
fn main() {}

#![allow(unused_imports, dead_code, unused_variables, unused_mut, unreachable_code, unused_parens)]
// Unit `cleanup` (C07, C14, C10): list_and_cleanup::remove_or_compress_too_old_logfiles_impl
// (src/writers/file_log_writer/state/list_and_cleanup.rs), default features (no `compress`): which files of the listing
// are removed — for every listing length (the Kani harnesses cleanup_keeps_newest_n* check the same on lists of 0..5).
use vstd::prelude::*;
verus! {
//@ include prelude/types.rs
pub uninterp spec fn pathbuf_view(p: &std::path::PathBuf) -> Seq<char>;
pub uninterp spec fn aspath<P>(p: P) -> Seq<char>;
pub broadcast axiom fn ax_aspath_pathbuf(p: std::path::PathBuf)
    ensures #[trigger] aspath::<std::path::PathBuf>(p) == pathbuf_view(&p);
pub broadcast axiom fn ax_aspath_ref_pathbuf(p: &std::path::PathBuf)
    ensures #[trigger] aspath::<&std::path::PathBuf>(p) == pathbuf_view(p);

/// permission: which path may be removed
pub uninterp spec fn remove_ok(p: Seq<char>) -> bool;
/// oracle: the file system's answer to the removal of a path
pub uninterp spec fn fs_remove_result(p: Seq<char>) -> Result<(), std::io::Error>;
/// token fact: only a successful `remove_file(p)` establishes it
pub uninterp spec fn removed(p: Seq<char>) -> bool;
#[verifier::allow(undeclared_external_trait)]
pub assume_specification<P: AsRef<std::path::Path>>[ std::fs::remove_file ](p: P) -> (r: Result<(), std::io::Error>)
    requires
        remove_ok(aspath::<P>(p)), //@label fs::remove_file.perm C07,C14
    ensures r == fs_remove_result(aspath::<P>(p)), r is Ok ==> removed(aspath::<P>(p));

/// R12 SHIM for `v.into_iter().enumerate()`
pub trait VEnumerate<T> { fn venumerate(self) -> Vec<(usize, T)>; }
pub open spec fn enumerated<T>(v: Seq<T>, r: Seq<(usize, T)>) -> bool {
    r.len() == v.len() && forall|i: int| 0 <= i < v.len() ==> (#[trigger] r[i]).0 == i && r[i].1 == v[i]
}
impl<T> VEnumerate<T> for Vec<T> {
    #[verifier::external_body]
    fn venumerate(self) -> (r: Vec<(usize, T)>)
        ensures enumerated(self@, r@)
    { self.into_iter().enumerate().collect() }
}

pub mod shims {
    use super::*;
    pub struct FileSpec { _o: () }
    pub struct InfixFilter { _o: () }
}
pub mod cleanup {
    use super::*;
    //@ item src/parameters/cleanup.rs enum Cleanup
    //@   dropattr #[derive
    impl Clone for Cleanup { #[verifier::external_body] fn clone(&self) -> (r: Cleanup) ensures r == *self { unimplemented!() } }
    impl Copy for Cleanup {}
}
pub mod list_and_cleanup {
    use super::*;
    use super::shims::*;
    use super::cleanup::Cleanup;
    use std::path::PathBuf;
    broadcast use ax_aspath_pathbuf, ax_aspath_ref_pathbuf;

    /// oracle: the listing (newest first; composition proved in unit `listing`)
    pub uninterp spec fn listing(file_spec: &FileSpec, infix_filter: &InfixFilter) -> Seq<PathBuf>;
    /// SHIM for list_of_log_and_compressed_files (unit `listing`)
    #[verifier::external_body]
    pub(super) fn list_of_log_and_compressed_files(file_spec: &FileSpec, infix_filter: &InfixFilter) -> (r: Vec<PathBuf>)
        ensures r@ == listing(file_spec, infix_filter)
    { unimplemented!() }

    /// C07: how many files of the listing are kept — the configured number, at least one when the current file is in the
    /// listing (direct naming); everything for Cleanup::Never
    pub open spec fn keep(c: Cleanup, writes_direct: bool, n: int) -> int {
        match c {
            Cleanup::Never => n,
            Cleanup::KeepLogFiles(k) => if writes_direct && k == 0 { 1 } else { k as int },
        }
    }

    //@ fn src/writers/file_log_writer/state/list_and_cleanup.rs fn remove_or_compress_too_old_logfiles_impl
    //@   ret r
    //@   props C07,C14
    //@   rule R12 1
    //@   attr #[verifier::loop_isolation(false)]
    //@   prefix let ghost ls = listing(file_spec, infix_filter);
    //@   req[cleanup.pre.perm] forall|p: Seq<char>| #[trigger] remove_ok(p) <==> exists|i: int| keep(*cleanup_config, writes_direct, listing(file_spec, infix_filter).len() as int) <= i < listing(file_spec, infix_filter).len() && pathbuf_view(&#[trigger] listing(file_spec, infix_filter)[i]) == p
    //@   ens[cleanup.post.removed] forall|i: int| keep(*cleanup_config, writes_direct, listing(file_spec, infix_filter).len() as int) <= i < listing(file_spec, infix_filter).len()
    //@       && (forall|j: int| keep(*cleanup_config, writes_direct, listing(file_spec, infix_filter).len() as int) <= j <= i ==> fs_remove_result(pathbuf_view(&#[trigger] listing(file_spec, infix_filter)[j])) is Ok)
    //@       ==> removed(pathbuf_view(&#[trigger] listing(file_spec, infix_filter)[i]))
    //@   ens[cleanup.post.result] r is Ok <==> forall|j: int| keep(*cleanup_config, writes_direct, listing(file_spec, infix_filter).len() as int) <= j < listing(file_spec, infix_filter).len() ==> fs_remove_result(pathbuf_view(&#[trigger] listing(file_spec, infix_filter)[j])) is Ok
    //@   loop 1 iter it
    //@   loop 1 inv[cleanup.loop.seq] enumerated(ls, it.seq())
    //@   loop 1 inv[cleanup.loop.removed] forall|j: int| keep(*cleanup_config, writes_direct, ls.len() as int) <= j < it.index@ ==> removed(pathbuf_view(&#[trigger] ls[j])) && fs_remove_result(pathbuf_view(&ls[j])) is Ok
    //@   canary
}
}
fn main() {}

#![feature(pattern)]
#![feature(allocator_api)]
#![allow(unused_imports, dead_code, unused_variables, unused_mut, unreachable_code, unused_parens)]
// Unit `swrite` (C20, C01, C15, C19): the synchronous arm of StateHandle::write
// (src/writers/file_log_writer/state_handle.rs) and util::write_buffered (src/util.rs): line assembly.
// Both functions hand a closure that captures `&mut` variables to `buffer_with` (a thread-local RefCell<Vec<u8>>);
// neither closures capturing `&mut` nor thread-locals are within Verus. The two arms of the closure's `match`
// (`Ok(mut buffer) => {..}`: the thread-local buffer could be borrowed; `Err(_e) => {..}`: recursive logging, a
// temporary buffer is used) are copied, braces included, as the bodies of the wrapper functions below, whose
// parameters are the variables the closure captures; `buffer` (a `RefMut<Vec<u8>>` in the real code) is a
// `&mut Vec<u8>`. NOT verified: `buffer_with`, `try_borrow_mut`, the `match &self` around the closure.
use vstd::prelude::*;
verus! {
//@ include prelude/types.rs
//@ include prelude/sync.rs
//@ include prelude/combinators.rs

#[verifier::external_type_specification]
#[verifier::external_body]
pub struct ExRecord<'a>(log::Record<'a>);

pub assume_specification<T, E, F: FnOnce(&E)>[ Result::<T, E>::inspect_err ](res: Result<T, E>, f: F) -> (r: Result<T, E>)
    requires res is Err ==> f.requires((&res->Err_0,)),
    ensures r == res, res is Err ==> f.ensures((&res->Err_0,), ());
/// `<Vec<u8> as io::Write>::write_all` appends the bytes and cannot fail
pub assume_specification<A: std::alloc::Allocator>[ <Vec<u8, A> as std::io::Write>::write_all ](v: &mut Vec<u8, A>, buf: &[u8]) -> (r: std::io::Result<()>)
    ensures r is Ok, final(v)@ == old(v)@ + buf@;

pub mod util {
    use super::*;
    //@ item src/util.rs enum ErrorCode
    pub uninterp spec fn reportable(code: ErrorCode) -> bool;
    pub trait VErr {}
    impl VErr for std::io::Error {}
    impl<'a> VErr for &'a std::io::Error {}
    #[verifier::external_body]
    pub(crate) fn eprint_err<E: VErr>(error_code: ErrorCode, msg: &str, err: &E)
        requires
            reportable(error_code), //@label eprint_err.perm.reportable C19
        ensures reported(error_code),
    { unimplemented!() }
    /// token fact (C19, "if" direction): a problem was handed to the error channel with this code - only eprint_err establishes it
    pub uninterp spec fn reported(code: ErrorCode) -> bool;
}
pub mod shims {
    use super::*;
    /// SHIM (R4): the fn-pointer alias FormatFunction
    #[derive(Clone, Copy)]
    pub struct VFormatFn { _o: () }
    //@ include prelude/dnow_shim.rs
    /// oracles: the bytes a format function appends for a record, and whether it reports success
    /// (the format functions are `core::fmt` code outside the verifier, C20). A failing format function may have
    /// appended a part of its output: the line is then that part plus the line ending.
    pub uninterp spec fn fmt_bytes(f: VFormatFn, record: &log::Record) -> Seq<u8>;
    pub uninterp spec fn fmt_ok(f: VFormatFn, record: &log::Record) -> bool;
    /// token fact (C10): the user-supplied format code of this record has run (only `VFormatFn::call` establishes it); the
    /// state lock may only be taken afterwards (R27) - format / Display code may log recursively and must not meet a held lock
    pub trait VLockLate<T> {
        fn vlock_late(&self) -> (r: std::sync::LockResult<std::sync::MutexGuard<'_, T>>)
            requires
                fmt_done_any(), //@label Mutex::lock.after_format C10
            ensures r is Ok <==> !mutex_poisoned(self.the_mutex()), r is Ok ==> mguard_content(&r->Ok_0) == mutex_content(self.the_mutex()) && mutex_after(self.the_mutex()) == mguard_final(&r->Ok_0);
        spec fn the_mutex(&self) -> &std::sync::Mutex<T>;
    }
    impl<T> VLockLate<T> for std::sync::Mutex<T> {
        open spec fn the_mutex(&self) -> &std::sync::Mutex<T> { self }
        #[verifier::external_body]
        fn vlock_late(&self) -> (r: std::sync::LockResult<std::sync::MutexGuard<'_, T>>)
        { self.lock() }
    }
    pub uninterp spec fn fmt_done_any() -> bool;
    impl VFormatFn {
        #[verifier::external_body]
        pub fn call(&self, w: &mut Vec<u8>, now: &mut DeferredNow, record: &log::Record) -> (r: Result<(), std::io::Error>)
            requires
                now_ok(old(now).origin()), //@label FormatFunction::call.same_now C20
            ensures final(w)@ == old(w)@ + fmt_bytes(*self, record), r is Ok <==> fmt_ok(*self, record), final(now).origin() == old(now).origin(), fmt_done_any(),
        { unimplemented!() }
    }
    /// SHIM for std::time::Duration (only compared with ZERO_DURATION here): a number of nanoseconds
    pub type VDuration = u128;
    pub const ZERO_DURATION: VDuration = 0;
    pub struct WriteMode { _o: () }
    impl WriteMode {
        #[verifier::external_body]
        pub(crate) fn get_flush_interval(&self) -> (r: VDuration) { unimplemented!() }
    }
    pub struct FileLogWriterConfig { pub line_ending: &'static [u8], pub write_mode: WriteMode }
    /// SHIM for `State` (unit `state`): effect permission + the configured line ending
    pub struct State { pub cfg: FileLogWriterConfig }
    pub uninterp spec fn wb_ok(buf: Seq<u8>) -> bool;
    /// oracle: the outcome of State::write_buffer for these bytes
    pub uninterp spec fn wb_result(buf: Seq<u8>) -> std::io::Result<()>;
    /// oracle: the line ending in the configuration of the State behind the mutex
    pub uninterp spec fn state_line_ending() -> Seq<u8>;
    impl State {
        #[verifier::external_body]
        pub fn config(&self) -> (r: &FileLogWriterConfig) ensures r.line_ending@ == state_line_ending() { unimplemented!() }
        #[verifier::external_body]
        pub fn write_buffer(&mut self, buf: &[u8]) -> (r: std::io::Result<()>)
            requires
                wb_ok(buf@), //@label State::write_buffer.perm C20,C01,C15
            ensures r == wb_result(buf@),
        { unimplemented!() }
    }
    /// SHIM for a `&mut dyn Write` target (stdout, stderr, a user writer)
    pub struct VDynWrite { _o: () }
    pub uninterp spec fn dw_ok(buf: Seq<u8>) -> bool;
    pub uninterp spec fn dw_result(buf: Seq<u8>) -> std::io::Result<()>;
    impl VDynWrite {
        #[verifier::external_body]
        pub fn write_all(&mut self, buf: &[u8]) -> (r: std::io::Result<()>)
            requires
                dw_ok(buf@), //@label dyn_Write::write_all.perm C20
            ensures r == dw_result(buf@),
        { unimplemented!() }
    }
}
pub mod state {
    use super::*;
    use super::shims::*;
    use std::sync::{Arc, Mutex};
    /// SHIM: starts the flusher thread (threads are outside the verifier)
    #[verifier::external_body]
    pub(crate) fn start_sync_flusher(am_state: Arc<Mutex<State>>, flush_interval: VDuration) { unimplemented!() }
}
pub mod state_handle {
    use super::*;
    use super::shims::*;
    use super::util::{eprint_err, ErrorCode};
    use std::sync::{Arc, Mutex};
    use log::Record;
    use std::io::Write;
    type FormatFunction = VFormatFn;

    //@ item src/writers/file_log_writer/state_handle.rs struct SyncHandle
    //@ item src/writers/file_log_writer/state_handle.rs enum StateHandle
    //@   dropattr #[derive
    impl StateHandle {
        /// SHIM for StateHandle::plain_write (unit `handle`): the bytes go to State::write_buffer under the state lock; same permission
        #[verifier::external_body]
        pub(super) fn plain_write(&self, buffer: &[u8]) -> (r: std::io::Result<()>)
            requires
                wb_ok(buffer@), //@label StateHandle::plain_write.perm C20,C01,C15
            ensures r == wb_result(buffer@),
        { unimplemented!() }
        pub closed spec fn sync_handle(&self) -> SyncHandle { self->Sync_0 }
    //@ fn src/writers/file_log_writer/state_handle.rs impl StateHandle / fn new_sync
    //@   ret r
    //@   props C20,C15
    //@   ens[StateHandle::new_sync.post] r is Sync && r.sync_handle().ending() == state_line_ending() && r.sync_handle().fmt() == format_function
    //@ fn src/writers/file_log_writer/state_handle.rs impl StateHandle / fn format_function
    //@   ret r
    //@   props C20
    //@   ens[StateHandle::format_function.post] r == self.sync_handle().fmt()
    }

    impl SyncHandle {
        pub closed spec fn ending(&self) -> Seq<u8> { self.line_ending@ }
        pub closed spec fn fmt(&self) -> VFormatFn { self.format_function }
        pub closed spec fn poisoned(&self) -> bool { mutex_poisoned(&*self.am_state) }
    }

    impl SyncHandle {
    //@ fn src/writers/file_log_writer/state_handle.rs impl SyncHandle / fn new
    //@   ret r
    //@   props C20
    //@   ens[SyncHandle::new.post.ending] r.ending() == state_line_ending()
    //@   ens[SyncHandle::new.post.format] r.fmt() == format_function
    }

    /// `Ok(mut buffer)` arm: the thread-local buffer is free. It is empty between calls (the arm clears it on
    /// every path: this is what keeps one record's bytes out of the next record's line).
    impl StateHandle {
    pub(crate) fn sync_write_tl(&self, handle: &SyncHandle, now: &mut DeferredNow, record: &Record, buffer: &mut Vec<u8>)
        requires
            self is Sync && self.sync_handle() == *handle,
            old(buffer)@.len() == 0,
            // A10: the state mutex is not poisoned (the real code panics with a message otherwise)
            !handle.poisoned(),
            // C20/C01: exactly the format output followed by the configured line ending is handed to State::write_buffer
            forall|b: Seq<u8>| #[trigger] wb_ok(b) <==> b == fmt_bytes(handle.fmt(), record) + handle.ending(),
            forall|c: ErrorCode| #[trigger] super::util::reportable(c) <==> (c is Format || c is Write),
            // C20: the format function is handed the caller's timestamp holder, not a new one
            forall|o: int| #[trigger] now_ok(o) <==> o == old(now).origin(),
        ensures
            final(buffer)@.len() == 0, //@label sync_write_tl.post.buffer_cleared C01,C20
            final(now).origin() == old(now).origin(), //@label sync_write_tl.post.same_now C20
            // C19: a failing format function and a failing write of the line are reported
            !fmt_ok(handle.fmt(), record) ==> super::util::reported(ErrorCode::Format), //@label sync_write_tl.post.format_failure_reported C19
            wb_result(fmt_bytes(handle.fmt(), record) + handle.ending()) is Err ==> super::util::reported(ErrorCode::Write), //@label sync_write_tl.post.write_failure_reported C19
    //@ span src/writers/file_log_writer/state_handle.rs impl StateHandle / fn write
    //@   block Ok(mut buffer) =>
    //@   rename sync_write_tl
    //@   rule R4c 1
    //@   rule R27 *
    //@   closure ~*eprint_err(ErrorCode::Write ## sig |e: std::io::Error| -> (u: ())
    //@   closure ~*eprint_err(ErrorCode::Write ## req super::util::reportable(ErrorCode::Write)
    //@   closure ~*eprint_err(ErrorCode::Write ## ens super::util::reported(ErrorCode::Write)
    //@   closure ~eprint_err(ErrorCode::Format ## sig |e: std::io::Error| -> (u: ())
    //@   closure ~eprint_err(ErrorCode::Format ## req super::util::reportable(ErrorCode::Format)
    //@   closure ~eprint_err(ErrorCode::Format ## ens super::util::reported(ErrorCode::Format)
    //@   rule R3 *

    /// `Err(_e)` arm: recursive logging, a temporary buffer is used; the line ending is read from the State's
    /// configuration, which `SyncHandle::new` copied into `handle.line_ending`.
    pub(crate) fn sync_write_tmp(&self, handle: &SyncHandle, now: &mut DeferredNow, record: &Record)
        requires
            self is Sync && self.sync_handle() == *handle,
            !handle.poisoned(),
            // established by SyncHandle::new (SyncHandle::new.post.ending); the fields are never assigned afterwards
            handle.ending() == state_line_ending(),
            forall|b: Seq<u8>| #[trigger] wb_ok(b) <==> b == fmt_bytes(handle.fmt(), record) + handle.ending(),
            forall|c: ErrorCode| #[trigger] super::util::reportable(c) <==> (c is Format || c is Write),
            // C20: the format function is handed the caller's timestamp holder, not a new one
            forall|o: int| #[trigger] now_ok(o) <==> o == old(now).origin(),
        ensures
            final(now).origin() == old(now).origin(), //@label sync_write_tmp.post.same_now C20
            !fmt_ok(handle.fmt(), record) ==> super::util::reported(ErrorCode::Format), //@label sync_write_tmp.post.format_failure_reported C19
            wb_result(fmt_bytes(handle.fmt(), record) + handle.ending()) is Err ==> super::util::reported(ErrorCode::Write), //@label sync_write_tmp.post.write_failure_reported C19
    //@ span src/writers/file_log_writer/state_handle.rs impl StateHandle / fn write
    //@   block Err(_e) =>
    //@   rename sync_write_tmp
    //@   rule R4c 1
    //@   rule R27 *
    //@   closure ~*eprint_err(ErrorCode::Write ## sig |e: std::io::Error| -> (u: ())
    //@   closure ~*eprint_err(ErrorCode::Write ## req super::util::reportable(ErrorCode::Write)
    //@   closure ~*eprint_err(ErrorCode::Write ## ens super::util::reported(ErrorCode::Write)
    //@   closure ~eprint_err(ErrorCode::Format ## sig |e: std::io::Error| -> (u: ())
    //@   closure ~eprint_err(ErrorCode::Format ## req super::util::reportable(ErrorCode::Format)
    //@   closure ~eprint_err(ErrorCode::Format ## ens super::util::reported(ErrorCode::Format)
    //@   rule R3 *
    }
}
pub mod util_wb {
    use super::*;
    use super::shims::*;
    use super::util::{eprint_err, ErrorCode};
    use log::Record;
    use std::io::Write;
    type FormatFunction = VFormatFn;
    //@ literals

    /// util::write_buffered, `Ok(mut buffer)` arm (stdout / stderr / other `dyn Write` targets): LF line ending.
    /// `result` is the local of write_buffered that the closure assigns and write_buffered returns.
    pub(crate) fn write_buffered_tl(format_function: FormatFunction, now: &mut DeferredNow, record: &Record, w: &mut VDynWrite, buffer: &mut Vec<u8>) -> (result: Result<(), std::io::Error>)
        requires
            old(buffer)@.len() == 0,
            forall|b: Seq<u8>| #[trigger] dw_ok(b) <==> b == fmt_bytes(format_function, record) + seq![10u8],
            forall|c: ErrorCode| #[trigger] super::util::reportable(c) <==> (c is Format || c is Write),
            // C20: the format function is handed the caller's timestamp holder, not a new one
            forall|o: int| #[trigger] now_ok(o) <==> o == old(now).origin(),
        ensures
            final(buffer)@.len() == 0, //@label write_buffered_tl.post.buffer_cleared C20
            final(now).origin() == old(now).origin(), //@label write_buffered_tl.post.same_now C20
            result == dw_result(fmt_bytes(format_function, record) + seq![10u8]), //@label write_buffered_tl.post.handed_over C20,C19
            !fmt_ok(format_function, record) ==> super::util::reported(ErrorCode::Format), //@label write_buffered_tl.post.format_failure_reported C19
            result is Err ==> super::util::reported(ErrorCode::Write), //@label write_buffered_tl.post.write_failure_reported C19
    {
        let mut result: Result<(), std::io::Error> = Ok(());
    //@ span src/util.rs fn write_buffered
    //@   block Ok(mut buffer) =>
    //@   rename write_buffered_tl
    //@   closure ~eprint_err(ErrorCode::Write, "writing failed", &e) ## sig |e: std::io::Error| -> (u: ())
    //@   closure ~eprint_err(ErrorCode::Write, "writing failed", &e) ## req super::util::reportable(ErrorCode::Write)
    //@   closure ~eprint_err(ErrorCode::Write, "writing failed", &e) ## ens super::util::reported(ErrorCode::Write)
    //@   closure ~eprint_err(ErrorCode::Write, "writing failed", e) ## sig |e: &std::io::Error| -> (u: ())
    //@   closure ~eprint_err(ErrorCode::Write, "writing failed", e) ## req super::util::reportable(ErrorCode::Write)
    //@   closure ~eprint_err(ErrorCode::Write, "writing failed", e) ## ens super::util::reported(ErrorCode::Write)
    //@   closure ~eprint_err(ErrorCode::Format ## sig |e: std::io::Error| -> (u: ())
    //@   closure ~eprint_err(ErrorCode::Format ## req super::util::reportable(ErrorCode::Format)
    //@   closure ~eprint_err(ErrorCode::Format ## ens super::util::reported(ErrorCode::Format)
    //@   rule R5l *
    //@   rule R4c 1
    //@   rule R3 *
        result
    }

    pub(crate) fn write_buffered_tmp(format_function: FormatFunction, now: &mut DeferredNow, record: &Record, w: &mut VDynWrite) -> (result: Result<(), std::io::Error>)
        requires
            forall|b: Seq<u8>| #[trigger] dw_ok(b) <==> b == fmt_bytes(format_function, record) + seq![10u8],
            forall|c: ErrorCode| #[trigger] super::util::reportable(c) <==> (c is Format || c is Write),
            // C20: the format function is handed the caller's timestamp holder, not a new one
            forall|o: int| #[trigger] now_ok(o) <==> o == old(now).origin(),
        ensures
            result == dw_result(fmt_bytes(format_function, record) + seq![10u8]), //@label write_buffered_tmp.post.handed_over C20,C19
            !fmt_ok(format_function, record) ==> super::util::reported(ErrorCode::Format), //@label write_buffered_tmp.post.format_failure_reported C19
            result is Err ==> super::util::reported(ErrorCode::Write), //@label write_buffered_tmp.post.write_failure_reported C19
            final(now).origin() == old(now).origin(), //@label write_buffered_tmp.post.same_now C20
    {
        let mut result: Result<(), std::io::Error> = Ok(());
    //@ span src/util.rs fn write_buffered
    //@   block Err(_e) =>
    //@   rename write_buffered_tmp
    //@   closure ~eprint_err(ErrorCode::Write, "writing failed", &e) ## sig |e: std::io::Error| -> (u: ())
    //@   closure ~eprint_err(ErrorCode::Write, "writing failed", &e) ## req super::util::reportable(ErrorCode::Write)
    //@   closure ~eprint_err(ErrorCode::Write, "writing failed", &e) ## ens super::util::reported(ErrorCode::Write)
    //@   closure ~eprint_err(ErrorCode::Write, "writing failed", e) ## sig |e: &std::io::Error| -> (u: ())
    //@   closure ~eprint_err(ErrorCode::Write, "writing failed", e) ## req super::util::reportable(ErrorCode::Write)
    //@   closure ~eprint_err(ErrorCode::Write, "writing failed", e) ## ens super::util::reported(ErrorCode::Write)
    //@   closure ~eprint_err(ErrorCode::Format ## sig |e: std::io::Error| -> (u: ())
    //@   closure ~eprint_err(ErrorCode::Format ## req super::util::reportable(ErrorCode::Format)
    //@   closure ~eprint_err(ErrorCode::Format ## ens super::util::reported(ErrorCode::Format)
    //@   rule R5l *
    //@   rule R4c 1
    //@   rule R3 *
        result
    }
}
}
fn main() {}

#![feature(pattern)]
#![allow(unused_imports, dead_code, unused_variables, unused_mut, unreachable_code, unused_parens)]
// Unit `handle` (C15, C18, C04): StateHandle, synchronous arm (src/writers/file_log_writer/state_handle.rs):
// plain_write, flush, reset, reopen_outputfile, rotate, shutdown forward to State under the state mutex.
// `State` and `FileLogWriterBuilder` are shims carrying unit-local effect permissions and result oracles;
// their real contracts are proved in unit `state`.
use vstd::prelude::*;
verus! {
//@ include prelude/types.rs
//@ include prelude/sync.rs
//@ include prelude/combinators.rs

pub mod shims {
    use super::*;
    /// SHIM (R4): the fn-pointer alias FormatFunction
    #[derive(Clone, Copy)]
    pub struct VFormatFn { _o: () }
    pub enum FlexiLoggerError { Reset, NoFileLogger, Poison, OutputIo(std::io::Error), Other }
    impl vstd::std_specs::convert::FromSpecImpl<std::io::Error> for FlexiLoggerError {
        open spec fn obeys_from_spec() -> bool { true }
        open spec fn from_spec(e: std::io::Error) -> FlexiLoggerError { FlexiLoggerError::OutputIo(e) }
    }
    impl From<std::io::Error> for FlexiLoggerError {
        fn from(e: std::io::Error) -> (r: FlexiLoggerError) { FlexiLoggerError::OutputIo(e) }
    }
    pub struct WriteMode { _o: () }
    impl Clone for WriteMode { #[verifier::external_body] fn clone(&self) -> (r: WriteMode) ensures r == *self { unimplemented!() } }
    impl Copy for WriteMode {}
    /// SHIM: FileSpec as an opaque value with decidable equality (not compared by the code as it is)
    pub struct FileSpec { _o: () }
    impl PartialEq for FileSpec { #[verifier::external_body] fn eq(&self, o: &FileSpec) -> (r: bool) ensures r == (*self == *o) { unimplemented!() } }
    pub struct FileLogWriterConfig { pub write_mode: WriteMode, pub file_spec: FileSpec }
    impl Clone for FileLogWriterConfig { #[verifier::external_body] fn clone(&self) -> (r: FileLogWriterConfig) ensures r == *self { unimplemented!() } }
    #[verifier::external_body]
    pub fn io_err(s: &'static str) -> std::io::Error { unimplemented!() }
}
pub mod state {
    use super::*;
    use super::shims::*;
    /// SHIM for `State` (unit `state`): permissions + result oracles
    pub struct State { pub cfg: FileLogWriterConfig }
    pub uninterp spec fn wb_ok(buf: Seq<u8>) -> bool;
    pub uninterp spec fn write_buffer_result(buf: Seq<u8>) -> std::io::Result<()>;
    pub uninterp spec fn flush_result() -> std::io::Result<()>;
    pub uninterp spec fn reopen_result() -> Result<(), std::io::Error>;
    pub uninterp spec fn mount_result(force: bool) -> Result<(), FlexiLoggerError>;
    pub uninterp spec fn mount_ok(force: bool) -> bool;
    pub uninterp spec fn shutdown_ok() -> bool;
    pub struct LogfileSelector { _o: () }
    /// oracle: the State's listing for a selector (unit `state`: State::existing_log_files.post)
    pub uninterp spec fn state_elf(selector: &LogfileSelector) -> Seq<std::path::PathBuf>;
    impl State {
        #[verifier::external_body]
        pub(crate) fn existing_log_files(&self, selector: &LogfileSelector) -> (r: Vec<std::path::PathBuf>) ensures r@ == state_elf(selector) { unimplemented!() }
        #[verifier::external_body]
        pub fn config(&self) -> (r: &FileLogWriterConfig) ensures *r == self.cfg { unimplemented!() }
        #[verifier::external_body]
        pub fn write_buffer(&mut self, buf: &[u8]) -> (r: std::io::Result<()>)
            requires
                wb_ok(buf@), //@label State::write_buffer.perm C15
            ensures r == write_buffer_result(buf@),
        { unimplemented!() }
        #[verifier::external_body]
        pub fn flush(&mut self) -> (r: std::io::Result<()>) ensures r == flush_result() { unimplemented!() }
        #[verifier::external_body]
        pub fn reopen_outputfile(&mut self) -> (r: Result<(), std::io::Error>) ensures r == reopen_result() { unimplemented!() }
        #[verifier::external_body]
        pub fn mount_next_linewriter_if_necessary(&mut self, force: bool) -> (r: Result<(), FlexiLoggerError>)
            requires
                mount_ok(force), //@label State::mount_next.perm C18,C01
            ensures r == mount_result(force),
        { unimplemented!() }
        #[verifier::external_body]
        pub fn shutdown(&mut self)
            requires
                shutdown_ok(), //@label State::shutdown.perm C04
        { unimplemented!() }
    }
}
pub mod builder {
    use super::*;
    use super::shims::*;
    use super::state::State;
    pub struct FileLogWriterBuilder { _o: () }
    pub uninterp spec fn assert_result(b: &FileLogWriterBuilder, m: WriteMode) -> Result<(), FlexiLoggerError>;
    pub uninterp spec fn build_result(b: &FileLogWriterBuilder) -> Result<State, FlexiLoggerError>;
    /// permission: a new State may be built only after the write-mode check passed (C18 reset_flw)
    pub uninterp spec fn build_ok(b: &FileLogWriterBuilder) -> bool;
    impl FileLogWriterBuilder {
        #[verifier::external_body]
        pub(crate) fn assert_write_mode(&self, write_mode: WriteMode) -> (r: Result<(), FlexiLoggerError>)
            ensures r == assert_result(self, write_mode) { unimplemented!() }
        #[verifier::external_body]
        pub fn try_build_state(&self) -> (r: Result<State, FlexiLoggerError>)
            requires
                build_ok(self), //@label try_build_state.perm C18
            ensures r == build_result(self),
        { unimplemented!() }
    }
}
pub mod state_handle {
    use super::*;
    use super::shims::*;
    use super::state::*;
    use super::builder::*;
    use std::sync::{Arc, Mutex};
    use std::path::PathBuf;
    type FormatFunction = VFormatFn;
    broadcast use ax_same_val;

    //@ item src/writers/file_log_writer/state_handle.rs enum StateHandle
    //@   dropattr #[derive
    //@ item src/writers/file_log_writer/state_handle.rs struct SyncHandle

    impl StateHandle {
        pub closed spec fn poisoned(&self) -> bool { match self { StateHandle::Sync(h) => mutex_poisoned(&*h.am_state) } }
        /// the State behind the mutex after the call (prophecy oracle, A11)
        pub closed spec fn state_after(&self) -> State { match self { StateHandle::Sync(h) => *mutex_after(&*h.am_state) } }
        pub closed spec fn state_now(&self) -> State { match self { StateHandle::Sync(h) => *mutex_content(&*h.am_state) } }
    //@ fn src/writers/file_log_writer/state_handle.rs impl StateHandle / fn plain_write
    //@   ret r
    //@   props C15,C01,C19
    //@   rule R3 *
    //@   req[plain_write.pre.perm] forall|b: Seq<u8>| #[trigger] wb_ok(b) <==> b == buffer@
    //@   closure ~buffer.len() ## sig |_u: ()| -> (r: usize)
    //@   closure ~buffer.len() ## ens r == buffer.len()
    //@   ens[plain_write.post.ok] r is Ok ==> write_buffer_result(buffer@) is Ok && r->Ok_0 == buffer@.len()
    //@   ens[plain_write.post.handed_over] !self.poisoned() ==> (r is Ok <==> write_buffer_result(buffer@) is Ok)
    //@   canary
    //@ fn src/writers/file_log_writer/state_handle.rs impl StateHandle / fn existing_log_files
    //@   ret r
    //@   props C16
    //@   rule R3 *
    //@   ens[StateHandle::existing_log_files.post] (r is Ok) == !self.poisoned() && (r is Ok ==> r->Ok_0@ == state_elf(selector))
    //@ fn src/writers/file_log_writer/state_handle.rs impl StateHandle / fn config
    //@   ret r
    //@   props C18
    //@   rule R3 *
    //@   ens[StateHandle::config.post] (r is Ok) == !self.poisoned() && (r is Ok ==> r->Ok_0 == self.state_now().cfg)
    //@ fn src/writers/file_log_writer/state_handle.rs impl StateHandle / fn flush
    //@   ret r
    //@   props C04,C15
    //@   ens[StateHandle::flush.post.err] r is Err ==> flush_result() is Err
    //@   ens[StateHandle::flush.post.reported] !self.poisoned() && flush_result() is Err ==> r is Err
    //@ fn src/writers/file_log_writer/state_handle.rs impl StateHandle / fn reset
    //@   ret r
    //@   props C18
    //@   rule R3 *
    //@   req[reset.pre.perm] forall|b: &FileLogWriterBuilder| #[trigger] build_ok(b) <==> (b == flwb && assert_result(flwb, self.state_now().cfg.write_mode) is Ok)
    //@   ens[reset.post.ok] r is Ok ==> build_result(flwb) is Ok
    //@   ens[reset.post.installed] r is Ok ==> self.state_after() == build_result(flwb)->Ok_0
    //@   count 1 *state =
    //@   canary
    //@ fn src/writers/file_log_writer/state_handle.rs impl StateHandle / fn reopen_outputfile
    //@   ret r
    //@   props C18
    //@   rule R3 *
    //@   ens[StateHandle::reopen_outputfile.post] r is Ok ==> reopen_result() is Ok
    //@   ens[StateHandle::reopen_outputfile.post.handed_over] !self.poisoned() ==> (r is Ok <==> reopen_result() is Ok)
    //@ fn src/writers/file_log_writer/state_handle.rs impl StateHandle / fn rotate
    //@   ret r
    //@   props C18,C01,C08
    //@   rule R3 *
    //@   req[rotate.pre.perm] forall|f: bool| #[trigger] mount_ok(f) <==> f
    //@   ens[StateHandle::rotate.post] r is Ok ==> mount_result(true) is Ok
    //@   ens[StateHandle::rotate.post.handed_over] !self.poisoned() ==> r == mount_result(true)
    //@   canary
    //@ fn src/writers/file_log_writer/state_handle.rs impl StateHandle / fn shutdown
    //@   props C04,C15
    //@   req[StateHandle::shutdown.pre.perm] shutdown_ok()
    }
}
}
fn main() {}

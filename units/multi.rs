#![feature(pattern)]
#![feature(print_internals)]
#![allow(unused_imports, dead_code, unused_variables, unused_mut, unreachable_code, unused_parens)]
// Unit `multi` (C13, C20, C04): MultiWriter::{write, flush, shutdown} (src/primary_writer/multi_writer.rs):
// duplication to stderr/stdout exactly by the Duplicate level, then the file writer, then the other writer.
use vstd::prelude::*;
verus! {
//@ include prelude/types.rs
//@ include prelude/logcrate.rs
//@ include prelude/strings.rs
//@ include prelude/logrecord.rs
//@ include prelude/combinators.rs

pub assume_specification[ std::io::_print ](_0: std::fmt::Arguments<'_>);
pub assume_specification[ std::io::_eprint ](_0: std::fmt::Arguments<'_>);
#[verifier::external_type_specification]
#[verifier::external_body]
pub struct ExStderr(std::io::Stderr);
#[verifier::external_type_specification]
#[verifier::external_body]
pub struct ExStdout(std::io::Stdout);
pub assume_specification[ std::io::stderr ]() -> (r: std::io::Stderr);
pub assume_specification[ std::io::stdout ]() -> (r: std::io::Stdout);
/// token facts: only flushing stderr / stdout establishes them
pub uninterp spec fn stderr_flushed() -> bool;
pub uninterp spec fn stdout_flushed() -> bool;
pub assume_specification[ <std::io::Stderr as std::io::Write>::flush ](s: &mut std::io::Stderr) -> (r: std::io::Result<()>)
    ensures stderr_flushed();
pub assume_specification[ <std::io::Stdout as std::io::Write>::flush ](s: &mut std::io::Stdout) -> (r: std::io::Result<()>)
    ensures stdout_flushed();
pub assume_specification[ String::from_utf8_lossy ](v: &[u8]) -> (r: std::borrow::Cow<'_, str>);
pub broadcast axiom fn ax_fmt_req_all_cow_str<'a>()
    ensures #[trigger] vstd::std_specs::fmt::fmt_req_all::<std::borrow::Cow<'a, str>>();

/// R11 shim for std's AtomicU8: identity of the atomic object, permission on stores, oracle for loads
pub uninterp spec fn atomic_id(a: &std::sync::atomic::AtomicU8) -> int;
pub uninterp spec fn store_ok(id: int, v: u8) -> bool;
pub uninterp spec fn load_spec(id: int) -> u8;
/// the value an atomic was created with (R11: `AtomicU8::new(v)` becomes `vatomic_new(v)`)
pub uninterp spec fn atomic_init(id: int) -> u8;
#[verifier::external_body]
pub fn vatomic_new(v: u8) -> (r: std::sync::atomic::AtomicU8)
    ensures atomic_init(atomic_id(&r)) == v,
{ unimplemented!() }
pub trait VAtomicU8 {
    spec fn aid(&self) -> int;
    fn vstore(&self, v: u8, o: std::sync::atomic::Ordering)
        requires
            store_ok(self.aid(), v), //@label AtomicU8::store.perm C13
    ;
    fn vload(&self, o: std::sync::atomic::Ordering) -> (r: u8)
        ensures r == load_spec(self.aid());
}
impl VAtomicU8 for std::sync::atomic::AtomicU8 {
    open spec fn aid(&self) -> int { atomic_id(self) }
    #[verifier::external_body]
    fn vstore(&self, v: u8, o: std::sync::atomic::Ordering) { unimplemented!() }
    #[verifier::external_body]
    fn vload(&self, o: std::sync::atomic::Ordering) -> (r: u8) { unimplemented!() }
}

pub mod util {
    use super::*;
    use super::deferred_now::DeferredNow;
    use super::formats::*;
    use log::Record;
    //@ item src/util.rs enum ErrorCode
    pub uninterp spec fn reportable(code: ErrorCode) -> bool;
    pub trait VErr {}
    impl VErr for std::io::Error {}
    #[verifier::external_body]
    pub(crate) fn eprint_err<E: VErr>(error_code: ErrorCode, msg: &str, err: &E)
        requires
            reportable(error_code), //@label eprint_err.perm.reportable C19
        ensures reported(error_code),
    { unimplemented!() }
    /// token fact (C19, "if" direction): a problem was handed to the error channel with this code - only eprint_err establishes it
    pub uninterp spec fn reported(code: ErrorCode) -> bool;
    /// where a duplicate goes: 1 = stdout, 2 = stderr
    pub trait VSink { spec fn sink_id(&self) -> int; }
    impl VSink for std::io::Stderr { open spec fn sink_id(&self) -> int { 2 } }
    impl VSink for std::io::Stdout { open spec fn sink_id(&self) -> int { 1 } }
    /// permission: which format function may be run buffered for which record into which sink
    pub uninterp spec fn wb_ok(f: VFormatFn, record: &Record, sink: int) -> bool;
    pub uninterp spec fn wb_result(f: VFormatFn, record: &Record, sink: int) -> Result<(), std::io::Error>;
    /// SHIM for `write_buffered(format_function, now, record, w: &mut dyn Write)` (generic over the sink instead of dyn Write)
    #[verifier::external_body]
    pub(crate) fn write_buffered<W: VSink>(format_function: VFormatFn, now: &mut DeferredNow, record: &Record, w: &mut W) -> (r: Result<(), std::io::Error>)
        requires
            wb_ok(format_function, record, old(w).sink_id()), //@label write_buffered.perm C13
            super::deferred_now::now_ok(old(now).origin()), //@label write_buffered.same_now C20
        ensures r == wb_result(format_function, record, old(w).sink_id()), final(now).origin() == old(now).origin(),
    { unimplemented!() }
}
pub mod deferred_now {
    use super::*;
    //@ include prelude/dnow_shim.rs
}
pub mod formats {
    use super::*;
    use super::deferred_now::DeferredNow;
    use log::Record;
    /// SHIM (R4) for the fn-pointer alias `FormatFunction`; `(f)(w, now, record)` becomes `f.call(w, now, record)`
    #[derive(Clone, Copy)]
    pub struct VFormatFn { pub id: int }
    pub type FormatFunction = VFormatFn;
    /// permission: which format function may be called for which record (unbuffered, into a temporary Vec)
    pub uninterp spec fn fmt_ok(f: VFormatFn, record: &Record) -> bool;
    impl VFormatFn {
        #[verifier::external_body]
        pub fn call(&self, w: &mut Vec<u8>, now: &mut DeferredNow, record: &Record) -> (r: Result<(), std::io::Error>)
            requires
                fmt_ok(*self, record), //@label FormatFunction::call.perm C13
                super::deferred_now::now_ok(old(now).origin()), //@label FormatFunction::call.same_now C20
            ensures final(now).origin() == old(now).origin(), (r is Ok) == fmt_succeeds(*self, record),
        { unimplemented!() }
    }
    /// oracle: does the format function succeed for the record
    pub uninterp spec fn fmt_succeeds(f: VFormatFn, record: &Record) -> bool;
}
pub mod logger {
    use super::*;
    //@ item src/logger.rs enum Duplicate
    // R9: `impl From<u8> for Duplicate { fn from }` emitted as an inherent method (it has a precondition: the encodings 0..=6)
    impl Duplicate {
    //@ fn src/logger.rs impl From<u8> for Duplicate / fn from
    //@   ret r
    //@   rename duplicate_from_u8
    //@   props C13
    //@   req[Duplicate::from.pre] val <= 6
    //@   ens[Duplicate::from.post] r == match val { 0u8 => Duplicate::None, 1u8 => Duplicate::Error, 2u8 => Duplicate::Warn, 3u8 => Duplicate::Info, 4u8 => Duplicate::Debug, 5u8 => Duplicate::Trace, _ => Duplicate::All }
        /// (wrapper, visibility only) R48 routes the two call sites `Duplicate::from(x)` here
        pub(crate) fn vfrom_u8(val: u8) -> (r: Duplicate)
            requires
                val <= 6, //@label Duplicate::from.pre.call C13
            ensures r == match val { 0u8 => Duplicate::None, 1u8 => Duplicate::Error, 2u8 => Duplicate::Warn, 3u8 => Duplicate::Info, 4u8 => Duplicate::Debug, 5u8 => Duplicate::Trace, _ => Duplicate::All }
        { Duplicate::duplicate_from_u8(val) }
    }
}
pub mod writers {
    use super::*;
    use super::deferred_now::DeferredNow;
    use log::Record;
    pub uninterp spec fn fw_ok(record: &Record) -> bool;
    pub uninterp spec fn fw_result(record: &Record) -> std::io::Result<()>;
    pub uninterp spec fn ow_ok(wid: int, record: &Record) -> bool;
    pub uninterp spec fn ow_result(wid: int, record: &Record) -> std::io::Result<()>;
    /// SHIM for FileLogWriter (unit `flw`)
    pub struct FileLogWriter { _o: () }
    impl FileLogWriter {
        #[verifier::external_body]
        pub fn write(&self, now: &mut DeferredNow, record: &Record) -> (r: std::io::Result<()>)
            requires
                fw_ok(record), //@label FileLogWriter::write.perm C13
                super::deferred_now::now_ok(old(now).origin()), //@label FileLogWriter::write.same_now C20
            ensures r == fw_result(record), final(now).origin() == old(now).origin(),
        { unimplemented!() }
        #[verifier::external_body]
        pub fn flush(&self) -> (r: std::io::Result<()>) ensures fw_flushed(), r == fw_flush_result() { unimplemented!() }
        #[verifier::external_body]
        pub fn shutdown(&self) ensures fw_shut() { unimplemented!() }
        #[verifier::external_body]
        pub fn existing_log_files(&self, selector: &LogfileSelector) -> (r: Result<Vec<std::path::PathBuf>, FlexiLoggerError>)
            ensures r == fw_elf_result(selector)
        { unimplemented!() }
        #[verifier::external_body]
        pub fn reset(&self, flwb: &FileLogWriterBuilder) -> (r: Result<(), FlexiLoggerError>) ensures r == fw_reset_result(flwb) { unimplemented!() }
        #[verifier::external_body]
        pub fn config(&self) -> (r: Result<FileLogWriterConfig, FlexiLoggerError>) ensures r == fw_config_result() { unimplemented!() }
        #[verifier::external_body]
        pub fn reopen_outputfile(&self) -> (r: Result<(), FlexiLoggerError>) ensures r == fw_reopen_result(), fw_reopened() { unimplemented!() }
        #[verifier::external_body]
        pub fn rotate(&self) -> (r: Result<(), FlexiLoggerError>) ensures r == fw_rotate_result(), fw_rotated() { unimplemented!() }
    }
    #[verifier::external_body]
    pub struct FileLogWriterBuilder { _o: () }
    #[verifier::external_body]
    pub struct FileLogWriterConfig { _o: () }
    /// result oracles and token facts of reset / config / reopen / rotate (C18, C08)
    pub uninterp spec fn fw_reset_result(b: &FileLogWriterBuilder) -> Result<(), FlexiLoggerError>;
    pub uninterp spec fn fw_config_result() -> Result<FileLogWriterConfig, FlexiLoggerError>;
    pub uninterp spec fn fw_reopen_result() -> Result<(), FlexiLoggerError>;
    pub uninterp spec fn fw_reopened() -> bool;
    pub uninterp spec fn fw_rotate_result() -> Result<(), FlexiLoggerError>;
    pub uninterp spec fn fw_rotated() -> bool;
    pub uninterp spec fn ow_reopen_result(wid: int) -> Result<(), FlexiLoggerError>;
    pub uninterp spec fn ow_reopened(wid: int) -> bool;
    pub uninterp spec fn ow_rotate_result(wid: int) -> Result<(), FlexiLoggerError>;
    pub uninterp spec fn ow_rotated(wid: int) -> bool;
    /// token facts (only the callee's `ensures` establishes them) and result oracles of flush / shutdown (C04)
    pub uninterp spec fn fw_flushed() -> bool;
    pub uninterp spec fn fw_flush_result() -> std::io::Result<()>;
    pub uninterp spec fn fw_shut() -> bool;
    pub uninterp spec fn ow_flushed(wid: int) -> bool;
    pub uninterp spec fn ow_flush_result(wid: int) -> std::io::Result<()>;
    pub uninterp spec fn ow_shut(wid: int) -> bool;
    pub struct LogfileSelector { _o: () }
    pub enum FlexiLoggerError { Poison, NoFileLogger, Other(int) }
    /// oracle: the file writer's listing for a selector (unit `flw`)
    pub uninterp spec fn fw_elf_result(selector: &LogfileSelector) -> Result<Vec<std::path::PathBuf>, FlexiLoggerError>;
    /// SHIM for `trait LogWriter`
    pub trait LogWriter: Send + Sync {
        spec fn wid(&self) -> int;
        fn write(&self, now: &mut DeferredNow, record: &Record) -> (r: std::io::Result<()>)
            requires
                ow_ok(self.wid(), record), //@label LogWriter::write.perm C13
                super::deferred_now::now_ok(old(now).origin()), //@label LogWriter::write.same_now C20
            ensures r == ow_result(self.wid(), record), final(now).origin() == old(now).origin(),
        ;
        fn flush(&self) -> (r: std::io::Result<()>)
            ensures ow_flushed(self.wid()), r == ow_flush_result(self.wid());
        fn shutdown(&self)
            ensures ow_shut(self.wid());
        fn reopen_output(&self) -> (r: Result<(), FlexiLoggerError>)
            ensures r == ow_reopen_result(self.wid()), ow_reopened(self.wid());
        fn rotate(&self) -> (r: Result<(), FlexiLoggerError>)
            ensures r == ow_rotate_result(self.wid()), ow_rotated(self.wid());
    }
}
pub mod multi_writer {
    use super::*;
    use super::level_axioms::*;
    use super::{logger::Duplicate, util::{eprint_err, write_buffered, ErrorCode}, writers::*, deferred_now::DeferredNow, formats::*};
    use log::Record;
    use std::{io::Write, path::PathBuf, sync::atomic::{AtomicU8, Ordering}};
    broadcast use group_level_axioms, ax_fmt_req_all_cow_str, vstd::std_specs::fmt::group_fmt_axioms;

    //@ item src/primary_writer/multi_writer.rs struct MultiWriter

    /// C13: "duplicated exactly when the level is at or above the duplication level"
    pub open spec fn dup_allows(d: Duplicate, l: log::Level) -> bool {
        match d {
            Duplicate::None => false,
            Duplicate::Error => level_num(l) <= 1,
            Duplicate::Warn => level_num(l) <= 2,
            Duplicate::Info => level_num(l) <= 3,
            Duplicate::Debug => level_num(l) <= 4,
            Duplicate::Trace | Duplicate::All => true,
        }
    }
    impl MultiWriter {
        /// oracle: the duplication level currently stored in the AtomicU8 (adapt_duplication_to_* store `dup as u8`)
        /// the duplication levels in force: what the two atomics hold, decoded (C13: `adapt_duplication_to_*` store `dup as u8`)
        pub open spec fn decode(v: u8) -> Duplicate {
            match v { 0u8 => Duplicate::None, 1u8 => Duplicate::Error, 2u8 => Duplicate::Warn, 3u8 => Duplicate::Info, 4u8 => Duplicate::Debug, 5u8 => Duplicate::Trace, _ => Duplicate::All }
        }
        pub closed spec fn dup_err_spec(&self) -> Duplicate { MultiWriter::decode(load_spec(atomic_id(&self.duplicate_stderr))) }
        pub closed spec fn dup_out_spec(&self) -> Duplicate { MultiWriter::decode(load_spec(atomic_id(&self.duplicate_stdout))) }
        /// representation invariant: the atomics hold encodings of Duplicate values only (MultiWriter::new and the adapt functions store nothing else)
        pub closed spec fn codes_valid(&self) -> bool { load_spec(atomic_id(&self.duplicate_stderr)) <= 6 && load_spec(atomic_id(&self.duplicate_stdout)) <= 6 }
        //@ fn src/primary_writer/multi_writer.rs impl MultiWriter / fn duplication_to_stderr
        //@   ret r
        //@   props C13
        //@   rule R11 1
        //@   rule R48 1
        //@   req[duplication_to_stderr.pre.inv] self.codes_valid()
        //@   ens[duplication_to_stderr.post] r == self.dup_err_spec()
        //@ fn src/primary_writer/multi_writer.rs impl MultiWriter / fn duplication_to_stdout
        //@   ret r
        //@   props C13
        //@   rule R11 1
        //@   rule R48 1
        //@   req[duplication_to_stdout.pre.inv] self.codes_valid()
        //@   ens[duplication_to_stdout.post] r == self.dup_out_spec()
        spec fn other_id(&self) -> int { self.o_other_writer->Some_0.wid() }
        /// C13: the encoding stored is `dup as u8` (0 = None .. 6 = All; decoded by Duplicate::from)
        pub open spec fn dup_code(d: Duplicate) -> u8 {
            match d { Duplicate::None => 0, Duplicate::Error => 1, Duplicate::Warn => 2, Duplicate::Info => 3, Duplicate::Debug => 4, Duplicate::Trace => 5, Duplicate::All => 6 }
        }
        pub closed spec fn err_id(&self) -> int { atomic_id(&self.duplicate_stderr) }
        pub closed spec fn out_id(&self) -> int { atomic_id(&self.duplicate_stdout) }
        pub closed spec fn fmt_err(&self) -> VFormatFn { self.format_for_stderr }
        pub closed spec fn fmt_out(&self) -> VFormatFn { self.format_for_stdout }
        pub closed spec fn capture(&self) -> bool { self.support_capture }
        pub closed spec fn file_writer(&self) -> Option<Box<FileLogWriter>> { self.o_file_writer }
        pub closed spec fn other_writer(&self) -> Option<Box<dyn LogWriter>> { self.o_other_writer }
    //@ fn src/primary_writer/multi_writer.rs impl MultiWriter / fn new
    //@   ret r
    //@   props C20,C13
    //@   rule R11 2
    //@   ens[MultiWriter::new.post.formats] r.fmt_err() == format_for_stderr && r.fmt_out() == format_for_stdout
    //@   ens[MultiWriter::new.post.duplication] atomic_init(r.err_id()) == MultiWriter::dup_code(duplicate_stderr) && atomic_init(r.out_id()) == MultiWriter::dup_code(duplicate_stdout)
    //@   ens[MultiWriter::new.post.writers] r.capture() == support_capture && r.file_writer() == o_file_writer && r.other_writer() == o_other_writer
    //@ fn src/primary_writer/multi_writer.rs impl MultiWriter / fn adapt_duplication_to_stderr
    //@   props C13
    //@   rule R11 1
    //@   req[adapt_stderr.pre.distinct] self.err_id() != self.out_id()
    //@   req[adapt_stderr.pre.perm] forall|id: int, v: u8| #[trigger] store_ok(id, v) <==> (id == self.err_id() && v == MultiWriter::dup_code(dup))
    //@ fn src/primary_writer/multi_writer.rs impl MultiWriter / fn adapt_duplication_to_stdout
    //@   props C13
    //@   rule R11 1
    //@   req[adapt_stdout.pre.distinct] self.err_id() != self.out_id()
    //@   req[adapt_stdout.pre.perm] forall|id: int, v: u8| #[trigger] store_ok(id, v) <==> (id == self.out_id() && v == MultiWriter::dup_code(dup))
    }
    impl MultiWriter {
        pub closed spec fn has_file_writer(&self) -> bool { self.o_file_writer is Some }
        pub closed spec fn has_other_writer(&self) -> bool { self.o_other_writer is Some }
        pub closed spec fn the_other_id(&self) -> int { self.o_other_writer->Some_0.wid() }
    //@ fn src/primary_writer/multi_writer.rs impl MultiWriter / fn existing_log_files
    //@   ret r
    //@   props C16
    //@   ens[MultiWriter::existing_log_files.post] if self.has_file_writer() { r == fw_elf_result(selector) } else { r is Ok && r->Ok_0@.len() == 0 }
    }
    impl MultiWriter {
        /// "all of them will be attempted; only the first error will be reported"
        pub open spec fn first_error(r1: Result<(), FlexiLoggerError>, r2: Result<(), FlexiLoggerError>) -> Result<(), FlexiLoggerError> { if r1 is Err { r1 } else { r2 } }
        /// equality of two `Result<(), E>` (stated by cases: the verifier does not identify two values of type `()` by itself)
        pub open spec fn same_outcome(a: Result<(), FlexiLoggerError>, b: Result<(), FlexiLoggerError>) -> bool { (a is Ok <==> b is Ok) && (a is Err ==> a->Err_0 == b->Err_0) }
    //@ fn src/primary_writer/multi_writer.rs impl MultiWriter / fn reset_file_log_writer
    //@   ret r
    //@   props C18
    //@   closure ~flw.reset ## sig |flw: &Box<FileLogWriter>| -> (r: Result<(), FlexiLoggerError>)
    //@   closure ~flw.reset ## ens r == fw_reset_result(flwb)
    //@   ens[MultiWriter::reset_file_log_writer.post] if self.has_file_writer() { r == fw_reset_result(flwb) } else { r == Err::<(), FlexiLoggerError>(FlexiLoggerError::NoFileLogger) }
    //@ fn src/primary_writer/multi_writer.rs impl MultiWriter / fn flw_config
    //@   ret r
    //@   props C18
    //@   closure ~flw.config ## sig |flw: &Box<FileLogWriter>| -> (r: Result<FileLogWriterConfig, FlexiLoggerError>)
    //@   closure ~flw.config ## ens r == fw_config_result()
    //@   ens[MultiWriter::flw_config.post] if self.has_file_writer() { r == fw_config_result() } else { r == Err::<FileLogWriterConfig, FlexiLoggerError>(FlexiLoggerError::NoFileLogger) }
    //@ fn src/primary_writer/multi_writer.rs impl MultiWriter / fn reopen_output
    //@   ret r
    //@   props C18
    //@   ens[MultiWriter::reopen_output.post.file] self.has_file_writer() ==> fw_reopened()
    //@   ens[MultiWriter::reopen_output.post.other] self.has_other_writer() ==> ow_reopened(self.the_other_id())
    //@   ens[MultiWriter::reopen_output.post.result] MultiWriter::same_outcome(r, MultiWriter::first_error(if self.has_file_writer() { fw_reopen_result() } else { Ok(()) }, if self.has_other_writer() { ow_reopen_result(self.the_other_id()) } else { Ok(()) }))
    //@ fn src/primary_writer/multi_writer.rs impl MultiWriter / fn trigger_rotation
    //@   ret r
    //@   props C08
    //@   ens[MultiWriter::trigger_rotation.post.file] self.has_file_writer() ==> fw_rotated()
    //@   ens[MultiWriter::trigger_rotation.post.other] self.has_other_writer() ==> ow_rotated(self.the_other_id())
    //@   ens[MultiWriter::trigger_rotation.post.result] MultiWriter::same_outcome(r, MultiWriter::first_error(if self.has_file_writer() { fw_rotate_result() } else { Ok(()) }, if self.has_other_writer() { ow_rotate_result(self.the_other_id()) } else { Ok(()) }))
    }
    // R9: methods of `impl LogWriter for MultiWriter` emitted as inherent methods
    impl MultiWriter {
        /// oracle: the ceiling MultiWriter reports (the greater of its writers' ceilings; an iterator chain outside Verus)
        pub uninterp spec fn max_level_oracle(&self) -> log::LevelFilter;
    //@ sig src/primary_writer/multi_writer.rs impl LogWriter for MultiWriter / fn max_log_level
    //@   ret r
    //@   ens r == self.max_level_oracle()
    //@ fn src/primary_writer/multi_writer.rs impl LogWriter for MultiWriter / fn write
    //@   ret r
    //@   props C13
    //@   rule R4c 2
    //@   req[MultiWriter::write.pre.inv] self.codes_valid()
    //@   req[MultiWriter::write.pre.report] forall|c: ErrorCode| #[trigger] super::util::reportable(c) <==> c is Format
    //@   req[MultiWriter::write.pre.fmt] forall|f: VFormatFn, x: &Record| #[trigger] fmt_ok(f, x) <==> (x == record && self.support_capture && (
    //@         (f == self.format_for_stderr && dup_allows(self.dup_err_spec(), record_level(record)))
    //@      || (f == self.format_for_stdout && dup_allows(self.dup_out_spec(), record_level(record)))))
    //@   req[MultiWriter::write.pre.wb] forall|f: VFormatFn, x: &Record, s: int| #[trigger] super::util::wb_ok(f, x, s) <==> (x == record && !self.support_capture && (
    //@         (s == 2 && f == self.format_for_stderr && dup_allows(self.dup_err_spec(), record_level(record)))
    //@      || (s == 1 && f == self.format_for_stdout && dup_allows(self.dup_out_spec(), record_level(record)))))
    //@   req[MultiWriter::write.pre.fw] forall|x: &Record| #[trigger] fw_ok(x) <==> x == record
    //@   props C20
    //@   req[MultiWriter::write.pre.same_now] forall|o: int| #[trigger] super::deferred_now::now_ok(o) <==> o == old(now).origin()
    //@   ens[MultiWriter::write.post.same_now] final(now).origin() == old(now).origin()
    //@   props C13
    //@   req[MultiWriter::write.pre.ow] forall|id: int, x: &Record| #[trigger] ow_ok(id, x) <==> (x == record && self.o_other_writer is Some && id == self.other_id())
    //@   ens[MultiWriter::write.post.file] r is Ok && self.o_file_writer is Some ==> fw_result(record) is Ok
    //@   ens[MultiWriter::write.post.other] r is Ok && self.o_other_writer is Some ==> ow_result(self.other_id(), record) is Ok
    //@   ens[MultiWriter::write.post.dup] r is Ok && !self.support_capture && dup_allows(self.dup_err_spec(), record_level(record)) ==> super::util::wb_result(self.format_for_stderr, record, 2) is Ok
    //@   props C19
    //@   ens[MultiWriter::write.post.format_failure_reported] self.support_capture && ((dup_allows(self.dup_err_spec(), record_level(record)) && !fmt_succeeds(self.format_for_stderr, record)) || (dup_allows(self.dup_out_spec(), record_level(record)) && !fmt_succeeds(self.format_for_stdout, record))) ==> super::util::reported(ErrorCode::Format)
    //@   closure ~*eprint_err(ErrorCode::Format ## sig |e: std::io::Error| -> (u: ())
    //@   closure ~*eprint_err(ErrorCode::Format ## req super::util::reportable(ErrorCode::Format)
    //@   closure ~*eprint_err(ErrorCode::Format ## ens super::util::reported(ErrorCode::Format)
    //@   props C13
    //@   ens[MultiWriter::write.post.dup_out] r is Ok && !self.support_capture && dup_allows(self.dup_out_spec(), record_level(record)) ==> super::util::wb_result(self.format_for_stdout, record, 1) is Ok
    //@   canary
    //@ fn src/primary_writer/multi_writer.rs impl LogWriter for MultiWriter / fn flush
    //@   ret r
    //@   props C04
    //@   req[MultiWriter::flush.pre.inv] self.codes_valid()
    //@   ens[MultiWriter::flush.post.file] r is Ok && self.o_file_writer is Some ==> fw_flushed() && fw_flush_result() is Ok
    //@   ens[MultiWriter::flush.post.other] r is Ok && self.o_other_writer is Some ==> ow_flushed(self.other_id()) && ow_flush_result(self.other_id()) is Ok
    //@   ens[MultiWriter::flush.post.duplicates] r is Ok ==> (!(self.dup_err_spec() is None) ==> super::stderr_flushed()) && (!(self.dup_out_spec() is None) ==> super::stdout_flushed())
    //@ fn src/primary_writer/multi_writer.rs impl LogWriter for MultiWriter / fn shutdown
    //@   fallback src/writers/log_writer.rs trait LogWriter / fn shutdown
    //@   props C04
    //@   ens[MultiWriter::shutdown.post.file] self.o_file_writer is Some ==> fw_shut()
    //@   ens[MultiWriter::shutdown.post.other] self.o_other_writer is Some ==> ow_shut(self.other_id())
    }
}
}
fn main() {}

#![feature(pattern)]
#![feature(allocator_api)]
#![allow(unused_imports, dead_code, unused_variables, unused_mut, unreachable_code, unused_parens)]
// Unit `stdw` (C20, C15, C04; feature async): StdWriter (src/primary_writer/std_writer.rs) — the writer for stdout / stderr
// in its three write modes — and the body of its writer thread (src/threads.rs, start_async_stdwriter: the match arm
// `Ok(mut message) => {..}` of the thread loop is copied, braces included, into the wrapper `std_dispatch`).
// `write_buffered` is a shim here (its two arms are verified in unit `swrite`).
use vstd::prelude::*;
verus! {
//@ include prelude/types.rs
//@ include prelude/sync.rs
//@ include prelude/combinators.rs

#[verifier::external_type_specification]
#[verifier::external_body]
pub struct ExRecord<'a>(log::Record<'a>);
#[verifier::external_type_specification]
#[verifier::external_body]
#[verifier::reject_recursive_types(T)]
pub struct ExArrayQueue<T>(crossbeam_queue::ArrayQueue<T>);
#[verifier::external_type_specification]
#[verifier::external_body]
#[verifier::reject_recursive_types(T)]
pub struct ExSender<T>(crossbeam_channel::Sender<T>);
#[verifier::external_type_specification]
#[verifier::external_body]
#[verifier::reject_recursive_types(T)]
pub struct ExSendError<T>(crossbeam_channel::SendError<T>);
#[verifier::external_type_specification]
#[verifier::external_body]
#[verifier::reject_recursive_types(T)]
pub struct ExJoinHandle<T>(std::thread::JoinHandle<T>);

#[verifier::external_type_specification]
#[verifier::external_body]
#[verifier::reject_recursive_types(T)]
pub struct ExReceiver<T>(crossbeam_channel::Receiver<T>);
/// the receiving end that belongs to a sending end
pub uninterp spec fn peer<T>(s: crossbeam_channel::Sender<T>) -> crossbeam_channel::Receiver<T>;
pub assume_specification<T>[ crossbeam_channel::unbounded::<T> ]() -> (r: (crossbeam_channel::Sender<T>, crossbeam_channel::Receiver<T>))
    ensures peer(r.0) == r.1;
pub assume_specification<T>[ crossbeam_queue::ArrayQueue::<T>::new ](cap: usize) -> (r: crossbeam_queue::ArrayQueue<T>)
    ensures queue_capacity(&r) == cap;
pub uninterp spec fn queue_capacity<T>(q: &crossbeam_queue::ArrayQueue<T>) -> usize;
/// `std::time::Duration == Duration` (derived) is equality of the values
pub mod duration_axioms {
    use super::*;
    use vstd::std_specs::cmp::PartialEqSpec;
    pub broadcast axiom fn ax_duration_eq(a: std::time::Duration, b: std::time::Duration)
        ensures #[trigger] a.eq_spec(&b) == (a == b);
    pub broadcast axiom fn ax_duration_eq_obeys()
        ensures #[trigger] <std::time::Duration as PartialEqSpec<std::time::Duration>>::obeys_eq_spec();
    pub broadcast group group_duration_axioms { ax_duration_eq, ax_duration_eq_obeys }
}
pub uninterp spec fn dur_secs(secs: u64) -> std::time::Duration;
pub assume_specification[ std::time::Duration::from_secs ](secs: u64) -> (r: std::time::Duration)
    ensures r == dur_secs(secs);
//@ item src/lib.rs const ZERO_DURATION
//@   execconst dur_secs(0)
/// R26: `assert_eq!(a, b, "..")` (a panic when the two differ) becomes a call with the precondition `a == b`
pub fn vassert_eq_fn(a: &std::time::Duration, b: &std::time::Duration)
    requires
        *a == *b, //@label assert_eq.holds C10
{ }
macro_rules! vassert_eq {
    ($a:expr, $b:expr, $($rest:tt)*) => { vassert_eq_fn(&$a, &$b) };
}

/// permission: which message may be put on the channel to the writer thread
pub uninterp spec fn send_ok(m: Seq<u8>) -> bool;
pub uninterp spec fn send_msg_ok<T>(v: T) -> bool;
pub broadcast axiom fn ax_send_msg_ok(v: Vec<u8>)
    ensures #[trigger] send_msg_ok::<Vec<u8>>(v) == send_ok(v@);
pub assume_specification<T>[ crossbeam_channel::Sender::<T>::send ](s: &crossbeam_channel::Sender<T>, msg: T) -> (r: Result<(), crossbeam_channel::SendError<T>>)
    requires
        send_msg_ok::<T>(msg), //@label Sender::send.perm C15
;
/// pooled buffers are empty: the writer thread clears a buffer before it pushes it (ArrayQueue::push.perm below)
pub assume_specification<T>[ crossbeam_queue::ArrayQueue::<T>::pop ](q: &crossbeam_queue::ArrayQueue<T>) -> (r: Option<T>)
    ensures r is Some ==> pooled_empty::<T>(r->Some_0);
pub uninterp spec fn pooled_empty<T>(v: T) -> bool;
pub broadcast axiom fn ax_pooled_empty(v: Vec<u8>)
    ensures #[trigger] pooled_empty::<Vec<u8>>(v) == (v@.len() == 0);
/// permission: which buffer may be put (back) into the pool
pub uninterp spec fn pool_ok(v: Seq<u8>) -> bool;
pub assume_specification<T>[ crossbeam_queue::ArrayQueue::<T>::push ](q: &crossbeam_queue::ArrayQueue<T>, v: T) -> (r: Result<(), T>)
    requires
        pool_push_ok::<T>(v), //@label ArrayQueue::push.perm C15
;
pub uninterp spec fn pool_push_ok<T>(v: T) -> bool;
pub broadcast axiom fn ax_pool_push_ok(v: Vec<u8>)
    ensures #[trigger] pool_push_ok::<Vec<u8>>(v) == pool_ok(v@);

/// `vec.extend(slice)` appends the slice
#[verifier::allow(undeclared_external_trait)]
pub assume_specification<'a, T: Copy + 'a, A: std::alloc::Allocator, I: std::iter::IntoIterator<Item = &'a T>>[ <Vec<T, A> as std::iter::Extend<&'a T>>::extend ](v: &mut Vec<T, A>, it: I)
    ensures extend_rel::<T, I>(old(v)@, it, final(v)@);
pub uninterp spec fn extend_rel<T, I>(before: Seq<T>, it: I, after: Seq<T>) -> bool;
pub broadcast axiom fn ax_extend_u8_slice(before: Seq<u8>, it: &[u8], after: Seq<u8>)
    ensures #[trigger] extend_rel::<u8, &[u8]>(before, it, after) == (after == before + it@);
/// `<Vec<u8> as io::Write>::write_all` appends the bytes and cannot fail
pub assume_specification<A: std::alloc::Allocator>[ <Vec<u8, A> as std::io::Write>::write_all ](v: &mut Vec<u8, A>, buf: &[u8]) -> (r: std::io::Result<()>)
    ensures r is Ok, final(v)@ == old(v)@ + buf@;
pub assume_specification<T, A: core::alloc::Allocator>[ <Vec<T, A> as AsRef<[T]>>::as_ref ](v: &Vec<T, A>) -> (r: &[T])
    ensures r@ == v@;
pub assume_specification<T, A: core::alloc::Allocator>[ Vec::<T, A>::capacity ](v: &Vec<T, A>) -> (r: usize);
/// byte slices are equal exactly when their contents are (needed for the slice-constant patterns of the dispatch `match`)
pub broadcast axiom fn ax_slice_ext(a: &[u8], b: &[u8])
    ensures (a == b) == (#[trigger] a@ == #[trigger] b@);

pub mod util {
    use super::*;
    //@ item src/util.rs enum ErrorCode
    //@ item src/util.rs const ASYNC_FLUSH
    //@   bytesconst
    //@ item src/util.rs const ASYNC_SHUTDOWN
    //@   bytesconst
    pub uninterp spec fn reportable(code: ErrorCode) -> bool;
    pub trait VErr {}
    impl VErr for std::io::Error {}
    impl<'a> VErr for &'a std::io::Error {}
    #[verifier::external_body]
    pub(crate) fn eprint_err<E: VErr>(error_code: ErrorCode, msg: &str, err: &E)
        requires
            reportable(error_code), //@label eprint_err.perm.reportable C19
        ensures reported(error_code),
    { unimplemented!() }
    /// token fact (C19, "if" direction): a problem was handed to the error channel with this code - only eprint_err establishes it
    pub uninterp spec fn reported(code: ErrorCode) -> bool;
    #[verifier::external_body]
    pub fn io_err(s: &'static str) -> std::io::Error { unimplemented!() }
}
pub mod shims {
    use super::*;
    use std::time::Duration;
    /// SHIM (R4): the fn-pointer alias FormatFunction
    #[derive(Clone, Copy)]
    pub struct VFormatFn { _o: () }
    //@ include prelude/dnow_shim.rs
    /// oracles: the bytes a format function appends for a record (see unit `swrite`)
    pub uninterp spec fn fmt_bytes(f: VFormatFn, record: &log::Record) -> Seq<u8>;
    pub uninterp spec fn fmt_ok(f: VFormatFn, record: &log::Record) -> bool;
    impl VFormatFn {
        #[verifier::external_body]
        pub fn call(&self, w: &mut Vec<u8>, now: &mut DeferredNow, record: &log::Record) -> (r: Result<(), std::io::Error>)
            requires
                now_ok(old(now).origin()), //@label FormatFunction::call.same_now C20
            ensures final(w)@ == old(w)@ + fmt_bytes(*self, record), r is Ok <==> fmt_ok(*self, record), final(now).origin() == old(now).origin(),
        { unimplemented!() }
    }
    /// SHIM for the targets of `write_buffered` / `flush` (StdstreamLock, BufWriter<StdStream>, &mut dyn Write of StdStream)
    pub trait VSink { }
    pub struct StdStream { pub id: int }
    pub struct StdstreamLock<'a> { _o: &'a () }
    pub struct BufWriter<T> { pub _o: T }
    pub struct VDynWrite { _o: () }
    impl BufWriter<StdStream> {
        #[verifier::external_body]
        pub fn with_capacity(capacity: usize, inner: StdStream) -> (r: BufWriter<StdStream>)
            ensures r._o == inner, buf_capacity(&r) == capacity,
        { unimplemented!() }
    }
    pub uninterp spec fn buf_capacity(b: &BufWriter<StdStream>) -> usize;
    //@ item src/write_mode.rs const DEFAULT_BUFFER_CAPACITY
    //@ item src/write_mode.rs const DEFAULT_POOL_CAPA
    //@ item src/write_mode.rs const DEFAULT_MESSAGE_CAPA
    //@ item src/write_mode.rs enum WriteMode
    //@   dropattr #[derive
    //@ item src/write_mode.rs enum EffectiveWriteMode
    impl WriteMode {
        // the specification functions of unit `wmode` (same text), and the contract proved there for effective_write_mode
        pub open spec fn capacity(&self) -> Option<usize> {
            match self {
                WriteMode::BufferAndFlush | WriteMode::BufferDontFlush => Some(DEFAULT_BUFFER_CAPACITY),
                WriteMode::BufferAndFlushWith(n, _) => Some(*n),
                WriteMode::BufferDontFlushWith(n) => Some(*n),
                _ => None,
            }
        }
        pub open spec fn is_direct(&self) -> bool { self is Direct || self is SupportCapture }
        pub open spec fn flushes_itself(&self) -> bool { self is BufferAndFlush || self is BufferAndFlushWith }
        pub open spec fn is_buffer_dont_flush(&self) -> bool { self is BufferDontFlush || self is BufferDontFlushWith }
        pub open spec fn interval(&self) -> Duration {
            match self {
                WriteMode::Direct | WriteMode::SupportCapture | WriteMode::BufferDontFlush | WriteMode::BufferDontFlushWith(_) => dur_secs(0),
                WriteMode::BufferAndFlush => dur_secs(1),
                WriteMode::BufferAndFlushWith(_, d) => *d,
                WriteMode::Async => dur_secs(1),
                WriteMode::AsyncWith { flush_interval, .. } => *flush_interval,
            }
        }
        pub open spec fn async_capas(&self) -> Option<(usize, usize)> {
            match self {
                WriteMode::Async => Some((DEFAULT_POOL_CAPA, DEFAULT_MESSAGE_CAPA)),
                WriteMode::AsyncWith { pool_capa, message_capa, .. } => Some((*pool_capa, *message_capa)),
                _ => None,
            }
        }
        /// what the Logger never keeps for its writers (units `wmode`, `lbuild`)
        pub open spec fn own_flushing(&self) -> bool { self.flushes_itself() || self.interval() != dur_secs(0) }
    //@ sig src/write_mode.rs impl WriteMode / fn effective_write_mode
    //@   ret r
    //@   ens match r {
    //@       EffectiveWriteMode::Direct => self.is_direct(),
    //@       EffectiveWriteMode::BufferAndFlushWith(n) => Some(n) == self.capacity() && self.flushes_itself(),
    //@       EffectiveWriteMode::BufferDontFlushWith(n) => Some(n) == self.capacity() && self.is_buffer_dont_flush(),
    //@       EffectiveWriteMode::AsyncWith { pool_capa, message_capa, flush_interval } => Some((pool_capa, message_capa)) == self.async_capas() && flush_interval == self.interval(),
    //@   }
    }
    impl<'a> VSink for StdstreamLock<'a> {}
    impl VSink for BufWriter<StdStream> {}
    /// permission / result oracle: flushing the stream (directly, through its lock or through the BufWriter around it)
    pub uninterp spec fn sflush_ok() -> bool;
    pub uninterp spec fn sflush_result() -> std::io::Result<()>;
    /// permission: the bytes the writer thread may write to the stream
    pub uninterp spec fn swrite_ok(buf: Seq<u8>) -> bool;
    impl StdStream {
        #[verifier::external_body]
        pub(crate) fn lock<'a>(&'a self) -> (r: StdstreamLock<'a>) { unimplemented!() }
        #[verifier::external_body]
        pub(crate) fn deref_mut(&mut self) -> (r: &mut VDynWrite) { unimplemented!() }
    }
    impl<'a> StdstreamLock<'a> {
        #[verifier::external_body]
        pub fn flush(&mut self) -> (r: std::io::Result<()>)
            requires
                sflush_ok(), //@label StdstreamLock::flush.perm C04
            ensures r == sflush_result(),
        { unimplemented!() }
    }
    impl BufWriter<StdStream> {
        #[verifier::external_body]
        pub fn flush(&mut self) -> (r: std::io::Result<()>)
            requires
                sflush_ok(), //@label BufWriter::flush.perm C04
            ensures r == sflush_result(),
        { unimplemented!() }
    }
    impl VDynWrite {
        #[verifier::external_body]
        pub fn flush(&mut self) -> (r: std::io::Result<()>)
            requires
                sflush_ok(), //@label dyn_Write::flush.perm C04
        { unimplemented!() }
        #[verifier::external_body]
        pub fn write_all(&mut self, buf: &[u8]) -> (r: std::io::Result<()>)
            requires
                swrite_ok(buf@), //@label dyn_Write::write_all.perm C15
        { unimplemented!() }
    }
    /// permission / result oracle for `write_buffered(format_function, now, record, w)` (unit `swrite`: writes
    /// fmt_bytes(format_function, record) + LF to w and returns w's answer)
    pub uninterp spec fn wb_ok(f: VFormatFn, record: &log::Record) -> bool;
    pub uninterp spec fn wb_result(f: VFormatFn, record: &log::Record) -> Result<(), std::io::Error>;
    #[verifier::external_body]
    pub(crate) fn write_buffered<W: VSink>(format_function: VFormatFn, now: &mut DeferredNow, record: &log::Record, w: &mut W) -> (r: Result<(), std::io::Error>)
        requires
            wb_ok(format_function, record), //@label write_buffered.perm C20
            now_ok(old(now).origin()), //@label write_buffered.same_now C20
        ensures r == wb_result(format_function, record), final(now).origin() == old(now).origin(),
    { unimplemented!() }
}
pub mod std_writer {
    use super::*;
    use super::shims::*;
    use super::util::{eprint_err, io_err, ErrorCode, ASYNC_FLUSH, ASYNC_SHUTDOWN, ASYNC_FLUSH_spec, ASYNC_SHUTDOWN_spec};
    use std::sync::{Arc, Mutex};
    use std::thread::JoinHandle;
    use log::Record;
    use std::io::Write;
    use {crossbeam_channel::{Sender, SendError}, crossbeam_queue::ArrayQueue};
    type FormatFunction = VFormatFn;
    use super::threads::start_async_stdwriter;
    use super::ZERO_DURATION;
    broadcast use ax_send_msg_ok, ax_pooled_empty, ax_extend_u8_slice, super::duration_axioms::group_duration_axioms;
    //@ literals

    //@ item src/primary_writer/std_writer.rs struct StdWriter
    //@ item src/primary_writer/std_writer.rs enum InnerStdWriter
    //@ item src/primary_writer/std_writer.rs struct AsyncHandle
    //@   dropattr #[derive

    impl AsyncHandle {
    //@ fn src/primary_writer/std_writer.rs impl AsyncHandle / fn pop_buffer
    //@   ret r
    //@   props C15
    //@   closure ~Vec::with_capacity ## sig || -> (r: Vec<u8>)
    //@   closure ~Vec::with_capacity ## ens r@.len() == 0
    //@   ens[std.pop_buffer.post.empty] r@.len() == 0
    //@ fn src/primary_writer/std_writer.rs impl AsyncHandle / fn send
    //@   ret r
    //@   props C15,C20,C04
    //@   req[std.AsyncHandle::send.pre.perm] send_ok(buffer@)
    }
    impl AsyncHandle {
        pub closed spec fn thread(&self) -> (StdStream, Arc<ArrayQueue<Vec<u8>>>, usize) { super::threads::std_thread_for(peer(self.sender)) }
        pub closed spec fn pool(&self) -> Arc<ArrayQueue<Vec<u8>>> { self.a_pool }
        pub closed spec fn capa(&self) -> usize { self.msg_capa }
    //@ fn src/primary_writer/std_writer.rs impl AsyncHandle / fn new
    //@   ret r
    //@   props C15,C20
    //@   ens[std.AsyncHandle::new.post] r.thread() == (stdstream, r.pool(), msg_capa) && r.capa() == msg_capa && queue_capacity(&*r.pool()) == pool_capa
    }
    impl StdWriter {
        pub closed spec fn fmt(&self) -> VFormatFn { self.format }
        pub closed spec fn stream(&self) -> StdStream { match self.writer { InnerStdWriter::Unbuffered(s) => s, InnerStdWriter::Buffered(m) => mutex_init(&m)._o, InnerStdWriter::Async(h) => h.thread().0 } }
        pub closed spec fn buffered_with(&self) -> Option<usize> { match self.writer { InnerStdWriter::Buffered(m) => Some(buf_capacity(&mutex_init(&m))), _ => None } }
        pub closed spec fn async_with(&self) -> Option<(usize, usize)> { match self.writer { InnerStdWriter::Async(h) => Some((queue_capacity(&*h.pool()), h.capa())), _ => None } }
    //@ fn src/primary_writer/std_writer.rs impl StdWriter / fn new
    //@   ret r
    //@   props C20,C15,C10
    //@   rule R26 1
    //@   req[StdWriter::new.pre.no_own_flushing] !write_mode.own_flushing()
    //@   ens[StdWriter::new.post.format] r.fmt() == format && r.stream() == stdstream
    //@   ens[StdWriter::new.post.mode] r.buffered_with() == write_mode.capacity() && r.async_with() == write_mode.async_capas()
        pub closed spec fn is_async(&self) -> bool { self.writer is Async }
        pub closed spec fn poisoned(&self) -> bool { match self.writer { InnerStdWriter::Buffered(m) => mutex_poisoned(&m), _ => false } }
    //@ fn src/primary_writer/std_writer.rs impl LogWriter for StdWriter / fn write
    //@   ret r
    //@   props C20,C15
    //@   rule R4c 1
    //@   rule R5l *
    //@   rule R3 *
    //@   req[StdWriter::write.pre.perm.sync] forall|f: VFormatFn, rec: &Record| #[trigger] wb_ok(f, rec) <==> (!self.is_async() && f == self.fmt() && rec == record)
    //@   req[StdWriter::write.pre.perm.async] forall|m: Seq<u8>| #[trigger] send_ok(m) <==> (self.is_async() && m == fmt_bytes(self.fmt(), record) + seq![10u8])
    //@   req[StdWriter::write.pre.report] forall|c: ErrorCode| #[trigger] super::util::reportable(c) <==> (c is Format || c is Write)
    //@   req[StdWriter::write.pre.same_now] forall|o: int| #[trigger] now_ok(o) <==> o == old(now).origin()
    //@   ens[StdWriter::write.post.same_now] final(now).origin() == old(now).origin()
    //@   ens[StdWriter::write.post.handed_over] !self.is_async() && !self.poisoned() ==> r == wb_result(self.fmt(), record)
    //@   props C19
    //@   ens[StdWriter::write.post.format_failure_reported] self.is_async() && !fmt_ok(self.fmt(), record) ==> super::util::reported(ErrorCode::Format)
    //@   closure ~eprint_err(ErrorCode::Format ## sig |e: std::io::Error| -> (u: ())
    //@   closure ~eprint_err(ErrorCode::Format ## req super::util::reportable(ErrorCode::Format)
    //@   closure ~eprint_err(ErrorCode::Format ## ens super::util::reported(ErrorCode::Format)
    //@   props C20,C15
    //@   canary
    //@ fn src/primary_writer/std_writer.rs impl LogWriter for StdWriter / fn flush
    //@   ret r
    //@   props C04,C15
    //@   rule R3 *
    //@   req[StdWriter::flush.pre.perm.sync] sflush_ok() <==> !self.is_async()
    //@   req[StdWriter::flush.pre.perm.async] forall|m: Seq<u8>| #[trigger] send_ok(m) <==> (self.is_async() && m == ASYNC_FLUSH_spec())
    //@   ens[StdWriter::flush.post.handed_over] !self.is_async() && !self.poisoned() ==> r == sflush_result()
    }
}
pub mod threads {
    use super::*;
    use super::shims::*;
    use super::util::{eprint_err, ErrorCode, ASYNC_FLUSH, ASYNC_SHUTDOWN};
    use crossbeam_queue::ArrayQueue;
    use crossbeam_channel::Receiver as CrossbeamReceiver;
    use std::sync::{Arc, Mutex};
    use std::thread::JoinHandle;
    use std::io::Write;
    broadcast use ax_pool_push_ok, ax_slice_ext;
    pub(crate) open spec fn is_flush(m: Seq<u8>) -> bool { m == super::util::ASYNC_FLUSH_spec() }
    pub(crate) open spec fn is_shutdown(m: Seq<u8>) -> bool { m == super::util::ASYNC_SHUTDOWN_spec() }

    /// oracle: the writer thread that reads from a receiving end was started for this stream, pool and message capacity
    pub uninterp spec fn std_thread_for(r: crossbeam_channel::Receiver<Vec<u8>>) -> (StdStream, Arc<ArrayQueue<Vec<u8>>>, usize);
    //@ sig src/threads.rs fn start_async_stdwriter
    //@   ret r
    //@   ens std_thread_for(receiver) == (std_stream, t_pool, msg_capa)
    /// The std writer thread's reaction to one received message. Returns true iff the thread stops (the `break`).
    #[verifier::exec_allows_no_decreases_clause]
    #[verifier::loop_isolation(false)]
    pub(crate) fn std_dispatch(mut message: Vec<u8>, std_stream: &mut StdStream, msg_capa: usize, t_pool: &Arc<ArrayQueue<Vec<u8>>>) -> (stopped: bool)
        requires
            // C15: a data message is written as it is, and only a data message; the flush message only flushes
            forall|b: Seq<u8>| #[trigger] swrite_ok(b) <==> (b == message@ && !is_flush(message@) && !is_shutdown(message@)),
            sflush_ok() <==> is_flush(message@),
            forall|v: Seq<u8>| #[trigger] pool_ok(v) <==> v.len() == 0,
            forall|c: ErrorCode| #[trigger] super::util::reportable(c) <==> (c is Flush || c is Write),
        ensures
            stopped == is_shutdown(message@), //@label std_dispatch.post.stop C04,C15
    {
        let ghost m0 = message@;
        // (wrapper, not copied code) the two control messages differ
        assert(super::util::ASYNC_FLUSH_spec()[0] != super::util::ASYNC_SHUTDOWN_spec()[0]);
        // the copied block contains the thread loop's `break`: it sits in a loop that is left after one pass
        loop
            invariant message@ == m0,
        {
    //@ span src/threads.rs fn start_async_stdwriter
    //@   block Ok(mut message) =>
    //@   rename std_dispatch
    //@   rule R3 *
            return false;
        }
        true
    }
}
}
fn main() {}

#![allow(unused_imports, dead_code, unused_variables)]
use vstd::prelude::*;
verus! {
//@ include prelude/base.rs
pub mod parameters {
    use super::*;
    //@ item src/parameters/age.rs enum Age
    //@ item src/parameters/criterion.rs enum Criterion
}
pub mod state {
    use super::*;
    use super::parameters::*;
    use chrono::{DateTime, Datelike, Local, Timelike};
    //@ item src/writers/file_log_writer/state.rs enum RollState
    impl RollState {
    //@ fn src/writers/file_log_writer/state.rs impl RollState / fn size_rotation_necessary
    //@   ret r
    //@   props C08
    //@   ens[size_rotation_necessary.post] r == (current_size > max_size)
    //@   canary
    }
}
}
fn main() {}

#![allow(unused_imports, dead_code, unused_variables, unused_mut, unreachable_code, unused_parens)]
// Unit `errchan` (C19, C10): the error channel of src/util.rs — "every failure .. is reported on the configured error channel":
// eprint_err / eprint_msg hand a non-empty text to try_writing_to_error_channel, which serves exactly the configured channel
// (stderr, stdout, the file — opened with create + append, never truncated — with stderr as the fallback when the file cannot be
// written, nothing for DevNull); set_error_channel installs exactly the given channel. The documented panic
// (`panic_if_error_channel_is_broken(true)` + a broken channel) is the precondition `!panic_flag()`.
// `writeln!(..)` on stderr / stdout / the file are shims (rule R35); `format!` is rule R32; the process-wide statics behind
// `error_channel()` / `panic_on_error_error()` are outside Verus: signature-only with oracles.
use vstd::prelude::*;
verus! {
//@ include prelude/types.rs
//@ include prelude/sync.rs
//@ include prelude/combinators.rs

pub assume_specification<'a, 'b, T: ?Sized>[ <std::sync::RwLockWriteGuard<'a, T> as core::ops::DerefMut>::deref_mut ](g: &'b mut std::sync::RwLockWriteGuard<'a, T>) -> (r: &'b mut T)
    ensures same_val::<T>(&*final(r), wguard_final(old(g)));
/// token fact (C10, hangs): a read guard of the error channel's lock has been taken in this call - only `vread_held` establishes it.
/// In try_writing_to_error_channel the guard is the temporary of the `match` scrutinee: it lives through every arm.
pub uninterp spec fn read_held() -> bool;
/// R44 SHIMS for the two lock operations on the error channel
pub trait VChanLock<T> {
    spec fn the_lock(&self) -> &std::sync::RwLock<T>;
    fn vread_held(&self) -> (r: std::sync::LockResult<std::sync::RwLockReadGuard<'_, T>>)
        ensures r is Ok, rguard_content(&r->Ok_0) == lock_content(self.the_lock()), read_held();
    fn vwrite_free(&self) -> (r: std::sync::LockResult<std::sync::RwLockWriteGuard<'_, T>>)
        requires
            !read_held(), //@label RwLock::write.no_read_guard_held C10
        ensures r is Ok, wguard_content(&r->Ok_0) == lock_content(self.the_lock()), lock_after(self.the_lock()) == wguard_final(&r->Ok_0);
}
impl<T> VChanLock<T> for std::sync::RwLock<T> {
    open spec fn the_lock(&self) -> &std::sync::RwLock<T> { self }
    #[verifier::external_body]
    fn vread_held(&self) -> (r: std::sync::LockResult<std::sync::RwLockReadGuard<'_, T>>) { self.read() }
    #[verifier::external_body]
    fn vwrite_free(&self) -> (r: std::sync::LockResult<std::sync::RwLockWriteGuard<'_, T>>) { self.write() }
}
pub uninterp spec fn path_view(p: &std::path::Path) -> Seq<char>;
pub uninterp spec fn pathbuf_view(p: &std::path::PathBuf) -> Seq<char>;
pub assume_specification[ <std::path::PathBuf as core::ops::Deref>::deref ](p: &std::path::PathBuf) -> (r: &std::path::Path)
    ensures path_view(r) == pathbuf_view(p);
pub uninterp spec fn aspath<P>(p: P) -> Seq<char>;
pub broadcast axiom fn ax_aspath_ref_path(p: &std::path::Path)
    ensures #[trigger] aspath::<&std::path::Path>(p) == path_view(p);
#[verifier::external_type_specification]
#[verifier::external_body]
pub struct ExFile(std::fs::File);
#[verifier::external_type_specification]
#[verifier::external_body]
pub struct ExOpenOptions(std::fs::OpenOptions);
/// how a file was opened
pub ghost struct OpenFlags { pub write: bool, pub create: bool, pub append: bool, pub truncate: bool }
pub uninterp spec fn oo_flags(o: &std::fs::OpenOptions) -> OpenFlags;
pub uninterp spec fn file_path(f: &std::fs::File) -> Seq<char>;
pub uninterp spec fn file_flags(f: &std::fs::File) -> OpenFlags;
/// oracle: the outcome of opening the error file
pub uninterp spec fn fs_open_ok(p: Seq<char>) -> bool;
pub assume_specification[ std::fs::OpenOptions::new ]() -> (r: std::fs::OpenOptions)
    ensures oo_flags(&r) == (OpenFlags { write: false, create: false, append: false, truncate: false });
pub assume_specification[ std::fs::OpenOptions::write ](o: &mut std::fs::OpenOptions, b: bool) -> (r: &mut std::fs::OpenOptions)
    ensures oo_flags(r) == (OpenFlags { write: b, ..oo_flags(old(o)) });
pub assume_specification[ std::fs::OpenOptions::create ](o: &mut std::fs::OpenOptions, b: bool) -> (r: &mut std::fs::OpenOptions)
    ensures oo_flags(r) == (OpenFlags { create: b, ..oo_flags(old(o)) });
pub assume_specification[ std::fs::OpenOptions::append ](o: &mut std::fs::OpenOptions, b: bool) -> (r: &mut std::fs::OpenOptions)
    ensures oo_flags(r) == (OpenFlags { append: b, ..oo_flags(old(o)) });
pub assume_specification[ std::fs::OpenOptions::truncate ](o: &mut std::fs::OpenOptions, b: bool) -> (r: &mut std::fs::OpenOptions)
    ensures oo_flags(r) == (OpenFlags { truncate: b, ..oo_flags(old(o)) });
#[verifier::allow(undeclared_external_trait)]
pub assume_specification<P: AsRef<std::path::Path>>[ std::fs::OpenOptions::open ](o: &std::fs::OpenOptions, p: P) -> (r: Result<std::fs::File, std::io::Error>)
    ensures (r is Ok) == fs_open_ok(aspath::<P>(p)), r is Ok ==> file_flags(&r->Ok_0) == oo_flags(o) && file_path(&r->Ok_0) == aspath::<P>(p);

/// permissions (frame of the function under contract) and token facts ("a line with this text was handed to ..": only the shim's
/// `ensures` establishes them) for the three sinks
pub uninterp spec fn stderr_ok() -> bool;
pub uninterp spec fn stdout_ok() -> bool;
pub uninterp spec fn file_ok(p: Seq<char>) -> bool;
pub uninterp spec fn stderr_line(s: Seq<char>) -> bool;
pub uninterp spec fn stderr_note() -> bool;
pub uninterp spec fn stdout_line(s: Seq<char>) -> bool;
pub uninterp spec fn file_line(p: Seq<char>, flags: OpenFlags, s: Seq<char>) -> bool;
/// oracles: the outcome of writing a line to the error file / of flushing it
pub uninterp spec fn file_write_result(p: Seq<char>, s: Seq<char>) -> Result<(), std::io::Error>;
pub uninterp spec fn file_flush_result(p: Seq<char>) -> Result<(), std::io::Error>;
/// R35 SHIMS for `writeln!(std::io::stderr(), "{s}")`, `writeln!(std::io::stdout(), "{s}")`, the note that follows a failing error
/// file, and `writeln!(file, "{s}")`
#[verifier::external_body]
pub fn vwriteln_stderr(s: &str) -> (r: Result<(), std::io::Error>)
    requires
        stderr_ok(), //@label stderr.perm C19
    ensures stderr_line(s@),
{ unimplemented!() }
#[verifier::external_body]
pub fn vwriteln_stderr_note() -> (r: Result<(), std::io::Error>)
    ensures stderr_note(),
{ unimplemented!() }
#[verifier::external_body]
pub fn vwriteln_stdout(s: &str) -> (r: Result<(), std::io::Error>)
    requires
        stdout_ok(), //@label stdout.perm C19
    ensures stdout_line(s@),
{ unimplemented!() }
#[verifier::external_body]
pub fn vwriteln_file(file: &mut std::fs::File, s: &str) -> (r: Result<(), std::io::Error>)
    requires
        file_ok(file_path(old(file))), //@label error_file.perm C19
    ensures r == file_write_result(file_path(old(file)), s@), file_line(file_path(old(file)), file_flags(old(file)), s@),
        file_path(final(file)) == file_path(old(file)), file_flags(final(file)) == file_flags(old(file)),
{ unimplemented!() }
pub assume_specification[ <std::fs::File as std::io::Write>::flush ](f: &mut std::fs::File) -> (r: std::io::Result<()>)
    ensures r == file_flush_result(file_path(old(f))), file_path(final(f)) == file_path(old(f));
/// `?` on io results inside a function returning io::Result
pub assume_specification<T>[ <T as From<T>>::from ](e: T) -> (r: T)
    ensures r == e;
/// R32 SHIM for `format!` with a literal character: some non-empty text
#[verifier::external_body]
pub fn vfmt_nonempty() -> (r: String)
    ensures r@.len() > 0
{ String::new() }
macro_rules! vformat {
    ($($t:tt)*) => { vfmt_nonempty() };
}

pub mod logger {
    use super::*;
    use std::path::PathBuf;
    //@ item src/logger.rs enum ErrorChannel
    //@   dropattr #[derive
    //@   dropattr #[default
    //@   derivedefault
}

pub mod util {
    use super::*;
    use super::logger::ErrorChannel;
    use std::io::Write;
    use std::path::Path;
    use std::sync::{OnceLock, RwLock};
    broadcast use ax_aspath_ref_path, ax_same_val;

    //@ item src/util.rs enum ErrorCode
    //@   dropattr #[derive

    /// R36 SHIM for the type-erased error argument of eprint_err (`&dyn std::error::Error`: only formatted); R37: the one call of
    /// eprint_err inside this file (`&e` with a PoisonError) goes through `vdyn(&e)`
    pub struct VDynError { _o: () }
    #[verifier::external_body]
    pub fn vdyn<E>(e: &E) -> (r: &'static VDynError) { unimplemented!() }

    /// oracle: the process-wide error channel lock (a `static OnceLock` inside error_channel(): outside Verus)
    pub uninterp spec fn the_channel_lock() -> &'static RwLock<ErrorChannel>;
    //@ sig src/util.rs fn error_channel
    //@   ret r
    //@   ens r == the_channel_lock()
    /// oracle: `Logger::panic_if_error_channel_is_broken(true)` was configured (documented panic)
    pub uninterp spec fn panic_flag() -> bool;
    //@ sig src/util.rs fn panic_on_error_error
    //@   ret r
    //@   ens r == panic_flag()

    /// the channel that is configured when the verified call reads the lock
    pub open spec fn configured() -> &'static ErrorChannel { lock_content(the_channel_lock()) }
    pub open spec fn append_flags() -> OpenFlags { OpenFlags { write: false, create: true, append: true, truncate: false } }
    /// C19: the configured channel was served with the text
    pub open spec fn served(s: Seq<char>) -> bool {
        match configured() {
            ErrorChannel::StdErr => stderr_line(s),
            ErrorChannel::StdOut => stdout_line(s),
            ErrorChannel::File(path) => {
                let p = pathbuf_view(path);
                // the error file is opened with create + append (never truncated) and handed the text; when it cannot be opened,
                // written or flushed, stderr gets the text and a note
                (fs_open_ok(p) ==> file_line(p, append_flags(), s))
                && (!fs_open_ok(p) || file_write_result(p, s) is Err || file_flush_result(p) is Err ==> stderr_line(s) && stderr_note())
            }
            ErrorChannel::DevNull => true,
        }
    }
    /// frame: no sink but the configured one (and stderr as the error file's fallback) is written to
    pub open spec fn frame() -> bool {
        (stdout_ok() <==> configured() is StdOut)
        && (stderr_ok() <==> (configured() is StdErr || configured() is File))
        && (forall|p: Seq<char>| #[trigger] file_ok(p) <==> (configured() is File && p == pathbuf_view(&configured()->File_0)))
    }

    impl ErrorCode {
    //@ fn src/util.rs impl ErrorCode / fn as_index
    //@   ret r
    //@   props C19
    }

    //@ fn src/util.rs fn handle_error_error
    //@   props C10
    //@   req[handle_error_error.pre.documented_panic] result is Err ==> !panic_flag()
    //@   canary

    //@ fn src/util.rs fn try_writing_to_file
    //@   ret r
    //@   props C19
    //@   rule R35 *
    //@   req[try_writing_to_file.pre.perm] forall|p: Seq<char>| #[trigger] file_ok(p) <==> p == path_view(path)
    //@   ens[try_writing_to_file.post.opened] fs_open_ok(path_view(path)) ==> file_line(path_view(path), append_flags(), s@)
    //@   ens[try_writing_to_file.post.result] r is Ok <==> (fs_open_ok(path_view(path)) && file_write_result(path_view(path), s@) is Ok && file_flush_result(path_view(path)) is Ok)
    //@   canary

    //@ fn src/util.rs fn try_writing_to_error_channel
    //@   attr #[verifier::exec_allows_no_decreases_clause]
    //@   props C19
    //@   rule R35 *
    //@   rule R3 *
    //@   req[try_writing_to_error_channel.pre.documented_panic] !panic_flag()
    //@   req[try_writing_to_error_channel.pre.frame] frame()
    //@   rule R44 *
    //@   onlyif ^match &*(error_channel().read().unwrap()) ## RwLock::write.no_read_guard_held set_error_channel.pre.no_read_guard_held
    //@   ens[try_writing_to_error_channel.post.served] served(s@)
    //@   closure ~handle_error_error ## sig |e: std::io::Error| -> (u: ())
    //@   closure ~handle_error_error ## req !panic_flag() && stderr_ok() && frame()
    //@   closure ~handle_error_error ## ens stderr_line(s@) && stderr_note()
    //@   canary

    //@ fn src/util.rs fn eprint_msg
    //@   attr #[verifier::exec_allows_no_decreases_clause]
    //@   props C19
    //@   rule R32 *
    //@   req[eprint_msg.pre.documented_panic] !panic_flag()
    //@   req[eprint_msg.pre.frame] frame()
    //@   ens[eprint_msg.post.reported] exists|s: Seq<char>| s.len() > 0 && #[trigger] served(s)
    //@   canary

    //@ fn src/util.rs fn eprint_err
    //@   attr #[verifier::exec_allows_no_decreases_clause]
    //@   props C19
    //@   rule R32 *
    //@   rule R36 1
    //@   req[eprint_err.pre.documented_panic] !panic_flag()
    //@   req[eprint_err.pre.frame] frame()
    //@   ens[eprint_err.post.reported] exists|s: Seq<char>| s.len() > 0 && #[trigger] served(s)
    //@   canary

    //@ fn src/util.rs fn set_error_channel
    //@   attr #[verifier::exec_allows_no_decreases_clause]
    //@   props C19
    //@   count 1 .write()
    //@   rule R37 *
    //@   req[set_error_channel.pre.documented_panic] !panic_flag()
    //@   req[set_error_channel.pre.frame] frame()
    //@   rule R44 *
    //@   props C10
    //@   req[set_error_channel.pre.no_read_guard_held] !read_held()
    //@   props C19
    //@   ens[set_error_channel.post.installed] *lock_after(the_channel_lock()) == channel
    //@   canary
}
}
fn main() {}

#![feature(pattern)]
#![allow(unused_imports, dead_code, unused_variables, unused_mut, unreachable_code, unused_parens)]
// Unit `spec`: LogSpecification::enabled / update_from (src/log_specification.rs) and the C02 lemma
use vstd::prelude::*;
verus! {
//@ include prelude/logcrate.rs
//@ include prelude/strings.rs
//@ include prelude/combinators.rs

#[verifier::external_type_specification]
#[verifier::external_body]
pub struct ExRegex(regex::Regex);

/// `Option<T>::as_deref` (T: Deref): the referent behind the option, if any
pub uninterp spec fn as_deref_rel<T: core::ops::Deref>(o: &Option<T>, r: Option<&T::Target>) -> bool;
pub assume_specification<T: core::ops::Deref>[ Option::<T>::as_deref ](o: &Option<T>) -> (r: Option<&T::Target>)
    ensures as_deref_rel::<T>(o, r);
pub broadcast axiom fn ax_as_deref_box_regex(o: &Option<Box<regex::Regex>>, r: Option<&regex::Regex>)
    ensures #[trigger] as_deref_rel::<Box<regex::Regex>>(o, r) <==> (match (*o, r) { (Some(b), Some(t)) => *t == *b, (None, None) => true, _ => false });
pub mod log_specification {
    use super::*;
    use super::level_axioms::*;
    use log::LevelFilter;
    use regex::Regex;
    broadcast use group_level_axioms, group_pat_seq, ax_as_deref_box_regex;

    /// the length of a string in bytes (UTF-8): `String::len`. Trusted facts: a proper prefix is shorter in bytes too.
    pub uninterp spec fn byte_len(s: Seq<char>) -> nat;
    pub assume_specification[ String::len ](s: &String) -> (r: usize)
        ensures r == byte_len(s@);
    pub broadcast axiom fn ax_byte_len_prefix(a: Seq<char>, b: Seq<char>)
        requires is_prefix_chars(a, b), a.len() < b.len(),
        ensures #[trigger] byte_len(a) < #[trigger] byte_len(b);
    pub broadcast axiom fn ax_byte_len_empty(a: Seq<char>)
        ensures (#[trigger] byte_len(a) == 0) == (a.len() == 0);
    /// `<[T]>::sort_by(f)`: a permutation that is ordered by f
    pub open spec fn not_greater<T, F: FnMut(&T, &T) -> core::cmp::Ordering>(f: F, a: T, b: T) -> bool {
        exists|o: core::cmp::Ordering| #[trigger] f.ensures((&a, &b), o) && !(o is Greater)
    }
    pub assume_specification<T, F: FnMut(&T, &T) -> core::cmp::Ordering>[ <[T]>::sort_by ](v: &mut [T], f: F)
        requires forall|a: T, b: T| #[trigger] f.requires((&a, &b)),
        ensures final(v)@.to_multiset() == old(v)@.to_multiset(),
            forall|i: int, j: int| 0 <= i < j < final(v)@.len() ==> not_greater(f, #[trigger] final(v)@[i], #[trigger] final(v)@[j]);

    /// R17 SHIMS for `v.iter().map(f).max()` / `.min()` on level filters: the greatest / least value f yields (None: no element)
    pub open spec fn yields_below<T, F: Fn(&T) -> log::LevelFilter>(f: F, x: T, r: Option<log::LevelFilter>) -> bool {
        exists|y: log::LevelFilter| #[trigger] f.ensures((&x,), y) && r is Some && filter_num(y) <= filter_num(r->Some_0)
    }
    pub open spec fn yields_above<T, F: Fn(&T) -> log::LevelFilter>(f: F, x: T, r: Option<log::LevelFilter>) -> bool {
        exists|y: log::LevelFilter| #[trigger] f.ensures((&x,), y) && r is Some && filter_num(r->Some_0) <= filter_num(y)
    }
    pub trait VMaxMap<T>: vstd::view::View<V = Seq<T>> {
        fn vmax_map<F: Fn(&T) -> log::LevelFilter>(&self, f: F) -> (r: Option<log::LevelFilter>)
            requires forall|i: int| 0 <= i < self@.len() ==> #[trigger] f.requires((&self@[i],)),
            ensures
                (r is None) == (self@.len() == 0),
                forall|i: int| 0 <= i < self@.len() ==> yields_below(f, #[trigger] self@[i], r),
                r is Some ==> exists|i: int| 0 <= i < self@.len() && #[trigger] f.ensures((&self@[i],), r->Some_0);
        fn vmin_map<F: Fn(&T) -> log::LevelFilter>(&self, f: F) -> (r: Option<log::LevelFilter>)
            requires forall|i: int| 0 <= i < self@.len() ==> #[trigger] f.requires((&self@[i],)),
            ensures
                (r is None) == (self@.len() == 0),
                forall|i: int| 0 <= i < self@.len() ==> yields_above(f, #[trigger] self@[i], r),
                r is Some ==> exists|i: int| 0 <= i < self@.len() && #[trigger] f.ensures((&self@[i],), r->Some_0);
    }
    impl<T> VMaxMap<T> for Vec<T> {
        #[verifier::external_body]
        fn vmax_map<F: Fn(&T) -> log::LevelFilter>(&self, f: F) -> (r: Option<log::LevelFilter>) { self.iter().map(f).max() }
        #[verifier::external_body]
        fn vmin_map<F: Fn(&T) -> log::LevelFilter>(&self, f: F) -> (r: Option<log::LevelFilter>) { self.iter().map(f).min() }
    }

    //@ item src/log_specification.rs struct LogSpecification
    //@   dropattr #[derive
    //@ item src/log_specification.rs struct ModuleFilter
    //@   dropattr #[derive

    // ---- specification vocabulary -------------------------------------------------------------
    pub open spec fn mf_name(mf: ModuleFilter) -> Option<Seq<char>> { match mf.module_name { Some(s) => Some(s@), None => None } }
    /// a filter entry applies to a target: the default entry always, a named one if the name is a prefix
    pub open spec fn mf_matches(mf: ModuleFilter, target: Seq<char>) -> bool {
        match mf.module_name { Some(s) => is_prefix_chars(s@, target), None => true }
    }
    pub open spec fn mf_len(mf: ModuleFilter) -> int { match mf.module_name { Some(s) => s@.len() as int, None => 0 } }
    /// what the code computes: the first entry in list order that applies decides
    pub open spec fn spec_enabled_from(mfs: Seq<ModuleFilter>, i: int, level: log::Level, target: Seq<char>) -> bool
        decreases mfs.len() - i
    {
        if i < 0 || i >= mfs.len() { false }
        else if mf_matches(mfs[i], target) { level_num(level) <= filter_num(mfs[i].level_filter) }
        else { spec_enabled_from(mfs, i + 1, level, target) }
    }
    pub open spec fn first_match(mfs: Seq<ModuleFilter>, i: int, target: Seq<char>) -> Option<int>
        decreases mfs.len() - i
    {
        if i < 0 || i >= mfs.len() { None }
        else if mf_matches(mfs[i], target) { Some(i) }
        else { first_match(mfs, i + 1, target) }
    }
    /// the length in bytes of an entry's name (0: the default entry): what level_sort sorts by
    pub open spec fn mf_blen(mf: ModuleFilter) -> nat { match mf.module_name { Some(s) => byte_len(s@), None => 0 } }
    /// the list invariant every constructor establishes through level_sort (proved below): descending name length in bytes
    pub open spec fn sorted_desc_len(mfs: Seq<ModuleFilter>) -> bool {
        forall|i: int, j: int| 0 <= i < j < mfs.len() ==> mf_blen(#[trigger] mfs[i]) >= mf_blen(#[trigger] mfs[j])
    }
    pub open spec fn names_nonempty(mfs: Seq<ModuleFilter>) -> bool {
        forall|i: int| 0 <= i < mfs.len() && mfs[i].module_name is Some ==> mf_len(mfs[i]) > 0
    }
    pub open spec fn named_match(mfs: Seq<ModuleFilter>, k: int, target: Seq<char>) -> bool {
        0 <= k < mfs.len() && mfs[k].module_name is Some && mf_matches(mfs[k], target)
    }

    /// C02: on a sorted list the first match is the longest specified module name that is a prefix of the
    /// target, else the default entry, else nothing (off)
    pub proof fn lemma_first_match(mfs: Seq<ModuleFilter>, i: int, level: log::Level, target: Seq<char>) //@lemma C02
        requires 0 <= i <= mfs.len(),
        ensures
            match first_match(mfs, i, target) {
                Some(j) => i <= j < mfs.len() && mf_matches(mfs[j], target)
                    && spec_enabled_from(mfs, i, level, target) == (level_num(level) <= filter_num(mfs[j].level_filter))
                    && forall|k: int| i <= k < j ==> !mf_matches(mfs[k], target),
                None => !spec_enabled_from(mfs, i, level, target) && forall|k: int| i <= k < mfs.len() ==> !mf_matches(mfs[k], target),
            },
        decreases mfs.len() - i
    {
        if i < mfs.len() && !mf_matches(mfs[i], target) {
            lemma_first_match(mfs, i + 1, level, target);
        }
    }
    pub proof fn lemma_longest_prefix(mfs: Seq<ModuleFilter>, level: log::Level, target: Seq<char>) //@lemma C02
        requires sorted_desc_len(mfs), names_nonempty(mfs),
        ensures
            match first_match(mfs, 0, target) {
                Some(j) => 0 <= j < mfs.len() && mf_matches(mfs[j], target)
                    && spec_enabled_from(mfs, 0, level, target) == (level_num(level) <= filter_num(mfs[j].level_filter))
                    // a named entry decides only if no longer specified name is a prefix of the target
                    && (mfs[j].module_name is Some ==> forall|k: int| named_match(mfs, k, target) ==> mf_len(mfs[k]) <= mf_len(mfs[j]))
                    // the default entry decides only if no specified name is a prefix of the target
                    && (mfs[j].module_name is None ==> forall|k: int| !named_match(mfs, k, target)),
                // off: no specified name is a prefix and there is no default
                None => !spec_enabled_from(mfs, 0, level, target) && forall|k: int| 0 <= k < mfs.len() ==> !mf_matches(mfs[k], target),
            },
    {
        lemma_first_match(mfs, 0, level, target);
        match first_match(mfs, 0, target) {
            Some(j) => {
                if mfs[j].module_name is Some {
                    assert forall|k: int| named_match(mfs, k, target) implies mf_len(mfs[k]) <= mf_len(mfs[j]) by {
                        if mf_len(mfs[k]) > mf_len(mfs[j]) {
                            // no entry before j applies, so k > j and the list order gives blen(j) >= blen(k);
                            // both names are prefixes of the target, so the shorter is a proper prefix of the longer
                            let a = mfs[j].module_name->Some_0@;
                            let b = mfs[k].module_name->Some_0@;
                            assert(is_prefix_chars(a, b));
                            ax_byte_len_prefix(a, b);
                            assert(mf_blen(mfs[j]) >= mf_blen(mfs[k]));
                        }
                    }
                } else {
                    assert forall|k: int| !named_match(mfs, k, target) by {
                        if named_match(mfs, k, target) {
                            assert(mf_blen(mfs[j]) >= mf_blen(mfs[k]));
                            ax_byte_len_empty(mfs[k].module_name->Some_0@);
                        }
                    }
                }
            },
            None => {},
        }
    }

    /// R9: `impl LevelSort for Vec<ModuleFilter> { fn level_sort }` is emitted as the method of this local trait (contracts on
    /// trait impls must be declared in the trait)
    pub trait LevelSort: Sized + vstd::view::View<V = Seq<ModuleFilter>> {
        fn level_sort(self) -> (r: Vec<ModuleFilter>)
            ensures
                sorted_desc_len(r@), //@label level_sort.post.sorted C02
                r@.to_multiset() == self@.to_multiset(), //@label level_sort.post.permutation C02
        ;
    }
    impl LevelSort for Vec<ModuleFilter> {
    //@ fn src/log_specification.rs impl LevelSort for Vec<ModuleFilter> / fn level_sort
    //@   props C02
    //@   rule R10b 1
    //@   rule R18 2
    //@   closure ~b_len.cmp(&a_len) ## sig |a: &ModuleFilter, b: &ModuleFilter| -> (o: core::cmp::Ordering)
    //@   closure ~b_len.cmp(&a_len) ## ens (o is Greater) == (mf_blen(*b) > mf_blen(*a))
    }
    impl LogSpecification {
        pub closed spec fn mfs(&self) -> Seq<ModuleFilter> { self.module_filters@ }
        /// no entry's filter is above r
        pub closed spec fn all_below(&self, r: log::LevelFilter) -> bool {
            forall|i: int| 0 <= i < self.module_filters@.len() ==> filter_num((#[trigger] self.module_filters@[i]).level_filter) <= filter_num(r)
        }
        pub closed spec fn tf(&self) -> Option<Box<Regex>> { self.textfilter }

    //@ fn src/log_specification.rs impl LogSpecification / fn enabled
    //@   ret r
    //@   props C02
    //@   loop 1 iter it
    //@   loop 1 inv[enabled.loop.inv] spec_enabled_from(self.module_filters@, 0, level, writing_module@) == spec_enabled_from(self.module_filters@, it.index@ as int, level, writing_module@)
    //@   loop 1 inv it.seq().len() == self.module_filters@.len() && forall|k: int| 0 <= k < it.seq().len() ==> *it.seq()[k] == self.module_filters@[k]
    //@   ens[enabled.post] r == spec_enabled_from(self.mfs(), 0, level, writing_module@)
    //@   canary
    //@ fn src/log_specification.rs impl LogSpecification / fn max_level
    //@   ret r
    //@   props C02
    //@   rule R17 1
    //@   closure ~d.level_filter ## sig |d: &ModuleFilter| -> (r: log::LevelFilter)
    //@   closure ~d.level_filter ## ens r == d.level_filter
    //@   ens[max_level.post.upper] self.all_below(r)
    //@   ens[max_level.post.attained] if self.mfs().len() == 0 { r == log::LevelFilter::Off } else { exists|i: int| 0 <= i < self.mfs().len() && (#[trigger] self.mfs()[i]).level_filter == r }
    //@ fn src/log_specification.rs impl LogSpecification / fn update_from
    //@   props C05,C02
    //@   ens[update_from.post] final(self).mfs() == other.mfs() && final(self).tf() == other.tf()
    //@ fn src/log_specification.rs impl LogSpecification / fn text_filter
    //@   ret r
    //@   props C02
    //@   ens[text_filter.post] match (r, self.tf()) { (Some(re), Some(b)) => *re == *b, (None, None) => true, _ => false }
    //@ fn src/log_specification.rs impl LogSpecification / fn module_filters
    //@   ret r
    //@   props C02
    //@   ens[module_filters.post] r@ == self.mfs()
    }
}
}
fn main() {}

#![feature(pattern)]
#![allow(unused_imports, dead_code, unused_variables, unused_mut, unreachable_code, unused_parens)]
// Unit `spec`: LogSpecification::enabled / update_from (src/log_specification.rs) and the C02 lemma
use vstd::prelude::*;
verus! {
//@ include prelude/logcrate.rs
//@ include prelude/strings.rs

#[verifier::external_type_specification]
#[verifier::external_body]
pub struct ExRegex(regex::Regex);

pub mod log_specification {
    use super::*;
    use super::level_axioms::*;
    use log::LevelFilter;
    use regex::Regex;
    broadcast use group_level_axioms, group_pat_seq;

    //@ item src/log_specification.rs struct LogSpecification
    //@   dropattr #[derive
    //@ item src/log_specification.rs struct ModuleFilter
    //@   dropattr #[derive

    // ---- specification vocabulary -------------------------------------------------------------
    pub open spec fn mf_name(mf: ModuleFilter) -> Option<Seq<char>> { match mf.module_name { Some(s) => Some(s@), None => None } }
    /// a filter entry applies to a target: the default entry always, a named one if the name is a prefix
    pub open spec fn mf_matches(mf: ModuleFilter, target: Seq<char>) -> bool {
        match mf.module_name { Some(s) => is_prefix_chars(s@, target), None => true }
    }
    pub open spec fn mf_len(mf: ModuleFilter) -> int { match mf.module_name { Some(s) => s@.len() as int, None => 0 } }
    /// what the code computes: the first entry in list order that applies decides
    pub open spec fn spec_enabled_from(mfs: Seq<ModuleFilter>, i: int, level: log::Level, target: Seq<char>) -> bool
        decreases mfs.len() - i
    {
        if i < 0 || i >= mfs.len() { false }
        else if mf_matches(mfs[i], target) { level_num(level) <= filter_num(mfs[i].level_filter) }
        else { spec_enabled_from(mfs, i + 1, level, target) }
    }
    pub open spec fn first_match(mfs: Seq<ModuleFilter>, i: int, target: Seq<char>) -> Option<int>
        decreases mfs.len() - i
    {
        if i < 0 || i >= mfs.len() { None }
        else if mf_matches(mfs[i], target) { Some(i) }
        else { first_match(mfs, i + 1, target) }
    }
    /// the list invariant every constructor establishes through level_sort (Kani, bounded): descending name length
    pub open spec fn sorted_desc_len(mfs: Seq<ModuleFilter>) -> bool {
        forall|i: int, j: int| 0 <= i < j < mfs.len() ==> mf_len(mfs[i]) >= mf_len(mfs[j])
    }
    pub open spec fn names_nonempty(mfs: Seq<ModuleFilter>) -> bool {
        forall|i: int| 0 <= i < mfs.len() && mfs[i].module_name is Some ==> mf_len(mfs[i]) > 0
    }
    pub open spec fn named_match(mfs: Seq<ModuleFilter>, k: int, target: Seq<char>) -> bool {
        0 <= k < mfs.len() && mfs[k].module_name is Some && mf_matches(mfs[k], target)
    }

    /// C02: on a sorted list the first match is the longest specified module name that is a prefix of the
    /// target, else the default entry, else nothing (off)
    pub proof fn lemma_first_match(mfs: Seq<ModuleFilter>, i: int, level: log::Level, target: Seq<char>) //@lemma C02
        requires 0 <= i <= mfs.len(),
        ensures
            match first_match(mfs, i, target) {
                Some(j) => i <= j < mfs.len() && mf_matches(mfs[j], target)
                    && spec_enabled_from(mfs, i, level, target) == (level_num(level) <= filter_num(mfs[j].level_filter))
                    && forall|k: int| i <= k < j ==> !mf_matches(mfs[k], target),
                None => !spec_enabled_from(mfs, i, level, target) && forall|k: int| i <= k < mfs.len() ==> !mf_matches(mfs[k], target),
            },
        decreases mfs.len() - i
    {
        if i < mfs.len() && !mf_matches(mfs[i], target) {
            lemma_first_match(mfs, i + 1, level, target);
        }
    }
    pub proof fn lemma_longest_prefix(mfs: Seq<ModuleFilter>, level: log::Level, target: Seq<char>) //@lemma C02
        requires sorted_desc_len(mfs), names_nonempty(mfs),
        ensures
            match first_match(mfs, 0, target) {
                Some(j) => 0 <= j < mfs.len() && mf_matches(mfs[j], target)
                    && spec_enabled_from(mfs, 0, level, target) == (level_num(level) <= filter_num(mfs[j].level_filter))
                    // a named entry decides only if no longer specified name is a prefix of the target
                    && (mfs[j].module_name is Some ==> forall|k: int| named_match(mfs, k, target) ==> mf_len(mfs[k]) <= mf_len(mfs[j]))
                    // the default entry decides only if no specified name is a prefix of the target
                    && (mfs[j].module_name is None ==> forall|k: int| !named_match(mfs, k, target)),
                // off: no specified name is a prefix and there is no default
                None => !spec_enabled_from(mfs, 0, level, target) && forall|k: int| 0 <= k < mfs.len() ==> !mf_matches(mfs[k], target),
            },
    {
        lemma_first_match(mfs, 0, level, target);
    }

    impl LogSpecification {
        pub closed spec fn mfs(&self) -> Seq<ModuleFilter> { self.module_filters@ }
        pub closed spec fn tf(&self) -> Option<Box<Regex>> { self.textfilter }

    //@ fn src/log_specification.rs impl LogSpecification / fn enabled
    //@   ret r
    //@   props C02
    //@   loop 1 iter it
    //@   loop 1 inv[enabled.loop.inv] spec_enabled_from(self.module_filters@, 0, level, writing_module@) == spec_enabled_from(self.module_filters@, it.index@ as int, level, writing_module@)
    //@   loop 1 inv it.seq().len() == self.module_filters@.len() && forall|k: int| 0 <= k < it.seq().len() ==> *it.seq()[k] == self.module_filters@[k]
    //@   ens[enabled.post] r == spec_enabled_from(self.mfs(), 0, level, writing_module@)
    //@   canary
    //@ fn src/log_specification.rs impl LogSpecification / fn update_from
    //@   props C05,C02
    //@   ens[update_from.post] final(self).mfs() == other.mfs() && final(self).tf() == other.tf()
    //@ fn src/log_specification.rs impl LogSpecification / fn module_filters
    //@   ret r
    //@   props C02
    //@   ens[module_filters.post] r@ == self.mfs()
    }
}
}
fn main() {}

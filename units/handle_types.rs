    use super::*;
    use super::{flexi_error::FlexiLoggerError, log_specification::*, primary_writer::PrimaryWriter, writers::LogWriter, util::{eprint_err, ErrorCode}};
    use std::{collections::HashMap, path::PathBuf, sync::{Arc, RwLock}};

    //@ item src/logger_handle.rs struct LoggerHandle
    //@   dropattr #[derive
    //@ item src/logger_handle.rs struct WritersHandle
    //@   dropattr #[derive

    impl LoggerHandle {
        /// the specification lock content after the verified call (prelude/sync.rs, A11)
        pub closed spec fn active_after(&self) -> LogSpecification { *lock_after(&*self.writers_handle.spec) }
    }
    impl WritersHandle {
        pub closed spec fn active_after(&self) -> LogSpecification { *lock_after(&*self.spec) }
    }

#![feature(print_internals)]
#![allow(unused_imports, dead_code, unused_variables, unused_mut, unreachable_code, unused_parens)]
// Unit `builder` (C16, C18, C06): FileLogWriterBuilder::{try_build_state, assert_write_mode, get_write_mode}
// (src/writers/file_log_writer/builder.rs): the directory that is created/checked and the faithful transfer of the
// configuration into the State.
use vstd::prelude::*;
verus! {
//@ include prelude/base.rs
#[verifier::external_type_specification]
pub struct ExLevelFilter(log::LevelFilter);

pub uninterp spec fn fs_create_dir_all_result(p: Seq<char>) -> Result<(), std::io::Error>;
#[verifier::allow(undeclared_external_trait)]
pub assume_specification<P: AsRef<std::path::Path>>[ std::fs::create_dir_all ](p: P) -> (r: Result<(), std::io::Error>)
    ensures r == fs_create_dir_all_result(aspath::<P>(p));
pub uninterp spec fn metadata_is_dir(m: &std::fs::Metadata) -> bool;
pub assume_specification[ std::fs::Metadata::is_dir ](m: &std::fs::Metadata) -> (r: bool)
    ensures r == metadata_is_dir(m);
#[verifier::allow(undeclared_external_trait)]
pub assume_specification<'a, S: AsRef<std::ffi::OsStr> + ?Sized>[ std::path::Path::new ](s: &'a S) -> (r: &'a std::path::Path)
    ensures path_view(r) == aspath::<&S>(s);
#[verifier::external_type_specification]
#[verifier::external_body]
pub struct ExOsStr(std::ffi::OsStr);
pub uninterp spec fn osstr_view(s: &std::ffi::OsStr) -> Seq<char>;
pub assume_specification[ std::path::Path::as_os_str ](p: &std::path::Path) -> (r: &std::ffi::OsStr)
    ensures osstr_view(r) == path_view(p);
pub assume_specification[ std::ffi::OsStr::is_empty ](s: &std::ffi::OsStr) -> (r: bool)
    ensures r == (osstr_view(s).len() == 0);
pub uninterp spec fn path_join(dir: Seq<char>, name: Seq<char>) -> Seq<char>;
#[verifier::allow(undeclared_external_trait)]
pub assume_specification<P: AsRef<std::path::Path>>[ std::path::PathBuf::push ](p: &mut std::path::PathBuf, name: P)
    ensures pathbuf_view(final(p)) == path_join(pathbuf_view(old(p)), aspath::<P>(name));
pub broadcast axiom fn ax_aspath_str(s: &str)
    ensures #[trigger] aspath::<&str>(s) == s@;

pub mod flexi_error {
    use super::*;
    use vstd::std_specs::convert::FromSpecImpl;
    /// SHIM (trusted): reduced FlexiLoggerError (see units/state.rs)
    pub enum FlexiLoggerError { Reset, NoFileLogger, OutputBadDirectory, OutputIo(std::io::Error), Poison }
    impl From<std::io::Error> for FlexiLoggerError {
        fn from(e: std::io::Error) -> (r: FlexiLoggerError) { FlexiLoggerError::OutputIo(e) }
    }
    impl FromSpecImpl<std::io::Error> for FlexiLoggerError {
        open spec fn obeys_from_spec() -> bool { true }
        open spec fn from_spec(e: std::io::Error) -> FlexiLoggerError { FlexiLoggerError::OutputIo(e) }
    }
}
pub mod shims {
    use super::*;
    use std::path::PathBuf;
    /// SHIM (R4) for the fn-pointer alias FormatFunction
    #[derive(Clone, Copy)]
    pub struct VFormatFn { _o: () }
    pub type FormatFunction = VFormatFn;
    //@ opaque src/parameters/file_spec.rs struct FileSpec
    //@   dropattr #[derive
    impl Clone for FileSpec { #[verifier::external_body] fn clone(&self) -> (r: FileSpec) ensures r == *self { unimplemented!() } }
    impl FileSpec {
        pub uninterp spec fn dir_spec(&self) -> Seq<char>;
        //@ sig src/parameters/file_spec.rs impl FileSpec / fn get_directory
        //@   ret r
        //@   ens pathbuf_view(&r) == self.dir_spec()
    }
    /// SHIM: WriteMode as an opaque value with decidable equality (`==` is the derived PartialEq)
    pub struct WriteMode { _o: () }
    impl Clone for WriteMode { #[verifier::external_body] fn clone(&self) -> (r: WriteMode) ensures r == *self { unimplemented!() } }
    impl Copy for WriteMode {}
    impl PartialEq for WriteMode { #[verifier::external_body] fn eq(&self, o: &WriteMode) -> (r: bool) ensures r == (*self == *o) { unimplemented!() } }
    pub struct RotationConfig { _o: () }
    impl Clone for RotationConfig { #[verifier::external_body] fn clone(&self) -> (r: RotationConfig) ensures r == *self { unimplemented!() } }
    /// SHIM: the configuration record (all fields of the real struct)
    pub struct FileLogWriterConfig {
        pub print_message: bool, pub append: bool, pub write_mode: WriteMode, pub file_spec: FileSpec,
        pub o_create_symlink: Option<PathBuf>, pub line_ending: &'static [u8], pub use_utc: bool,
    }
    pub struct State { pub config: FileLogWriterConfig, pub o_rot: Option<RotationConfig>, pub bg: bool }
    impl State {
        /// SHIM for State::new (proved in unit `state`: State::new.post)
        #[verifier::external_body]
        pub fn new(config: FileLogWriterConfig, o_rotation_config: Option<RotationConfig>, cleanup_in_background_thread: bool) -> (r: State)
            ensures r.config == config, r.o_rot == o_rotation_config, r.bg == cleanup_in_background_thread { unimplemented!() }
    }
    /// SHIM for FileLogWriter::new (proved in unit `flw`: FileLogWriter::new.post.*)
    pub struct FileLogWriter { pub state: State, pub max_log_level: log::LevelFilter, pub format: VFormatFn }
    impl FileLogWriter {
        #[verifier::external_body]
        pub fn new(state: State, max_log_level: log::LevelFilter, format_function: VFormatFn) -> (r: FileLogWriter)
            ensures r.state == state, r.max_log_level == max_log_level, r.format == format_function { unimplemented!() }
    }
    pub trait LogWriter {}
}
pub mod builder {
    use super::*;
    use super::flexi_error::FlexiLoggerError;
    use super::shims::*;
    use std::path::{Path, PathBuf};
    broadcast use group_aspath, ax_aspath_str;

    type FormatFunction = VFormatFn;
    //@ item src/writers/file_log_writer/builder.rs struct FileLogWriterBuilder

    /// F4: a path without a directory part means the current folder
    pub open spec fn effective_dir(d: Seq<char>) -> Seq<char> { if d.len() == 0 { path_join(d, "."@) } else { d } }

    impl FileLogWriterBuilder {
        pub closed spec fn mode(&self) -> WriteMode { self.cfg_write_mode }
        pub closed spec fn dir(&self) -> Seq<char> { self.file_spec.dir_spec() }
        /// the State is built from exactly the builder's settings
        pub closed spec fn transferred(&self, st: &State) -> bool {
            st.config.print_message == self.cfg_print_message && st.config.append == self.cfg_append
            && st.config.line_ending == self.cfg_line_ending && st.config.write_mode == self.cfg_write_mode
            && st.config.file_spec == self.file_spec && st.config.use_utc == self.use_utc
            && (match (st.config.o_create_symlink, self.cfg_o_create_symlink) { (Some(a), Some(b)) => pathbuf_view(&a) == pathbuf_view(&b), (None, None) => true, _ => false })
            && st.o_rot == self.o_rotation_config && st.bg == self.cleanup_in_background_thread
        }
        pub closed spec fn fmt(&self) -> VFormatFn { self.format }
        pub closed spec fn ceiling(&self) -> log::LevelFilter { self.max_log_level }
    //@ fn src/writers/file_log_writer/builder.rs impl FileLogWriterBuilder / fn format
    //@   ret r
    //@   props C20
    //@   rule R10b 1
    //@   ens[FileLogWriterBuilder::format.post] r.fmt() == format && r.mode() == self.mode() && r.ceiling() == self.ceiling() && r.dir() == self.dir()
    //@ fn src/writers/file_log_writer/builder.rs impl FileLogWriterBuilder / fn try_build
    //@   ret r
    //@   props C20,C13,C16
    //@   ens[try_build.post] r is Ok ==> r->Ok_0.format == self.fmt() && r->Ok_0.max_log_level == self.ceiling() && self.transferred(&r->Ok_0.state)
    //@ fn src/writers/file_log_writer/builder.rs impl FileLogWriterBuilder / fn assert_write_mode
    //@   ret r
    //@   props C18
    //@   ens[assert_write_mode.post] (r is Ok) == (self.mode() == write_mode)
    //@   ens[assert_write_mode.post.err] r is Err ==> r->Err_0 is Reset
    //@ fn src/writers/file_log_writer/builder.rs impl FileLogWriterBuilder / fn get_write_mode
    //@   ret r
    //@   props C18
    //@   ens[get_write_mode.post] *r == self.mode()
        /// oracle: can chrono render the configured custom timestamp format (F15)? (chrono's formatter is outside the verifier)
        pub uninterp spec fn ts_format_check(&self) -> Result<(), FlexiLoggerError>;
    //@ sig src/writers/file_log_writer/builder.rs impl FileLogWriterBuilder / fn check_timestamp_format
    //@   ret r
    //@   ens r == self.ts_format_check()
    //@ fn src/writers/file_log_writer/builder.rs impl FileLogWriterBuilder / fn try_build_state
    //@   ret r
    //@   props C16,C18,C06,C10
    //@   ens[try_build_state.post.format_checked] r is Ok ==> self.ts_format_check() is Ok
    //@   ens[try_build_state.post.dir] r is Ok ==> fs_create_dir_all_result(effective_dir(self.dir())) is Ok
    //@       && fs_metadata_result(effective_dir(self.dir())) is Ok && metadata_is_dir(&fs_metadata_result(effective_dir(self.dir()))->Ok_0)
    //@   ens[try_build_state.post.config] r is Ok ==> self.transferred(&r->Ok_0)
    //@   canary
    }
}
}
fn main() {}

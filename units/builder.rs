#![feature(print_internals)]
#![allow(unused_imports, dead_code, unused_variables, unused_mut, unreachable_code, unused_parens)]
// Unit `builder` (C16, C18, C06): FileLogWriterBuilder::{try_build_state, assert_write_mode, get_write_mode}
// (src/writers/file_log_writer/builder.rs): the directory that is created/checked and the faithful transfer of the
// configuration into the State.
use vstd::prelude::*;
verus! {
//@ include prelude/base.rs
#[verifier::external_type_specification]
pub struct ExLevelFilter(log::LevelFilter);

pub uninterp spec fn fs_create_dir_all_result(p: Seq<char>) -> Result<(), std::io::Error>;
#[verifier::allow(undeclared_external_trait)]
pub assume_specification<P: AsRef<std::path::Path>>[ std::fs::create_dir_all ](p: P) -> (r: Result<(), std::io::Error>)
    ensures r == fs_create_dir_all_result(aspath::<P>(p));
pub uninterp spec fn metadata_is_dir(m: &std::fs::Metadata) -> bool;
pub assume_specification[ std::fs::Metadata::is_dir ](m: &std::fs::Metadata) -> (r: bool)
    ensures r == metadata_is_dir(m);
#[verifier::allow(undeclared_external_trait)]
pub assume_specification<'a, S: AsRef<std::ffi::OsStr> + ?Sized>[ std::path::Path::new ](s: &'a S) -> (r: &'a std::path::Path)
    ensures path_view(r) == aspath::<&S>(s);
#[verifier::external_type_specification]
#[verifier::external_body]
pub struct ExOsStr(std::ffi::OsStr);
pub uninterp spec fn osstr_view(s: &std::ffi::OsStr) -> Seq<char>;
pub assume_specification[ std::path::Path::as_os_str ](p: &std::path::Path) -> (r: &std::ffi::OsStr)
    ensures osstr_view(r) == path_view(p);
pub assume_specification[ std::ffi::OsStr::is_empty ](s: &std::ffi::OsStr) -> (r: bool)
    ensures r == (osstr_view(s).len() == 0);
pub uninterp spec fn path_join(dir: Seq<char>, name: Seq<char>) -> Seq<char>;
#[verifier::allow(undeclared_external_trait)]
pub assume_specification<P: AsRef<std::path::Path>>[ std::path::PathBuf::push ](p: &mut std::path::PathBuf, name: P)
    ensures pathbuf_view(final(p)) == path_join(pathbuf_view(old(p)), aspath::<P>(name));
pub broadcast axiom fn ax_aspath_str(s: &str)
    ensures #[trigger] aspath::<&str>(s) == s@;

pub mod flexi_error {
    use super::*;
    use vstd::std_specs::convert::FromSpecImpl;
    /// SHIM (trusted): reduced FlexiLoggerError (see units/state.rs)
    pub enum FlexiLoggerError { Reset, NoFileLogger, OutputBadDirectory, OutputIo(std::io::Error), Poison }
    impl From<std::io::Error> for FlexiLoggerError {
        fn from(e: std::io::Error) -> (r: FlexiLoggerError) { FlexiLoggerError::OutputIo(e) }
    }
    impl FromSpecImpl<std::io::Error> for FlexiLoggerError {
        open spec fn obeys_from_spec() -> bool { true }
        open spec fn from_spec(e: std::io::Error) -> FlexiLoggerError { FlexiLoggerError::OutputIo(e) }
    }
}
pub mod into_axioms {
    use super::*;
    use std::path::PathBuf;
    /// oracle: the path an `Into<PathBuf>` argument converts to; `Into::into` is a function of its argument
    pub uninterp spec fn into_path<P>(p: P) -> Seq<char>;
    pub broadcast axiom fn ax_into_path<P: Into<PathBuf>>(p: P, r: PathBuf)
        ensures #[trigger] call_ensures(<P as Into<PathBuf>>::into, (p,), r) ==> pathbuf_view(&r) == into_path::<P>(p);
}
pub mod shims {
    use super::*;
    use std::path::PathBuf;
    use std::time::Duration;
    /// SHIM (R4) for the fn-pointer alias FormatFunction
    #[derive(Clone, Copy)]
    pub struct VFormatFn { _o: () }
    pub type FormatFunction = VFormatFn;
    /// SHIM for FileSpec: the `use_utc` flag the builder sets (field name as in the source), everything else opaque
    pub struct FileSpecRest { _o: () }
    pub struct FileSpec { pub use_utc: bool, pub rest: FileSpecRest }
    impl Clone for FileSpec { #[verifier::external_body] fn clone(&self) -> (r: FileSpec) ensures r == *self { unimplemented!() } }
    impl FileSpec {
        pub uninterp spec fn dir_spec(&self) -> Seq<char>;
        /// unit `naming` (if_default_use_timestamp.post): an undecided file spec gets its time-stamp decision, nothing else changes
        pub uninterp spec fn decided_spec(self, use_timestamp: bool) -> FileSpec;
        //@ sig src/parameters/file_spec.rs impl FileSpec / fn get_directory
        //@   ret r
        //@   ens pathbuf_view(&r) == self.dir_spec()
        //@ sig src/parameters/file_spec.rs impl FileSpec / fn if_default_use_timestamp
        //@   ens *final(self) == old(self).decided_spec(use_timestamp)
    }
    //@ item src/write_mode.rs enum WriteMode
    //@   dropattr #[derive
    impl Clone for WriteMode { #[verifier::external_body] fn clone(&self) -> (r: WriteMode) ensures r == *self { unimplemented!() } }
    impl Copy for WriteMode {}
    impl PartialEq for WriteMode { #[verifier::external_body] fn eq(&self, o: &WriteMode) -> (r: bool) ensures r == (*self == *o) { unimplemented!() } }
    pub struct Criterion { _o: () }
    pub struct Naming { _o: () }
    pub struct Cleanup { _o: () }
    //@ item src/writers/file_log_writer/config.rs struct RotationConfig
    //@   dropattr #[derive
    impl Clone for RotationConfig { #[verifier::external_body] fn clone(&self) -> (r: RotationConfig) ensures r == *self { unimplemented!() } }
    /// SHIM for the fn item `default_format` (the default value of the format function)
    pub uninterp spec fn default_format_spec() -> VFormatFn;
    #[allow(non_upper_case_globals)]
    #[verifier::external_body]
    pub exec const default_format: VFormatFn ensures default_format == default_format_spec() { VFormatFn { _o: () } }
    /// SHIM: the configuration record (all fields of the real struct)
    pub struct FileLogWriterConfig {
        pub print_message: bool, pub append: bool, pub write_mode: WriteMode, pub file_spec: FileSpec,
        pub o_create_symlink: Option<PathBuf>, pub line_ending: &'static [u8], pub use_utc: bool,
    }
    pub struct State { pub config: FileLogWriterConfig, pub o_rot: Option<RotationConfig>, pub bg: bool }
    impl State {
        /// SHIM for State::new (proved in unit `state`: State::new.post)
        #[verifier::external_body]
        pub fn new(config: FileLogWriterConfig, o_rotation_config: Option<RotationConfig>, cleanup_in_background_thread: bool) -> (r: State)
            ensures r.config == config, r.o_rot == o_rotation_config, r.bg == cleanup_in_background_thread { unimplemented!() }
    }
    /// SHIM for FileLogWriter::new (proved in unit `flw`: FileLogWriter::new.post.*)
    pub struct FileLogWriter { pub state: State, pub max_log_level: log::LevelFilter, pub format: VFormatFn }
    impl FileLogWriter {
        #[verifier::external_body]
        pub fn new(state: State, max_log_level: log::LevelFilter, format_function: VFormatFn) -> (r: FileLogWriter)
            ensures r.state == state, r.max_log_level == max_log_level, r.format == format_function { unimplemented!() }
    }
    pub trait LogWriter {}
}
//@ item src/writers/file_log_writer.rs const WINDOWS_LINE_ENDING
//@   bytesconst
//@ item src/writers/file_log_writer.rs const UNIX_LINE_ENDING
//@   bytesconst
pub mod builder {
    use super::*;
    use super::flexi_error::FlexiLoggerError;
    use super::shims::*;
    use std::path::{Path, PathBuf};
    use super::into_axioms::*;
    broadcast use group_aspath, ax_aspath_str, ax_into_path;

    type FormatFunction = VFormatFn;
    //@ item src/writers/file_log_writer/builder.rs struct FileLogWriterBuilder

    /// F4: a path without a directory part means the current folder
    pub open spec fn effective_dir(d: Seq<char>) -> Seq<char> { if d.len() == 0 { path_join(d, "."@) } else { d } }

    impl FileLogWriterBuilder {
        pub closed spec fn mode(&self) -> WriteMode { self.cfg_write_mode }
        pub closed spec fn dir(&self) -> Seq<char> { self.file_spec.dir_spec() }
        /// the State is built from exactly the builder's settings
        pub closed spec fn transferred(&self, st: &State) -> bool {
            st.config.print_message == self.cfg_print_message && st.config.append == self.cfg_append
            && st.config.line_ending == self.cfg_line_ending && st.config.write_mode == self.cfg_write_mode
            && st.config.file_spec == self.file_spec && st.config.use_utc == self.use_utc
            && (match (st.config.o_create_symlink, self.cfg_o_create_symlink) { (Some(a), Some(b)) => pathbuf_view(&a) == pathbuf_view(&b), (None, None) => true, _ => false })
            && st.o_rot == self.o_rotation_config && st.bg == self.effective_bg()
        }
        /// C07: with an asynchronous writer (explicit capacities) the cleanup runs in the writer thread, not in a thread of its own
        #[cfg(feature = "async")]
        pub closed spec fn effective_bg(&self) -> bool { if self.cfg_write_mode is AsyncWith { false } else { self.cleanup_in_background_thread } }
        #[cfg(not(feature = "async"))]
        pub closed spec fn effective_bg(&self) -> bool { self.cleanup_in_background_thread }
        pub closed spec fn fmt(&self) -> VFormatFn { self.format }
        /// the plain settings as a tuple: (print message, append, write mode, line ending, format, ceiling, background cleanup, utc)
        pub closed spec fn settings(&self) -> (bool, bool, WriteMode, Seq<u8>, VFormatFn, log::LevelFilter, bool, bool) {
            (self.cfg_print_message, self.cfg_append, self.cfg_write_mode, self.cfg_line_ending@, self.format, self.max_log_level, self.cleanup_in_background_thread, self.use_utc)
        }
        /// file spec, rotation and symlink: what the plain setters must leave alone
        pub closed spec fn others(&self) -> (FileSpec, Option<RotationConfig>, Option<Seq<char>>) {
            (self.file_spec, self.o_rotation_config, match self.cfg_o_create_symlink { Some(p) => Some(pathbuf_view(&p)), None => None })
        }
    //@ fn src/writers/file_log_writer/builder.rs impl FileLogWriterBuilder / fn print_message
    //@   ret r
    //@   props C16
    //@   rule R10b 1
    //@   ens[FileLogWriterBuilder::print_message.post] r.settings() == (true, self.settings().1, self.settings().2, self.settings().3, self.settings().4, self.settings().5, self.settings().6, self.settings().7) && r.others() == self.others()
    //@ fn src/writers/file_log_writer/builder.rs impl FileLogWriterBuilder / fn append
    //@   ret r
    //@   props C06,C08
    //@   rule R10b 1
    //@   ens[FileLogWriterBuilder::append.post] r.settings() == (self.settings().0, true, self.settings().2, self.settings().3, self.settings().4, self.settings().5, self.settings().6, self.settings().7) && r.others() == self.others()
    //@ fn src/writers/file_log_writer/builder.rs impl FileLogWriterBuilder / fn write_mode
    //@   ret r
    //@   props C15
    //@   rule R10b 1
    //@   ens[FileLogWriterBuilder::write_mode.post] r.settings() == (self.settings().0, self.settings().1, write_mode, self.settings().3, self.settings().4, self.settings().5, self.settings().6, self.settings().7) && r.others() == self.others()
    //@ fn src/writers/file_log_writer/builder.rs impl FileLogWriterBuilder / fn use_windows_line_ending
    //@   ret r
    //@   props C20
    //@   rule R10b 1
    //@   ens[FileLogWriterBuilder::use_windows_line_ending.post] r.settings() == (self.settings().0, self.settings().1, self.settings().2, super::WINDOWS_LINE_ENDING_spec(), self.settings().4, self.settings().5, self.settings().6, self.settings().7) && r.others() == self.others()
    //@ fn src/writers/file_log_writer/builder.rs impl FileLogWriterBuilder / fn max_level
    //@   ret r
    //@   props C13
    //@   rule R10b 1
    //@   ens[FileLogWriterBuilder::max_level.post] r.settings() == (self.settings().0, self.settings().1, self.settings().2, self.settings().3, self.settings().4, max_log_level, self.settings().6, self.settings().7) && r.others() == self.others()
    //@ fn src/writers/file_log_writer/builder.rs impl FileLogWriterBuilder / fn cleanup_in_background_thread
    //@   ret r
    //@   props C07
    //@   rule R10b 1
    //@   ens[FileLogWriterBuilder::cleanup_in_background_thread.post] r.settings() == (self.settings().0, self.settings().1, self.settings().2, self.settings().3, self.settings().4, self.settings().5, use_background_thread, self.settings().7) && r.others() == self.others()
    //@ fn src/writers/file_log_writer/builder.rs impl FileLogWriterBuilder / fn o_print_message
    //@   ret r
    //@   props C16
    //@   rule R10b 1
    //@   ens[FileLogWriterBuilder::o_print_message.post] r.settings() == (print_message, self.settings().1, self.settings().2, self.settings().3, self.settings().4, self.settings().5, self.settings().6, self.settings().7) && r.others() == self.others()
    //@ fn src/writers/file_log_writer/builder.rs impl FileLogWriterBuilder / fn o_append
    //@   ret r
    //@   props C06
    //@   rule R10b 1
    //@   ens[FileLogWriterBuilder::o_append.post] r.settings() == (self.settings().0, append, self.settings().2, self.settings().3, self.settings().4, self.settings().5, self.settings().6, self.settings().7) && r.others() == self.others()
        pub closed spec fn the_file_spec(&self) -> FileSpec { self.file_spec }
        pub closed spec fn rotation(&self) -> Option<RotationConfig> { self.o_rotation_config }
        pub closed spec fn symlink(&self) -> Option<Seq<char>> { self.others().2 }
        pub closed spec fn rot_of(criterion: Criterion, naming: Naming, cleanup: Cleanup) -> RotationConfig { RotationConfig { criterion, naming, cleanup } }
        /// the defaults of a new builder: nothing printed, no append, direct writing, LF, default format, no ceiling, background cleanup, local time
    //@ fn src/writers/file_log_writer/builder.rs impl FileLogWriterBuilder / fn new
    //@   ret r
    //@   props C20,C15,C13,C06,C10
    //@   ens[FileLogWriterBuilder::new.post] r.settings() == (false, false, WriteMode::Direct, super::UNIX_LINE_ENDING_spec(), default_format_spec(), log::LevelFilter::Trace, true, false)
    //@   ens[FileLogWriterBuilder::new.post.others] r.the_file_spec() == file_spec && r.rotation() is None && r.symlink() is None
    }
    impl FileLogWriter {
    //@ fn src/writers/file_log_writer.rs impl FileLogWriter / fn builder
    //@   ret r
    //@   props C20,C15,C13,C06,C10
    //@   ens[FileLogWriter::builder.post] r.settings() == (false, false, WriteMode::Direct, super::UNIX_LINE_ENDING_spec(), default_format_spec(), log::LevelFilter::Trace, true, false) && r.the_file_spec() == file_spec && r.rotation() is None && r.symlink() is None
    }
    impl FileLogWriterBuilder {
        /// C16 / C06: with rotation the file names carry no start time unless the file spec asked for one
    //@ fn src/writers/file_log_writer/builder.rs impl FileLogWriterBuilder / fn rotate
    //@   ret r
    //@   props C16,C06,C07
    //@   rule R10b 1
    //@   ens[FileLogWriterBuilder::rotate.post] r.rotation() == Some(Self::rot_of(criterion, naming, cleanup)) && r.the_file_spec() == self.the_file_spec().decided_spec(false)
    //@   ens[FileLogWriterBuilder::rotate.post.frame] r.settings() == self.settings() && r.symlink() == self.symlink()
    //@ fn src/writers/file_log_writer/builder.rs impl FileLogWriterBuilder / fn o_rotate
    //@   ret r
    //@   props C16,C06,C07
    //@   rule R10b 1
    //@   ens[FileLogWriterBuilder::o_rotate.post] match rotate_config { Some((c, n, cl)) => r.rotation() == Some(Self::rot_of(c, n, cl)) && r.the_file_spec() == self.the_file_spec().decided_spec(false), None => r.rotation() is None && r.the_file_spec() == self.the_file_spec().decided_spec(true) }
    //@   ens[FileLogWriterBuilder::o_rotate.post.frame] r.settings() == self.settings() && r.symlink() == self.symlink()
    //@ fn src/writers/file_log_writer/builder.rs impl FileLogWriterBuilder / fn file_spec
    //@   ret r
    //@   props C16,C06
    //@   rule R10b 1
    //@   ens[FileLogWriterBuilder::file_spec.post] r.the_file_spec() == (if self.rotation() is Some { file_spec.decided_spec(false) } else { file_spec })
    //@   ens[FileLogWriterBuilder::file_spec.post.frame] r.settings() == self.settings() && r.rotation() == self.rotation() && r.symlink() == self.symlink()
    //@ fn src/writers/file_log_writer/builder.rs impl FileLogWriterBuilder / fn create_symlink
    //@   ret r
    //@   props C16
    //@   rule R10b 1
    //@   ens[FileLogWriterBuilder::create_symlink.post] r.symlink() == Some(into_path::<P>(symlink)) && r.settings() == self.settings() && r.the_file_spec() == self.the_file_spec() && r.rotation() == self.rotation()
    //@ fn src/writers/file_log_writer/builder.rs impl FileLogWriterBuilder / fn o_create_symlink
    //@   ret r
    //@   props C16
    //@   rule R10b 1
    //@   rule R19p 1
    //@   ens[FileLogWriterBuilder::o_create_symlink.post] r.symlink() == (match symlink { Some(p) => Some(into_path::<S>(p)), None => None }) && r.settings() == self.settings() && r.the_file_spec() == self.the_file_spec() && r.rotation() == self.rotation()
    //@ fn src/writers/file_log_writer/builder.rs impl FileLogWriterBuilder / fn use_utc
    //@   ret r
    //@   props C09,C20
    //@   rule R10b 1
    //@   ens[FileLogWriterBuilder::use_utc.post] r.settings() == (self.settings().0, self.settings().1, self.settings().2, self.settings().3, self.settings().4, self.settings().5, self.settings().6, true) && r.the_file_spec() == (FileSpec { use_utc: true, ..self.the_file_spec() })
    //@   ens[FileLogWriterBuilder::use_utc.post.frame] r.rotation() == self.rotation() && r.symlink() == self.symlink()
        pub closed spec fn ceiling(&self) -> log::LevelFilter { self.max_log_level }
    //@ fn src/writers/file_log_writer/builder.rs impl FileLogWriterBuilder / fn format
    //@   ret r
    //@   props C20
    //@   rule R10b 1
    //@   ens[FileLogWriterBuilder::format.post] r.fmt() == format && r.mode() == self.mode() && r.ceiling() == self.ceiling() && r.dir() == self.dir()
    //@ fn src/writers/file_log_writer/builder.rs impl FileLogWriterBuilder / fn try_build
    //@   ret r
    //@   props C20,C13,C16
    //@   ens[try_build.post] r is Ok ==> r->Ok_0.format == self.fmt() && r->Ok_0.max_log_level == self.ceiling() && self.transferred(&r->Ok_0.state)
    //@ fn src/writers/file_log_writer/builder.rs impl FileLogWriterBuilder / fn assert_write_mode
    //@   ret r
    //@   props C18
    //@   ens[assert_write_mode.post] (r is Ok) == (self.mode() == write_mode)
    //@   ens[assert_write_mode.post.err] r is Err ==> r->Err_0 is Reset
    //@ fn src/writers/file_log_writer/builder.rs impl FileLogWriterBuilder / fn get_write_mode
    //@   ret r
    //@   props C18
    //@   ens[get_write_mode.post] *r == self.mode()
        /// oracle: can chrono render the configured custom timestamp format (F15)? (chrono's formatter is outside the verifier)
        pub uninterp spec fn ts_format_check(&self) -> Result<(), FlexiLoggerError>;
    //@ sig src/writers/file_log_writer/builder.rs impl FileLogWriterBuilder / fn check_timestamp_format
    //@   ret r
    //@   ens r == self.ts_format_check()
    //@ fn src/writers/file_log_writer/builder.rs impl FileLogWriterBuilder / fn try_build_state
    //@   ret r
    //@   props C16,C18,C06,C10,C07
    //@   ens[try_build_state.post.format_checked] r is Ok ==> self.ts_format_check() is Ok
    //@   ens[try_build_state.post.dir] r is Ok ==> fs_create_dir_all_result(effective_dir(self.dir())) is Ok
    //@       && fs_metadata_result(effective_dir(self.dir())) is Ok && metadata_is_dir(&fs_metadata_result(effective_dir(self.dir()))->Ok_0)
    //@   ens[try_build_state.post.config] r is Ok ==> self.transferred(&r->Ok_0)
    //@   canary
    }
}
}
fn main() {}

#![allow(unused_imports, dead_code, unused_variables, unused_mut, unreachable_code, unused_parens)]
// Unit `listing` (C16, C07, C14): list_and_cleanup::{existing_log_files, list_of_log_and_compressed_files} and
// LogfileSelector (src/logger_handle.rs) — which categories of files a selector asks the (oracle) directory listing for.
use vstd::prelude::*;
verus! {
//@ include prelude/types.rs
//@ include prelude/combinators.rs
pub uninterp spec fn pathbuf_view(p: &std::path::PathBuf) -> Seq<char>;
/// `Option<String>::as_deref`
pub uninterp spec fn as_deref_rel<T: core::ops::Deref>(o: &Option<T>, r: Option<&T::Target>) -> bool;
pub assume_specification<T: core::ops::Deref>[ Option::<T>::as_deref ](o: &Option<T>) -> (r: Option<&T::Target>)
    ensures as_deref_rel::<T>(o, r);
/// `String::to_string()` (the Display blanket impl) copies the text
pub broadcast axiom fn ax_string_to_string(s: &String, r: String)
    ensures #[trigger] vstd::string::to_string_from_display_ensures::<String>(s, r) ==> r@ == s@;
pub broadcast axiom fn ax_as_deref_string(o: &Option<String>, r: Option<&str>)
    ensures #[trigger] as_deref_rel::<String>(o, r) <==> (match (*o, r) { (Some(s), Some(t)) => t@ == s@, (None, None) => true, _ => false });

pub mod logger_handle {
    use super::*;
    //@ item src/logger_handle.rs struct LogfileSelector
    pub ghost struct SelV { pub plain: bool, pub rcur: bool, pub comp: bool, pub custom: Option<Seq<char>> }
    impl LogfileSelector {
        pub closed spec fn sv(&self) -> SelV {
            SelV { plain: self.with_plain_files, rcur: self.with_r_current, comp: self.with_compressed_files,
                   custom: match self.with_configured_current { Some(s) => Some(s@), None => None } }
        }
    // `mut self` builder methods: rule R10b (receiver `self`, body works on `let mut self_ = self;`)
    //@ fn src/logger_handle.rs impl LogfileSelector / fn none
    //@   ret r
    //@   props C16
    //@   ens[LogfileSelector::none.post] r.sv() == (SelV { plain: false, rcur: false, comp: false, custom: None })
    //@ fn src/logger_handle.rs impl LogfileSelector / fn with_r_current
    //@   ret r
    //@   props C16
    //@   rule R10b 1
    //@   ens[LogfileSelector::with_r_current.post] r.sv() == (SelV { rcur: true, ..self.sv() })
    //@ fn src/logger_handle.rs impl LogfileSelector / fn with_compressed_files
    //@   ret r
    //@   props C16,C07
    //@   rule R10b 1
    //@   ens[LogfileSelector::with_compressed_files.post] r.sv() == (SelV { comp: true, ..self.sv() })
    }
    /// bridge (proved here, where `sv` is visible): the view in terms of the crate-visible fields
    pub(crate) broadcast proof fn lemma_sv(s: &LogfileSelector)
        ensures #[trigger] s.sv() == (SelV { plain: s.with_plain_files, rcur: s.with_r_current, comp: s.with_compressed_files,
                   custom: match s.with_configured_current { Some(x) => Some(x@), None => None } }),
    {}
    impl Default for LogfileSelector {
    //@ fn src/logger_handle.rs impl Default for LogfileSelector / fn default
    //@   ret r
    //@   props C16,C07
    //@   ens[LogfileSelector::default.post] r.sv() == (SelV { plain: true, rcur: false, comp: false, custom: None })
    }
}
pub mod infix_filter {
    use super::*;
    /// SHIM: InfixFilter with the timestamp format reduced to its text (the real variant holds state::InfixFormat)
    pub enum InfixFilter { Timstmps(Option<String>), Numbrs, Equls(String), None }
    pub ghost enum FilterV { Timstmps(Option<Seq<char>>), Numbrs, Equls(Seq<char>), None }
    impl InfixFilter {
        pub open spec fn fv(&self) -> FilterV {
            match self {
                InfixFilter::Timstmps(o) => FilterV::Timstmps(match o { Some(s) => Some(s@), None => None }),
                InfixFilter::Numbrs => FilterV::Numbrs,
                InfixFilter::Equls(s) => FilterV::Equls(s@),
                InfixFilter::None => FilterV::None,
            }
        }
    }
}
pub mod file_spec {
    use super::*;
    use super::infix_filter::*;
    use std::path::PathBuf;
    //@ opaque src/parameters/file_spec.rs struct FileSpec
    //@   dropattr #[derive
    pub open spec fn ostr(o: Option<&str>) -> Option<Seq<char>> { match o { Some(s) => Some(s@), None => None } }
    pub open spec fn ostring(o: Option<String>) -> Option<Seq<char>> { match o { Some(s) => Some(s@), None => None } }
    impl FileSpec {
        pub uninterp spec fn path_spec(&self, o_infix: Option<Seq<char>>) -> Seq<char>;
        pub uninterp spec fn suffix_spec(&self) -> Option<Seq<char>>;
        /// oracle: the family members found in the directory, newest first (read_dir_related_files: not decided)
        pub uninterp spec fn related_spec(&self) -> Seq<PathBuf>;
        /// oracle: the members of `files` whose infix passes the filter and whose suffix matches (filter_files: not decided)
        pub uninterp spec fn filtered_spec(&self, files: Seq<PathBuf>, filter: FilterV, suffix: Option<Seq<char>>) -> Seq<PathBuf>;
        /// the PathBuf `as_pathbuf` builds (its view is path_spec, unit `naming`)
        pub uninterp spec fn pathbuf_spec(&self, o_infix: Option<Seq<char>>) -> PathBuf;
        //@ sig src/parameters/file_spec.rs impl FileSpec / fn as_pathbuf
        //@   ret r
        //@   ens pathbuf_view(&r) == self.path_spec(ostr(o_infix)) && r == self.pathbuf_spec(ostr(o_infix))
        //@ sig src/parameters/file_spec.rs impl FileSpec / fn get_suffix
        //@   ret r
        //@   ens ostring(r) == self.suffix_spec()
        //@ sig src/parameters/file_spec.rs impl FileSpec / fn read_dir_related_files
        //@   ret r
        //@   ens r@ == self.related_spec()
        //@ sig src/parameters/file_spec.rs impl FileSpec / fn filter_files
        //@   ret r
        //@   ens r@ == self.filtered_spec(files@, infix_filter.fv(), ostr(o_suffix))
    }
}
pub mod state {
    use super::*;
    pub const CURRENT_INFIX: &'static str = "rCURRENT";
    pub mod list_and_cleanup {
        use super::*;
        use super::super::infix_filter::*;
        use super::super::file_spec::*;
        use super::super::logger_handle::LogfileSelector;
        use std::path::PathBuf;
        broadcast use ax_as_deref_string, ax_string_to_string, super::super::logger_handle::lemma_sv;

        /// C16: the files `existing_log_files` returns, as a function of the selector and the directory oracles
        pub open spec fn existing_spec(fs: &FileSpec, use_rotation: bool, filter: FilterV, sel: super::super::logger_handle::SelV) -> Seq<PathBuf> {
            if !use_rotation { seq![fs.pathbuf_spec(None)] } else {
                let rel = fs.related_spec();
                let a = if sel.plain { fs.filtered_spec(rel, filter, fs.suffix_spec()) } else { Seq::<PathBuf>::empty() };
                let b = if sel.comp { a + fs.filtered_spec(rel, filter, Some("gz"@)) } else { a };
                let c = if sel.rcur { b + fs.filtered_spec(rel, FilterV::Equls(CURRENT_INFIX@), fs.suffix_spec()) } else { b };
                match sel.custom { Some(cc) => c + fs.filtered_spec(rel, FilterV::Equls(cc), fs.suffix_spec()), None => c }
            }
        }
    //@ fn src/writers/file_log_writer/state/list_and_cleanup.rs fn existing_log_files
    //@   ret r
    //@   props C16
    //@   ens[existing_log_files.post] r@ =~= existing_spec(file_spec, use_rotation, infix_filter.fv(), selector.sv())
    //@   canary
    //@ fn src/writers/file_log_writer/state/list_and_cleanup.rs fn list_of_log_and_compressed_files
    //@   ret r
    //@   props C07,C14,C16
    //@   ens[list_of_log_and_compressed_files.post] r@ =~= file_spec.filtered_spec(file_spec.related_spec(), infix_filter.fv(), file_spec.suffix_spec())
    //@       + file_spec.filtered_spec(file_spec.related_spec(), infix_filter.fv(), Some("gz"@))
    }
}
}
fn main() {}

#![feature(print_internals)]
#![allow(unused_imports, dead_code, unused_variables, unused_mut, unreachable_code, unused_parens)]
// Unit `latest` (C06, C14): timestamps::latest_timestamp_file (src/writers/file_log_writer/state/timestamps.rs) — which
// existing file a logger with direct timestamp naming continues to write to when it appends: the newest time stamp among
// the files of the family (listed with the configured suffix), else now.
// The iterator chain `.into_iter().map(..).filter_map(..).reduce(..)` is rewritten into eager shims on vectors (R16).
use vstd::prelude::*;
verus! {
//@ include prelude/types.rs
//@ include prelude/combinators.rs

#[verifier::external_type_specification]
#[verifier::external_body]
#[verifier::reject_recursive_types(Tz)]
pub struct ExDateTime<Tz: chrono::TimeZone>(chrono::DateTime<Tz>);
#[verifier::external_type_specification]
#[verifier::external_body]
pub struct ExLocal(chrono::Local);
pub uninterp spec fn clock_now() -> chrono::DateTime<chrono::Local>;
pub assume_specification[ chrono::Local::now ]() -> (r: chrono::DateTime<chrono::Local>)
    ensures r == clock_now();
/// `Option<String>::as_deref`
pub uninterp spec fn as_deref_rel<T: core::ops::Deref>(o: &Option<T>, r: Option<&T::Target>) -> bool;
pub assume_specification<T: core::ops::Deref>[ Option::<T>::as_deref ](o: &Option<T>) -> (r: Option<&T::Target>)
    ensures as_deref_rel::<T>(o, r);
pub broadcast axiom fn ax_as_deref_string(o: &Option<String>, r: Option<&str>)
    ensures #[trigger] as_deref_rel::<String>(o, r) <==> (match (*o, r) { (Some(s), Some(t)) => t@ == s@, (None, None) => true, _ => false });

/// the order of time stamps (chrono's PartialOrd on DateTime: the order of the instants): a total preorder
pub uninterp spec fn dt_le(a: chrono::DateTime<chrono::Local>, b: chrono::DateTime<chrono::Local>) -> bool;
pub mod dt_axioms {
    use super::*;
    use vstd::std_specs::cmp::PartialOrdSpec;
    use core::cmp::Ordering;
    pub broadcast axiom fn ax_dt_total(a: chrono::DateTime<chrono::Local>, b: chrono::DateTime<chrono::Local>)
        ensures #[trigger] dt_le(a, b) || dt_le(b, a);
    pub broadcast axiom fn ax_dt_trans(a: chrono::DateTime<chrono::Local>, b: chrono::DateTime<chrono::Local>, c: chrono::DateTime<chrono::Local>)
        requires #[trigger] dt_le(a, b), #[trigger] dt_le(b, c), ensures dt_le(a, c);
    pub broadcast axiom fn ax_dt_cmp(a: chrono::DateTime<chrono::Local>, b: chrono::DateTime<chrono::Local>)
        ensures #[trigger] a.partial_cmp_spec(&b) == Some(if dt_le(a, b) && dt_le(b, a) { Ordering::Equal } else if dt_le(a, b) { Ordering::Less } else { Ordering::Greater });
    pub broadcast axiom fn ax_dt_obeys()
        ensures #[trigger] <chrono::DateTime<chrono::Local> as PartialOrdSpec<chrono::DateTime<chrono::Local>>>::obeys_partial_cmp_spec();
    pub broadcast group group_dt { ax_dt_total, ax_dt_cmp, ax_dt_obeys }
}

/// R16 SHIMS: eager versions of Iterator::{map, filter_map, reduce} on an owned vector
pub open spec fn maps_to<T, U, F: FnOnce(T) -> U>(f: F, x: T, y: U) -> bool { f.ensures((x,), y) }
pub trait VAdapters<T>: Sized + vstd::view::View<V = Seq<T>> {
    fn vmap<U, F: Fn(T) -> U>(self, f: F) -> (r: Vec<U>)
        requires forall|i: int| 0 <= i < self@.len() ==> #[trigger] f.requires((self@[i],)),
        ensures r@.len() == self@.len(),
            forall|i: int| 0 <= i < r@.len() ==> f.ensures((self@[i],), #[trigger] r@[i]),
            forall|i: int| 0 <= i < r@.len() ==> f.ensures((#[trigger] self@[i],), r@[i]);
    /// what is kept is what f produced, in order: there is an index map into the input
    fn vfilter_map<U, F: Fn(T) -> Option<U>>(self, f: F) -> (r: Vec<U>)
        requires forall|i: int| 0 <= i < self@.len() ==> #[trigger] f.requires((self@[i],)),
        ensures
            forall|j: int| 0 <= j < r@.len() ==> exists|i: int| 0 <= i < self@.len() && f.ensures((self@[i],), Some(#[trigger] r@[j])),
            forall|i: int| 0 <= i < self@.len() ==> kept_if_some(f, #[trigger] self@[i], r@),
            // (the first clause at j == 0, stated for the solver)
            r@.len() > 0 ==> exists|i: int| 0 <= i < self@.len() && #[trigger] f.ensures((self@[i],), Some(r@[0]));
    /// the fold of f over the elements from the left; None iff there is no element
    fn vreduce<F: Fn(T, T) -> T>(self, f: F) -> (r: Option<T>)
        requires forall|a: T, b: T| #[trigger] f.requires((a, b)),
        ensures (r is None) == (self@.len() == 0), r is Some ==> reduce_rel(f, self@, r->Some_0);
    /// `find_map` (not used by the code as it is): the value f yields for the FIRST element it yields one for
    fn vfind_map<U, F: Fn(T) -> Option<U>>(self, f: F) -> (r: Option<U>)
        requires forall|i: int| 0 <= i < self@.len() ==> #[trigger] f.requires((self@[i],)),
        ensures
            r is Some ==> exists|i: int| 0 <= i < self@.len() && #[trigger] f.ensures((self@[i],), r) && forall|j: int| 0 <= j < i ==> #[trigger] f.ensures((self@[j],), None),
            r is None ==> forall|i: int| 0 <= i < self@.len() ==> #[trigger] f.ensures((self@[i],), None);
}
pub open spec fn kept_if_some<T, U, F: Fn(T) -> Option<U>>(f: F, x: T, r: Seq<U>) -> bool {
    exists|y: Option<U>| #[trigger] f.ensures((x,), y) && (y is Some ==> r.contains(y->Some_0))
}
pub open spec fn mark<T>(x: T) -> bool { true }
/// r is a result of folding f over s from the left
pub open spec fn reduce_rel<T, F: Fn(T, T) -> T>(f: F, s: Seq<T>, r: T) -> bool
    decreases s.len()
{
    if s.len() == 0 { false }
    else if s.len() == 1 { r == s[0] }
    else { exists|acc: T| #[trigger] mark(acc) && reduce_rel(f, s.drop_last(), acc) && f.ensures((acc, s.last()), r) }
}
impl<T> VAdapters<T> for Vec<T> {
    #[verifier::external_body]
    fn vmap<U, F: Fn(T) -> U>(self, f: F) -> (r: Vec<U>) { self.into_iter().map(f).collect() }
    #[verifier::external_body]
    fn vfilter_map<U, F: Fn(T) -> Option<U>>(self, f: F) -> (r: Vec<U>) { self.into_iter().filter_map(f).collect() }
    #[verifier::external_body]
    fn vreduce<F: Fn(T, T) -> T>(self, f: F) -> (r: Option<T>) { self.into_iter().reduce(f) }
    #[verifier::external_body]
    fn vfind_map<U, F: Fn(T) -> Option<U>>(self, f: F) -> (r: Option<U>) { self.into_iter().find_map(f) }
}
/// PROVED (induction): a fold with a function that returns the dt_le-greater of its two arguments yields a member that is
/// above every element
pub broadcast proof fn lemma_reduce_max<F: Fn(chrono::DateTime<chrono::Local>, chrono::DateTime<chrono::Local>) -> chrono::DateTime<chrono::Local>>(f: F, s: Seq<chrono::DateTime<chrono::Local>>, r: chrono::DateTime<chrono::Local>) //@lemma C06
    requires
        #[trigger] reduce_rel(f, s, r),
        forall|a: chrono::DateTime<chrono::Local>, b: chrono::DateTime<chrono::Local>, y: chrono::DateTime<chrono::Local>| #[trigger] f.ensures((a, b), y) ==> (y == a || y == b) && dt_le(a, y) && dt_le(b, y),
    ensures
        s.contains(r),
        forall|i: int| 0 <= i < s.len() ==> dt_le(#[trigger] s[i], r),
    decreases s.len()
{
    broadcast use dt_axioms::ax_dt_total, dt_axioms::ax_dt_trans;
    if s.len() == 0 {
    } else if s.len() == 1 {
        assert(s[0] == r);
    } else {
        let acc = choose|acc: chrono::DateTime<chrono::Local>| #[trigger] mark(acc) && reduce_rel(f, s.drop_last(), acc) && f.ensures((acc, s.last()), r);
        lemma_reduce_max(f, s.drop_last(), acc);
        assert(s.drop_last().contains(acc));
        let k = choose|k: int| 0 <= k < s.drop_last().len() && s.drop_last()[k] == acc;
        assert(s[k] == acc);
        assert(s[s.len() - 1] == s.last());
        assert forall|i: int| 0 <= i < s.len() implies dt_le(#[trigger] s[i], r) by {
            if i < s.len() - 1 {
                assert(s.drop_last()[i] == s[i]);
                assert(dt_le(s[i], acc));
            }
        }
    }
}

pub mod shims {
    use super::*;
    use std::path::PathBuf;
    pub enum InfixFilter { Timstmps, Numbrs, Equls(String), None }
    pub struct InfixFormat { _o: () }
    pub struct FileSpec { pub o_suffix: Option<String> }
    /// permission: which listing may be asked for; oracle: its answer
    pub uninterp spec fn lof_ok(f: InfixFilter, suffix: Option<Seq<char>>) -> bool;
    pub uninterp spec fn family_listing(fs: &FileSpec) -> Seq<PathBuf>;
    pub open spec fn ostr(o: Option<&str>) -> Option<Seq<char>> { match o { Some(s) => Some(s@), None => None } }
    impl FileSpec {
        #[verifier::external_body]
        pub(crate) fn list_of_files(&self, infix_filter: &InfixFilter, o_suffix: Option<&str>) -> (r: Vec<PathBuf>)
            requires
                lof_ok(*infix_filter, ostr(o_suffix)), //@label FileSpec::list_of_files.perm C14,C06
            ensures r@ == family_listing(self),
        { unimplemented!() }
        #[verifier::external_body]
        pub fn get_suffix(&self) -> (r: Option<String>)
            ensures (r is Some) == (self.o_suffix is Some), r is Some ==> r->Some_0@ == self.o_suffix->Some_0@,
        { unimplemented!() }
    }
    pub struct FileLogWriterConfig { pub file_spec: FileSpec }
}
pub mod timestamps {
    use super::*;
    use super::shims::*;
    use chrono::{DateTime, Local};
    use std::path::{Path, PathBuf};
    broadcast use dt_axioms::group_dt, ax_as_deref_string, lemma_reduce_max;

    /// oracles for the two string functions (bounded checks: kani/tsinfix.rs; chrono parsing)
    pub uninterp spec fn infix_of(path: &Path, fs: &FileSpec) -> Seq<char>;
    pub uninterp spec fn ts_of(infix: Seq<char>, fmt: &InfixFormat) -> Option<DateTime<Local>>;
    #[verifier::external_body]
    fn ts_infix_from_path(path: &Path, file_spec: &FileSpec) -> (r: String) ensures r@ == infix_of(path, file_spec) { unimplemented!() }
    #[verifier::external_body]
    pub(crate) fn timestamp_from_ts_infix(infix: &str, fmt: &InfixFormat) -> (r: Result<DateTime<Local>, String>)
        ensures (r is Ok) == (ts_of(infix@, fmt) is Some), r is Ok ==> r->Ok_0 == ts_of(infix@, fmt)->Some_0
    { unimplemented!() }
    pub uninterp spec fn pathbuf_path(p: &PathBuf) -> &Path;
    pub assume_specification[ <std::path::PathBuf as core::ops::Deref>::deref ](p: &std::path::PathBuf) -> (r: &std::path::Path)
        ensures r == pathbuf_path(p);
    /// the time stamp a listed file stands for
    pub open spec fn file_ts(p: PathBuf, fs: &FileSpec, fmt: &InfixFormat) -> Option<DateTime<Local>> { ts_of(infix_of(pathbuf_path(&p), fs), fmt) }

    //@ fn src/writers/file_log_writer/state/timestamps.rs fn latest_timestamp_file
    //@   ret r
    //@   props C06,C14
    //@   rule R16 *
    //@   rule R16b 1
    //@   req[latest.pre.perm] forall|f: InfixFilter, s: Option<Seq<char>>| #[trigger] lof_ok(f, s) <==> (!rotate && f is Numbrs && s == (match config.file_spec.o_suffix { Some(x) => Some(x@), None => None }))
    //@   closure ~ts_infix_from_path(&path ## sig |path: PathBuf| -> (r: String)
    //@   closure ~ts_infix_from_path(&path ## ens r@ == infix_of(pathbuf_path(&path), &config.file_spec)
    //@   closure ~timestamp_from_ts_infix(&infix ## sig |infix: String| -> (r: Option<DateTime<Local>>)
    //@   closure ~timestamp_from_ts_infix(&infix ## ens r == ts_of(infix@, fmt)
    //@   closure ~acc > e ## sig |acc: DateTime<Local>, e: DateTime<Local>| -> (r: DateTime<Local>)
    //@   closure ~acc > e ## ens (r == acc || r == e) && dt_le(acc, r) && dt_le(e, r)
    //@   ens[latest.post.rotate] rotate ==> r == clock_now()
    //@   ens[latest.post.none] !rotate && (forall|i: int| 0 <= i < family_listing(&config.file_spec).len() ==> file_ts(#[trigger] family_listing(&config.file_spec)[i], &config.file_spec, fmt) is None) ==> r == clock_now()
    //@   ens[latest.post.member] !rotate && r != clock_now() ==> exists|i: int| 0 <= i < family_listing(&config.file_spec).len() && file_ts(#[trigger] family_listing(&config.file_spec)[i], &config.file_spec, fmt) == Some(r)
    //@   ens[latest.post.newest] !rotate ==> forall|i: int| 0 <= i < family_listing(&config.file_spec).len() && file_ts(#[trigger] family_listing(&config.file_spec)[i], &config.file_spec, fmt) is Some ==> dt_le(file_ts(family_listing(&config.file_spec)[i], &config.file_spec, fmt)->Some_0, r)
    //@   canary
}
}
fn main() {}

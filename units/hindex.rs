#![feature(pattern)]
#![allow(unused_imports, dead_code, unused_variables, unused_mut, unreachable_code, unused_parens)]
// Unit `hindex` (C06, C01, C10): the body of the loop of numbers::get_highest_index (src/writers/file_log_writer/state/numbers.rs)
// — one step of "the highest index among the listed rotated files": which number is read from a file name, and that the running
// maximum is kept. For every file name (UTF-8 offset model), not a catalogue. The loop body is copied as the body of the wrapper
// `highest_index_step` (`block` span; rule R30 turns its `continue` into `return o_highest_idx`, which is what `continue` means for
// one iteration). Not verified: the `for` statement around it (Verus: "for-loops do not yet support continue"); `lemma_fold_max`
// proves what the fold of the verified steps over any listing yields.
use vstd::prelude::*;
verus! {
//@ include prelude/types.rs
//@ include prelude/strings.rs
//@ include prelude/combinators.rs

#[verifier::external_type_specification]
#[verifier::external_body]
pub struct ExOsStr(std::ffi::OsStr);
pub uninterp spec fn pathbuf_path(p: &std::path::PathBuf) -> &std::path::Path;
pub assume_specification[ <std::path::PathBuf as core::ops::Deref>::deref ](p: &std::path::PathBuf) -> (r: &std::path::Path)
    ensures r == pathbuf_path(p);
pub uninterp spec fn stem_text(p: &std::path::Path) -> Option<Seq<char>>;
pub uninterp spec fn osstr_text(s: &std::ffi::OsStr) -> Seq<char>;
pub uninterp spec fn cow_text(c: std::borrow::Cow<'_, str>) -> Seq<char>;
pub assume_specification[ std::path::Path::file_stem ](p: &std::path::Path) -> (r: Option<&std::ffi::OsStr>)
    ensures (r is Some) == (stem_text(p) is Some), r is Some ==> osstr_text(r->Some_0) == stem_text(p)->Some_0;
pub assume_specification[ std::ffi::OsStr::to_string_lossy ](s: &std::ffi::OsStr) -> (r: std::borrow::Cow<'_, str>)
    ensures cow_text(r) == osstr_text(s);
pub uninterp spec fn cow_deref<'a, 'b, B: ?Sized + ToOwned>(c: &'b std::borrow::Cow<'a, B>) -> &'b B;
pub assume_specification<'a, 'b, B: ?Sized + ToOwned>[ <std::borrow::Cow<'a, B> as core::ops::Deref>::deref ](c: &'b std::borrow::Cow<'a, B>) -> (r: &'b B)
    ensures r == cow_deref(c);
pub broadcast axiom fn ax_cow_deref_str<'a>(c: &std::borrow::Cow<'a, str>)
    ensures (#[trigger] cow_deref::<str>(c))@ == cow_text(*c);

//@ include prelude/utf8.rs

/// does `pat` occur in `s` at position `i`
pub open spec fn occurs_at(s: Seq<char>, pat: Seq<char>, i: int) -> bool {
    0 <= i && i + pat.len() <= s.len() && s.subrange(i, i + pat.len()) == pat
}
/// `r` is what follows the last occurrence of `pat` in `s` — all of `s` if there is none (`s.rsplit(pat).next()`)
pub open spec fn is_after_last(s: Seq<char>, pat: Seq<char>, r: Seq<char>) -> bool {
    if exists|i: int| occurs_at(s, pat, i) {
        exists|i: int| #[trigger] occurs_at(s, pat, i) && r == s.subrange(i + pat.len(), s.len() as int)
            && forall|j: int| #[trigger] occurs_at(s, pat, j) ==> j <= i
    } else { r == s }
}
/// the text `s.rsplit(pat).next()` yields, characterised by `is_after_last`
pub uninterp spec fn after_last(s: Seq<char>, pat: Seq<char>) -> Seq<char>;
pub broadcast axiom fn ax_after_last(s: Seq<char>, pat: Seq<char>)
    requires pat.len() > 0,
    ensures is_after_last(s, pat, #[trigger] after_last(s, pat));
/// oracle: the value of a decimal text as u32 (`str::parse::<u32>`), None if it is not one
pub uninterp spec fn parse_u32(s: Seq<char>) -> Option<u32>;
/// R31 SHIMS: `s.rsplit(p).next()` -> `s.vrsplit_first(p)`; `s.split(c).next()` -> `s.vsplit_first(c)` (both are never None);
/// `&s[1..]` -> `s.vslice_from(1)` (panics unless the offset is a character boundary: the precondition, C10); `x.parse()` for u32
pub trait VSplitFirst: vstd::view::View<V = Seq<char>> {
    fn vrsplit_first(&self, pat: &str) -> (r: Option<&str>)
        requires pat@.len() > 0,
        ensures r is Some, (r->Some_0)@ == after_last(self@, pat@);
    fn vsplit_first(&self, c: char) -> (r: Option<&str>)
        ensures r is Some, (r->Some_0)@ == self@.subrange(0, first_pos(self@, c));
    fn vslice_from(&self, start: usize) -> (r: &str)
        requires
            boundary(self@, start as nat), //@label str_slice.char_boundary C10
        ensures
            forall|k: int| 0 <= k <= self@.len() && #[trigger] offset_of(self@, k) == start ==> r@ == self@.subrange(k, self@.len() as int);
    fn vparse_u32(&self) -> (r: Result<u32, core::num::ParseIntError>)
        ensures (r is Ok) == (parse_u32(self@) is Some), r is Ok ==> r->Ok_0 == parse_u32(self@)->Some_0;
}
#[verifier::external_type_specification]
#[verifier::external_body]
pub struct ExParseIntError(core::num::ParseIntError);
impl VSplitFirst for str {
    #[verifier::external_body]
    fn vrsplit_first(&self, pat: &str) -> (r: Option<&str>) { self.rsplit(pat).next() }
    #[verifier::external_body]
    fn vsplit_first(&self, c: char) -> (r: Option<&str>) { self.split(c).next() }
    #[verifier::external_body]
    fn vslice_from(&self, start: usize) -> (r: &str) { &self[start..] }
    #[verifier::external_body]
    fn vparse_u32(&self) -> (r: Result<u32, core::num::ParseIntError>) { self.parse() }
}
pub uninterp spec fn max_rel<T>(a: T, b: T, r: T) -> bool;
#[verifier::allow(undeclared_external_trait)]
pub assume_specification<T: Ord>[ core::cmp::max ](a: T, b: T) -> (r: T)
    ensures max_rel::<T>(a, b, r);
pub broadcast axiom fn ax_max_u32(a: u32, b: u32, r: u32)
    ensures #[trigger] max_rel::<u32>(a, b, r) ==> r == (if a >= b { a } else { b });

pub mod file_spec {
    use super::*;
    //@ opaque src/parameters/file_spec.rs struct FileSpec
    //@   dropattr #[derive
    impl FileSpec {
        /// the name has a fixed part before the infix (unit `naming` proves what these three say)
        pub uninterp spec fn has_fixed_part(&self) -> bool;
        pub uninterp spec fn hb(&self) -> bool;
        pub uninterp spec fn hd(&self) -> bool;
        pub uninterp spec fn ut(&self) -> bool;
        //@ sig src/parameters/file_spec.rs impl FileSpec / fn has_basename
        //@   ret r
        //@   ens r == self.hb()
        //@ sig src/parameters/file_spec.rs impl FileSpec / fn has_discriminant
        //@   ret r
        //@   ens r == self.hd()
        //@ sig src/parameters/file_spec.rs impl FileSpec / fn uses_timestamp
        //@   ret r
        //@   ens r == self.ut()
    }
}
pub mod numbers {
    use super::*;
    use super::file_spec::FileSpec;
    use std::cmp::max;
    use std::path::PathBuf;
    broadcast use group_pat_seq, ax_cow_deref_str, lemma_first_pos, ax_max_u32;

    /// the infix of a listed file: what follows the last "_r" when the name has a fixed part, else the stem without its first
    /// character (the 'r')
    pub open spec fn infix_of(fs: &FileSpec, stem: Seq<char>) -> Seq<char> {
        if fs.hb() || fs.hd() || fs.ut() { after_last(stem, seq!['_', 'r']) }
        else { stem.subrange(1, stem.len() as int) }
    }
    /// the number a listed file carries: the decimal text before the first '.' of the infix (".log" of a compressed file's stem), 0 if
    /// it is not a number
    pub open spec fn number_of(infix: Seq<char>) -> u32 {
        match parse_u32(infix.subrange(0, first_pos(infix, '.'))) { Some(n) => n, None => 0 }
    }
    pub open spec fn max_opt(prev: Option<u32>, idx: u32) -> Option<u32> {
        match prev { None => Some(idx), Some(p) => Some(if p >= idx { p } else { idx }) }
    }
    /// one iteration of the loop of get_highest_index
    pub(crate) fn highest_index_step(file: PathBuf, file_spec: &FileSpec, o_highest_idx_in: Option<u32>) -> (r: Option<u32>)
        requires
            // the entries come from read_dir: they have a file name (the code says "ok")
            stem_text(pathbuf_path(&file)) is Some,
            // without a fixed name part the listed stems are infixes the Numbrs filter accepted: they start with the ASCII 'r'
            // (filter_files.stem.post with an empty fixed part + filter_infix.post, units `ffilter` and `infix`)
            !(file_spec.hb() || file_spec.hd() || file_spec.ut()) ==> stem_text(pathbuf_path(&file))->Some_0.len() >= 1 && stem_text(pathbuf_path(&file))->Some_0[0] == 'r',
        ensures
            r == max_opt(o_highest_idx_in, number_of(infix_of(file_spec, stem_text(pathbuf_path(&file))->Some_0))), //@label get_highest_index.step.post C06,C01
    {
        let mut o_highest_idx = o_highest_idx_in;
        proof { lemma_offset_one(stem_text(pathbuf_path(&file))->Some_0); reveal_strlit("_r"); assert("_r"@ =~= seq!['_', 'r']); }
    //@ span src/writers/file_log_writer/state/numbers.rs fn get_highest_index
    //@   block list_of_log_and_compressed_files(file_spec, &InfixFilter::Numbrs)
    //@   rename highest_index_step
    //@   rule R30 *
    //@   rule R31 *
        o_highest_idx
    }

    /// the first character of a stem that starts with 'r' is one byte wide: offset 1 is the boundary after it
    pub proof fn lemma_offset_one(s: Seq<char>)
        ensures s.len() >= 1 && s[0] == 'r' ==> offset_of(s, 1) == 1 && boundary(s, 1),
    {
        broadcast use ax_byte_len_empty, ax_byte_len_step, ax_utf8_width;
        if s.len() >= 1 && s[0] == 'r' {
            lemma_offset_step(s, 0);
            assert(s.subrange(0, 0).len() == 0);
        }
    }

    /// a member of the family `pre + "_r" + rest` whose `rest` (digits, optionally ".suffix" of a compressed file) holds no further "_r":
    /// the infix read is `rest`, whatever the fixed part `pre` contains (a basename with "_r" in it included)
    pub proof fn lemma_member_infix(pre: Seq<char>, rest: Seq<char>, pat: Seq<char>)
        requires pat == seq!['_', 'r'], forall|j: int| #[trigger] occurs_at(pre + pat + rest, pat, j) ==> j <= pre.len(),
        ensures after_last(pre + pat + rest, pat) == rest,
    {
        let s = pre + pat + rest;
        ax_after_last(s, pat);
        assert(s.subrange(pre.len() as int, pre.len() as int + 2) =~= pat);
        assert(occurs_at(s, pat, pre.len() as int));
        let i = choose|i: int| #[trigger] occurs_at(s, pat, i) && after_last(s, pat) == s.subrange(i + pat.len(), s.len() as int) && forall|j: int| #[trigger] occurs_at(s, pat, j) ==> j <= i;
        assert(i == pre.len());
        assert(s.subrange(pre.len() as int + 2, s.len() as int) =~= rest);
    }

    /// the fold of the steps over a listing: None for the empty listing, else the greatest number of a listed file
    pub open spec fn fold_max(nums: Seq<u32>) -> Option<u32>
        decreases nums.len()
    {
        if nums.len() == 0 { None } else { max_opt(fold_max(nums.drop_last()), nums.last()) }
    }
    pub proof fn lemma_fold_max(nums: Seq<u32>)
        ensures
            nums.len() == 0 <==> fold_max(nums) is None,
            nums.len() > 0 ==> (forall|i: int| 0 <= i < nums.len() ==> nums[i] <= fold_max(nums)->Some_0)
                && exists|i: int| 0 <= i < nums.len() && nums[i] == fold_max(nums)->Some_0,
        decreases nums.len()
    {
        if nums.len() > 0 {
            let init = nums.drop_last();
            lemma_fold_max(init);
            if init.len() == 0 {
                assert(nums[0] == nums.last());
            } else {
                let w = choose|i: int| 0 <= i < init.len() && init[i] == fold_max(init)->Some_0;
                assert(nums[w] == init[w]);
                assert forall|i: int| 0 <= i < nums.len() implies nums[i] <= fold_max(nums)->Some_0 by {
                    if i < init.len() { assert(nums[i] == init[i]); }
                }
                if fold_max(init)->Some_0 >= nums.last() { assert(nums[w] == fold_max(nums)->Some_0); }
                else { assert(nums[nums.len() - 1] == fold_max(nums)->Some_0); }
            }
        }
    }
}
}
fn main() {}

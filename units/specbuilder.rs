#![feature(pattern)]
#![feature(allocator_api)]
#![allow(unused_imports, dead_code, unused_variables, unused_mut, unreachable_code, unused_parens)]
// Unit `specbuilder` (C02): LogSpecBuilder (src/log_specification.rs) — a specification built programmatically contains
// exactly the entries put into the builder (one list entry per map entry, none dropped, none invented), sorted.
// `into_vec_module_filter` iterates over a HashMap: rule R20 (eager iterator shims of prelude/viter.rs).
use vstd::prelude::*;
verus! {
//@ include prelude/types.rs
//@ include prelude/logcrate.rs
//@ include prelude/combinators.rs
//@ include prelude/viter.rs

#[verifier::external_type_specification]
#[verifier::external_body]
pub struct ExRegex(regex::Regex);

pub assume_specification[ <log::LevelFilter as Clone>::clone ](l: &log::LevelFilter) -> (r: log::LevelFilter)
    ensures r == *l;
/// R22m SHIM for `module_name.as_ref()` (M: AsRef<str>) followed by `.to_owned()`
pub uninterp spec fn as_ref_text<S>(s: &S) -> Seq<char>;
#[verifier::external_body]
pub fn vas_ref_owned<S: AsRef<str>>(s: &S) -> (r: String)
    ensures r@ == as_ref_text::<S>(s)
{ s.as_ref().to_owned() }
pub mod key_axioms {
    use super::*;
    use vstd::std_specs::hash::*;
    /// Option<String> keys: Eq / Hash agree with equality of the values
    pub broadcast axiom fn ax_opt_string_obeys_key_model()
        ensures #[trigger] obeys_key_model::<Option<String>>();
}

pub mod log_specification {
    use super::*;
    use super::level_axioms::*;
    use log::LevelFilter;
    use regex::Regex;
    use std::collections::HashMap;
    broadcast use group_level_axioms, key_axioms::ax_opt_string_obeys_key_model, vstd::std_specs::hash::group_hash_axioms, ax_map_entries;

    //@ item src/log_specification.rs struct LogSpecification
    //@   dropattr #[derive
    //@ item src/log_specification.rs struct ModuleFilter
    //@   dropattr #[derive
    //@ item src/log_specification.rs struct LogSpecBuilder
    //@   dropattr #[derive

    /// the list invariant (unit `spec`: level_sort.post.sorted); here an opaque predicate
    pub uninterp spec fn sorted_desc_len(mfs: Seq<ModuleFilter>) -> bool;
    /// SHIM for level_sort (proved in unit `spec`: sorted, a permutation — same length, same members)
    pub trait LevelSort: Sized + vstd::view::View<V = Seq<ModuleFilter>> {
        fn level_sort(self) -> (r: Vec<ModuleFilter>)
            ensures sorted_desc_len(r@), r@.len() == self@.len(),
                forall|i: int| 0 <= i < r@.len() ==> self@.contains(#[trigger] r@[i]),
                forall|i: int| 0 <= i < self@.len() ==> r@.contains(#[trigger] self@[i]);
    }
    impl LevelSort for Vec<ModuleFilter> {
        #[verifier::external_body]
        fn level_sort(self) -> (r: Vec<ModuleFilter>) { unimplemented!() }
    }

    /// C02: the list holds exactly the entries of the map, each once (`map_entries(m)`: the map's entries, every key once —
    /// axiom ax_map_entries)
    pub open spec fn entries_match(m: Map<Option<String>, LevelFilter>, l: Seq<ModuleFilter>) -> bool {
        &&& l.len() == m.dom().len()
        &&& forall|i: int| 0 <= i < map_entries(m).len() ==> l.contains(ModuleFilter { module_name: (#[trigger] map_entries(m)[i]).0, level_filter: map_entries(m)[i].1 })
        &&& forall|i: int| 0 <= i < l.len() ==> m.contains_pair((#[trigger] l[i]).module_name, l[i].level_filter)
    }
    // R9: `impl IntoVecModuleFilter for HashMap<..>` emitted as the method of this local trait
    pub trait IntoVecModuleFilter: Sized + vstd::view::View<V = Map<Option<String>, LevelFilter>> {
        fn into_vec_module_filter(self) -> (r: Vec<ModuleFilter>)
            requires self@.dom().finite(),
            ensures
                sorted_desc_len(r@), //@label into_vec_module_filter.post.sorted C02
                entries_match(self@, r@), //@label into_vec_module_filter.post.entries C02
        ;
    }
    impl IntoVecModuleFilter for HashMap<Option<String>, LevelFilter> {
    //@ fn src/log_specification.rs impl IntoVecModuleFilter for HashMap<Option<String>, LevelFilter> / fn into_vec_module_filter
    //@   props C02
    //@   rule R20 1
    //@   rule R3b *
    //@   closure ~module_name: k ## sig |kv: (Option<String>, LevelFilter)| -> (r: ModuleFilter)
    //@   closure ~module_name: k ## ens r == (ModuleFilter { module_name: kv.0, level_filter: kv.1 })
    //@   closure ~module_name: k ## let let (k, v) = kv;
    }
    impl LogSpecification {
        pub closed spec fn mfs(&self) -> Seq<ModuleFilter> { self.module_filters@ }
        pub closed spec fn tf(&self) -> Option<Box<Regex>> { self.textfilter }
    //@ fn src/log_specification.rs impl LogSpecification / fn builder
    //@   ret r
    //@   props C02
    //@   ens[LogSpecification::builder.post] r.map() == Map::<Option<String>, LevelFilter>::empty().insert(None, LevelFilter::Off)
    }
    impl LogSpecBuilder {
        pub closed spec fn map(&self) -> Map<Option<String>, LevelFilter> { self.module_filters@ }
    //@ fn src/log_specification.rs impl LogSpecBuilder / fn new
    //@   ret r
    //@   props C02
    //@   ens[LogSpecBuilder::new.post] r.map() == Map::<Option<String>, LevelFilter>::empty().insert(None, LevelFilter::Off)
    //@ fn src/log_specification.rs impl LogSpecBuilder / fn default
    //@   ret r
    //@   props C02
    //@   ens[LogSpecBuilder::default.post] r.map() == old(self).map().insert(None, lf)
    //@ fn src/log_specification.rs impl LogSpecBuilder / fn from_module_filters
    //@   ret r
    //@   props C02
    //@   loop 1 iter it
    //@   loop 1 inv[from_module_filters.loop] forall|k: Option<String>| modfilmap@.dom().contains(k) <==> (exists|j: int| 0 <= j < it.index@ && (#[trigger] it.seq()[j]).module_name == k)
    //@   loop 1 inv[from_module_filters.loop.seq] it.seq().len() == module_filters@.len() && (forall|j: int| #![trigger it.seq()[j]] #![trigger module_filters@[j]] 0 <= j < it.seq().len() ==> *it.seq()[j] == module_filters@[j])
    //@   ens[LogSpecBuilder::from_module_filters.post.keys] forall|k: Option<String>| r.map().dom().contains(k) <==> (exists|j: int| 0 <= j < module_filters@.len() && (#[trigger] module_filters@[j]).module_name == k)
    //@ fn src/log_specification.rs impl LogSpecBuilder / fn module
    //@   ret r
    //@   props C02
    //@   rule R22m *
    //@   ens[LogSpecBuilder::module.post] exists|name: String| name@ == as_ref_text::<M>(&module_name) && r.map() == old(self).map().insert(Some(name), lf)
    //@ fn src/log_specification.rs impl LogSpecBuilder / fn remove
    //@   ret r
    //@   props C02
    //@   rule R22m *
    //@   ens[LogSpecBuilder::remove.post] exists|name: String| name@ == as_ref_text::<M>(&module_name) && r.map() == old(self).map().remove(Some(name))
    //@ fn src/log_specification.rs impl LogSpecBuilder / fn insert_modules_from
    //@   ret r
    //@   props C02
    //@   loop 1 iter it
    //@   loop 1 inv[insert_modules_from.loop] forall|k: Option<String>| self.map().dom().contains(k) <==> (old(self).map().dom().contains(k) || exists|j: int| 0 <= j < it.index@ && (#[trigger] it.seq()[j]).module_name == k)
    //@   ens[LogSpecBuilder::insert_modules_from.post.keys] forall|k: Option<String>| r.map().dom().contains(k) <==> (old(self).map().dom().contains(k) || exists|j: int| 0 <= j < other.mfs().len() && (#[trigger] other.mfs()[j]).module_name == k)
    //@ fn src/log_specification.rs impl LogSpecBuilder / fn finalize_with_textfilter
    //@   ret r
    //@   props C02
    //@   req[finalize_tf.pre.finite] self.map().dom().finite()
    //@   ens[LogSpecBuilder::finalize_with_textfilter.post] sorted_desc_len(r.mfs()) && entries_match(self.map(), r.mfs()) && r.tf() is Some && *r.tf()->Some_0 == tf
    //@ fn src/log_specification.rs impl LogSpecBuilder / fn finalize
    //@   ret r
    //@   props C02
    //@   req[finalize.pre.finite] self.map().dom().finite()
    //@   ens[LogSpecBuilder::finalize.post] sorted_desc_len(r.mfs()) && entries_match(self.map(), r.mfs()) && r.tf() is None
    //@ fn src/log_specification.rs impl LogSpecBuilder / fn build
    //@   ret r
    //@   props C02
    //@   req[build.pre.finite] self.map().dom().finite()
    //@   ens[LogSpecBuilder::build.post] sorted_desc_len(r.mfs()) && entries_match(self.map(), r.mfs()) && r.tf() is None
    //@ fn src/log_specification.rs impl LogSpecBuilder / fn build_with_textfilter
    //@   ret r
    //@   props C02
    //@   req[build_with_textfilter.pre.finite] self.map().dom().finite()
    //@   ens[LogSpecBuilder::build_with_textfilter.post] sorted_desc_len(r.mfs()) && entries_match(self.map(), r.mfs()) && (tf is None <==> r.tf() is None) && (tf is Some ==> *r.tf()->Some_0 == tf->Some_0)
    }
}
}
fn main() {}

#![allow(unused_imports, dead_code, unused_variables, unused_mut, unreachable_code, unused_parens)]
// Unit `symlink` (C16, C14, C19, C10): platform::{create_symlink_if_possible, unix_create_symlink}
// (src/writers/file_log_writer/state.rs) — "a configured symlink always resolves to the file currently written to":
// whatever is found AT the link path (a link to a file that no longer exists included) is removed before the new link
// is made; the new link is made for exactly (log file, link), on every path; nothing else is removed.
use vstd::prelude::*;
verus! {
//@ include prelude/types.rs
#[verifier::external_type_specification]
#[verifier::external_body]
pub struct ExMetadata(std::fs::Metadata);
pub uninterp spec fn aspath<P>(p: P) -> Seq<char>;
pub broadcast axiom fn ax_aspath_ref_path(p: &std::path::Path)
    ensures #[trigger] aspath::<&std::path::Path>(p) == path_view(p);
pub uninterp spec fn path_view(p: &std::path::Path) -> Seq<char>;

/// oracle: is there a directory entry AT the path itself (`lstat`: a dangling symlink counts)
pub uninterp spec fn fs_lstat_result(p: Seq<char>) -> Result<std::fs::Metadata, std::io::Error>;
/// oracle: does the path resolve to something (`stat`, follows symlinks: false for a dangling link) — a different question
pub uninterp spec fn fs_exists(p: Seq<char>) -> bool;
pub uninterp spec fn fs_metadata_result(p: Seq<char>) -> Result<std::fs::Metadata, std::io::Error>;
/// TRUSTED: what resolves exists as an entry (not the other way round)
pub broadcast axiom fn ax_exists_lstat(p: Seq<char>)
    ensures #[trigger] fs_exists(p) ==> fs_lstat_result(p) is Ok;
pub broadcast axiom fn ax_metadata_lstat(p: Seq<char>)
    ensures #[trigger] fs_metadata_result(p) is Ok ==> fs_lstat_result(p) is Ok;
pub uninterp spec fn fs_remove_result(p: Seq<char>) -> Result<(), std::io::Error>;
pub uninterp spec fn fs_symlink_result(target: Seq<char>, link: Seq<char>) -> Result<(), std::io::Error>;
/// permissions of the function under contract
pub uninterp spec fn remove_ok(p: Seq<char>) -> bool;
pub uninterp spec fn symlink_ok(target: Seq<char>, link: Seq<char>) -> bool;
/// token facts: only the call's `ensures` establishes them ("was attempted")
pub uninterp spec fn remove_called(p: Seq<char>) -> bool;
pub uninterp spec fn symlink_called(target: Seq<char>, link: Seq<char>) -> bool;

#[verifier::allow(undeclared_external_trait)]
pub assume_specification<P: AsRef<std::path::Path>>[ std::fs::symlink_metadata ](p: P) -> (r: Result<std::fs::Metadata, std::io::Error>)
    ensures r == fs_lstat_result(aspath::<P>(p));
#[verifier::allow(undeclared_external_trait)]
pub assume_specification<P: AsRef<std::path::Path>>[ std::fs::metadata ](p: P) -> (r: Result<std::fs::Metadata, std::io::Error>)
    ensures r == fs_metadata_result(aspath::<P>(p));
pub assume_specification[ std::path::Path::exists ](p: &std::path::Path) -> (r: bool)
    ensures r == fs_exists(path_view(p));
pub uninterp spec fn fs_is_symlink(p: Seq<char>) -> bool;
/// TRUSTED: a symlink is an entry; an entry that is not a symlink resolves to itself
pub broadcast axiom fn ax_is_symlink(p: Seq<char>)
    ensures (#[trigger] fs_is_symlink(p) ==> fs_lstat_result(p) is Ok), (fs_lstat_result(p) is Ok && !fs_is_symlink(p)) ==> fs_exists(p);
pub assume_specification[ std::path::Path::is_symlink ](p: &std::path::Path) -> (r: bool)
    ensures r == fs_is_symlink(path_view(p));
#[verifier::allow(undeclared_external_trait)]
pub assume_specification<P: AsRef<std::path::Path>>[ std::fs::remove_file ](p: P) -> (r: Result<(), std::io::Error>)
    requires
        remove_ok(aspath::<P>(p)), //@label fs::remove_file.perm C14,C16
    ensures r == fs_remove_result(aspath::<P>(p)), remove_called(aspath::<P>(p));
#[verifier::allow(undeclared_external_trait)]
pub assume_specification<P: AsRef<std::path::Path>, Q: AsRef<std::path::Path>>[ std::os::unix::fs::symlink ](original: P, link: Q) -> (r: Result<(), std::io::Error>)
    requires
        symlink_ok(aspath::<P>(original), aspath::<Q>(link)), //@label unix::fs::symlink.perm C16
        // the place of the link has been cleared before (an entry that is still there makes the call fail with EEXIST)
        fs_lstat_result(aspath::<Q>(link)) is Ok ==> remove_called(aspath::<Q>(link)), //@label unix::fs::symlink.pre.old_entry_removed_first C16
    ensures r == fs_symlink_result(aspath::<P>(original), aspath::<Q>(link)), symlink_called(aspath::<P>(original), aspath::<Q>(link));

pub mod util {
    use super::*;
    //@ item src/util.rs enum ErrorCode
    pub uninterp spec fn reportable(code: ErrorCode) -> bool;
    #[verifier::external_body]
    pub(crate) fn eprint_err(error_code: ErrorCode, msg: &str, err: &std::io::Error)
        requires
            reportable(error_code), //@label eprint_err.perm.reportable C19
    { unimplemented!() }
}

pub mod platform {
    use super::*;
    use super::util::{eprint_err, ErrorCode};
    use std::path::Path;
    broadcast use ax_aspath_ref_path, ax_exists_lstat, ax_metadata_lstat, ax_is_symlink;

    //@ fn src/writers/file_log_writer/state.rs mod platform / fn unix_create_symlink
    //@   props C16
    //@   req[unix_create_symlink.pre.remove] forall|p: Seq<char>| #[trigger] remove_ok(p) <==> (p == path_view(link) && fs_lstat_result(path_view(link)) is Ok)
    //@   req[unix_create_symlink.pre.symlink] forall|t: Seq<char>, l: Seq<char>| #[trigger] symlink_ok(t, l) <==> (t == path_view(logfile) && l == path_view(link))
    //@   req[unix_create_symlink.pre.report] forall|c: ErrorCode| #[trigger] super::util::reportable(c) <==> c is Symlink
    //@   ens[unix_create_symlink.post.old_entry_removed] fs_lstat_result(path_view(link)) is Ok ==> remove_called(path_view(link))
    //@   ens[unix_create_symlink.post.linked] symlink_called(path_view(logfile), path_view(link))
    //@   canary

    //@ fn src/writers/file_log_writer/state.rs mod platform / fn create_symlink_if_possible
    //@   props C16
    //@   req[create_symlink.pre.remove] forall|p: Seq<char>| #[trigger] remove_ok(p) <==> (p == path_view(link) && fs_lstat_result(path_view(link)) is Ok)
    //@   req[create_symlink.pre.symlink] forall|t: Seq<char>, l: Seq<char>| #[trigger] symlink_ok(t, l) <==> (t == path_view(path) && l == path_view(link))
    //@   req[create_symlink.pre.report] forall|c: ErrorCode| #[trigger] super::util::reportable(c) <==> c is Symlink
    //@   ens[create_symlink.post.old_entry_removed] fs_lstat_result(path_view(link)) is Ok ==> remove_called(path_view(link))
    //@   ens[create_symlink.post.linked] symlink_called(path_view(path), path_view(link))
    //@   canary
}
}
fn main() {}

#![feature(pattern)]
#![allow(unused_imports, dead_code, unused_variables, unused_mut, unreachable_code, unused_parens)]
// Unit `specparse` (C17, C10, C05): LogSpecification::parse (src/log_specification.rs) and its helpers — "parsing never panics; it
// returns an error exactly when some part of the input is malformed, and the specification attached to the error contains exactly
// the well-formed module and level parts (none at all if the overall structure is malformed)".
// `parse` itself cannot be given to Verus (a `for` loop with `continue`, a closure that captures `&mut parse_errs`); its text is
// verified in four pieces that are copied on every run: the head (split at '/', too many '/'), the body of the loop over the
// comma-separated parts (wrapper `parse_part`: one part), the error arm of the regex closure, and the tail (sort, Ok / Err).
// Not verified: the `for` statement and the `filter.and_then(|filter| match Regex::new(filter) {..})` scaffolding between them;
// `lemma_parts` proves by induction what the fold of the verified steps over any list of parts yields. Text operations (`split`,
// `trim`, `to_lowercase`, `char::is_whitespace`, `format!`) are oracles: the round trip through Display is NOT decided here.
use vstd::prelude::*;
verus! {
//@ include prelude/types.rs
//@ include prelude/strings.rs
//@ include prelude/combinators.rs
//@ include prelude/logcrate.rs

#[verifier::external_type_specification]
#[verifier::external_body]
pub struct ExRegex(regex::Regex);
#[verifier::external_type_specification]
#[verifier::external_body]
pub struct ExRegexError(regex::Error);
/// oracle: the outcome of compiling a regular expression (regex crate)
pub uninterp spec fn regex_new_result(text: Seq<char>) -> Result<regex::Regex, regex::Error>;
pub assume_specification[ regex::Regex::new ](re: &str) -> (r: Result<regex::Regex, regex::Error>)
    ensures r == regex_new_result(re@);

/// TRUSTED: a `str` is determined by its characters (string-literal patterns compare texts)
pub broadcast axiom fn ax_str_eq(a: &str, b: &str)
    ensures #![trigger a@, b@] (a == b) <==> (a@ == b@);
pub broadcast axiom fn ax_empty_str(s: &str)
    ensures #![trigger s@] (s@.len() == 0) <==> s == "";
/// oracles for text operations of std
pub uninterp spec fn trim_spec(s: Seq<char>) -> Seq<char>;
pub uninterp spec fn lower_spec(s: Seq<char>) -> Seq<char>;
pub uninterp spec fn is_ws(c: char) -> bool;
pub open spec fn has_ws(s: Seq<char>) -> bool { exists|i: int| 0 <= i < s.len() && is_ws(#[trigger] s[i]) }
/// TRUSTED: trimming twice is trimming once
pub broadcast axiom fn ax_trim_idem(s: Seq<char>)
    ensures #[trigger] trim_spec(trim_spec(s)) == trim_spec(s);
pub assume_specification[ str::trim ](s: &str) -> (r: &str)
    ensures r@ == trim_spec(s@);
pub assume_specification[ str::to_lowercase ](s: &str) -> (r: String)
    ensures r@ == lower_spec(s@);
pub assume_specification[ <String as AsRef<str>>::as_ref ](s: &String) -> (r: &str)
    ensures r@ == s@;
pub assume_specification[ log::LevelFilter::max ]() -> (r: log::LevelFilter)
    ensures r == log::LevelFilter::Trace;
/// R33 SHIM for `s.chars().any(char::is_whitespace)`
pub trait VAnyWs { fn vany_whitespace(&self) -> bool; }
impl VAnyWs for str {
    #[verifier::external_body]
    fn vany_whitespace(&self) -> (r: bool)
        ensures r == has_ws(self@)
    { self.chars().any(char::is_whitespace) }
}
/// R34 SHIM for `o.map(str::trim)` on `Option<&str>`
pub trait VMapTrim<'a> { fn vmap_trim(self) -> Option<&'a str>; }
impl<'a> VMapTrim<'a> for Option<&'a str> {
    #[verifier::external_body]
    fn vmap_trim(self) -> (r: Option<&'a str>)
        ensures (r is Some) == (self is Some), r is Some ==> (r->Some_0)@ == trim_spec((self->Some_0)@)
    { self.map(str::trim) }
}
pub trait VMapToString { fn vmap_to_string(self) -> Option<String>; }
impl<'a> VMapToString for Option<&'a str> {
    #[verifier::external_body]
    fn vmap_to_string(self) -> (r: Option<String>)
        ensures (r is Some) == (self is Some), r is Some ==> (r->Some_0)@ == (self->Some_0)@
    { self.map(ToString::to_string) }
}
/// `str::to_string()` copies the text
pub broadcast axiom fn ax_str_to_string(s: &str, r: String)
    ensures #[trigger] vstd::string::to_string_from_display_ensures::<str>(s, r) ==> r@ == s@;
/// R22g SHIM for `x.as_ref()` with `x: S`, `S: AsRef<str>`: the text is an oracle of the value
pub uninterp spec fn as_ref_text<S>(s: &S) -> Seq<char>;
pub broadcast axiom fn ax_as_ref_text_str(s: &&str)
    ensures #[trigger] as_ref_text::<&str>(s) == (*s)@;
#[verifier::external_body]
pub fn vas_ref<S: AsRef<str>>(s: &S) -> (r: &str)
    ensures r@ == as_ref_text::<S>(s)
{ s.as_ref() }
/// R32 SHIM for `format!("<text with at least one literal character>..", ..)`: some non-empty text (the extractor checks the literal)
#[verifier::external_body]
pub fn vfmt_nonempty() -> (r: String)
    ensures r@.len() > 0
{ String::new() }
macro_rules! vformat {
    ($($t:tt)*) => { vfmt_nonempty() };
}
/// `Iterator::next` of `str::split`: the next piece of the split oracle
#[verifier::allow(undeclared_external_trait)]
pub assume_specification<'a, P: core::str::pattern::Pattern>[ <core::str::Split<'a, P> as Iterator>::next ](it: &mut core::str::Split<'a, P>) -> (r: Option<&'a str>)
    ensures
        split_view(old(it)).len() == 0 ==> r is None && split_view(final(it)) == split_view(old(it)),
        split_view(old(it)).len() > 0 ==> r is Some && (r->Some_0)@ == split_view(old(it))[0] && split_view(final(it)) == split_view(old(it)).subrange(1, split_view(old(it)).len() as int);
/// TRUSTED: `split` yields at least one piece
pub broadcast axiom fn ax_split_nonempty(s: Seq<char>, sep: Seq<char>)
    ensures (#[trigger] split_seq(s, sep)).len() >= 1;

/// R40 SHIM for `std::fmt::Formatter`: the text written so far; `write!(f, ..)` of the three shapes used by Display for
/// LogSpecification become `f.vwrite(..)` / `f.vwrite3(..)` (core::fmt is outside the verifier). A write may fail.
pub struct VFormatter { pub out: Vec<char> }
impl VFormatter {
    pub open spec fn text(&self) -> Seq<char> { self.out@ }
    #[verifier::external_body]
    pub fn vwrite(&mut self, s: &str) -> (r: std::fmt::Result)
        ensures r is Ok ==> final(self).text() == old(self).text() + s@,
    { unimplemented!() }
    #[verifier::external_body]
    pub fn vwrite3(&mut self, a: &str, b: &str, c: &str) -> (r: std::fmt::Result)
        ensures r is Ok ==> final(self).text() == old(self).text() + a@ + b@ + c@,
    { unimplemented!() }
}
/// oracle: the Display text of a level filter (log crate)
pub uninterp spec fn level_text(l: log::LevelFilter) -> Seq<char>;
pub broadcast axiom fn ax_level_to_string(l: &log::LevelFilter, r: String)
    ensures #[trigger] vstd::string::to_string_from_display_ensures::<log::LevelFilter>(l, r) ==> r@ == level_text(*l);
pub assume_specification<T>[ <T as From<T>>::from ](e: T) -> (r: T)
    ensures r == e;

pub mod flexi_error {
    use super::*;
    use super::log_specification::LogSpecification;
    /// SHIM: the two variants the parser produces (+ the rest)
    pub enum FlexiLoggerError { LevelFilter(String), Parse(String, LogSpecification), Other }
    /// TRUSTED: the Display texts of the error type (thiserror `#[error("..")]` attributes) are not empty
    pub broadcast axiom fn ax_error_text_nonempty(e: &FlexiLoggerError, r: String)
        ensures #[trigger] vstd::string::to_string_from_display_ensures::<FlexiLoggerError>(e, r) ==> r@.len() > 0;
}

pub mod log_specification {
    use super::*;
    use super::flexi_error::FlexiLoggerError;
    use log::LevelFilter;
    use regex::Regex;
    broadcast use group_pat_seq, ax_str_eq, ax_empty_str, ax_level_to_string, ax_as_ref_text_str, ax_trim_idem, ax_split_nonempty, ax_str_to_string, super::flexi_error::ax_error_text_nonempty;

    //@ item src/log_specification.rs struct LogSpecification
    //@   dropattr #[derive
    //@ item src/log_specification.rs struct ModuleFilter
    //@   dropattr #[derive

    /// SHIM for level_sort (proved in unit `spec`: a permutation of the list, sorted by descending name length)
    pub uninterp spec fn sorted_desc_len(mfs: Seq<ModuleFilter>) -> bool;
    pub trait LevelSort: Sized + vstd::view::View<V = Seq<ModuleFilter>> {
        fn level_sort(self) -> (r: Vec<ModuleFilter>)
            ensures sorted_desc_len(r@), r@.len() == self@.len(),
                forall|i: int| 0 <= i < r@.len() ==> self@.contains(#[trigger] r@[i]),
                forall|i: int| 0 <= i < self@.len() ==> r@.contains(#[trigger] self@[i]);
    }
    impl LevelSort for Vec<ModuleFilter> {
        #[verifier::external_body]
        fn level_sort(self) -> (r: Vec<ModuleFilter>) { unimplemented!() }
    }
    /// a permutation (same members, same length) of the collected entries, sorted
    pub open spec fn sorted_perm_of(dirs: Seq<ModuleFilter>, l: Seq<ModuleFilter>) -> bool {
        sorted_desc_len(l) && l.len() == dirs.len()
        && (forall|i: int| 0 <= i < l.len() ==> dirs.contains(#[trigger] l[i]))
        && (forall|i: int| 0 <= i < dirs.len() ==> l.contains(#[trigger] dirs[i]))
    }

    /// SHIM for `#[derive(Default)]` (A14): every field's default
    impl Default for LogSpecification {
        fn default() -> (r: Self)
            ensures r.is_off()
        { Self { module_filters: Vec::new(), textfilter: None } }
    }

    // ---------------------------------------------------------------------------------------------------------------
    // the grammar of one part, from the documentation: `<level>` | `<module>` | `<module>=` | `<module>=<level>`
    // ---------------------------------------------------------------------------------------------------------------
    /// the level a word denotes (case-insensitive), if any
    pub open spec fn level_word(t: Seq<char>) -> Option<LevelFilter> {
        let l = lower_spec(t);
        if l == "off"@ { Some(LevelFilter::Off) } else if l == "error"@ { Some(LevelFilter::Error) } else if l == "warn"@ { Some(LevelFilter::Warn) }
        else if l == "info"@ { Some(LevelFilter::Info) } else if l == "debug"@ { Some(LevelFilter::Debug) } else if l == "trace"@ { Some(LevelFilter::Trace) }
        else { None }
    }
    pub ghost struct Entry { pub name: Option<Seq<char>>, pub level: LevelFilter }
    /// what a (trimmed, non-empty) part means: Some(entry) if it is well-formed, None if it is malformed
    pub open spec fn part_entry(t: Seq<char>) -> Option<Entry> {
        let pieces = split_seq(t, seq!['=']);
        let p0 = trim_spec(pieces[0]);
        if pieces.len() == 1 {
            if has_ws(p0) { None }
            else { match level_word(p0) { Some(l) => Some(Entry { name: None, level: l }), None => Some(Entry { name: Some(p0), level: LevelFilter::Trace }) } }
        } else if pieces.len() == 2 {
            let p1 = trim_spec(pieces[1]);
            if has_ws(p0) { None }
            else if p1.len() == 0 { Some(Entry { name: Some(p0), level: LevelFilter::Trace }) }
            else { match level_word(p1) { Some(l) => Some(Entry { name: Some(p0), level: l }), None => None } }
        } else { None }
    }
    pub open spec fn mf_entry(mf: ModuleFilter) -> Entry {
        Entry { name: match mf.module_name { Some(n) => Some(n@), None => None }, level: mf.level_filter }
    }

    impl LogSpecification {
        pub closed spec fn filters(&self) -> Seq<ModuleFilter> { self.module_filters@ }
        pub closed spec fn has_textfilter(&self) -> bool { self.textfilter is Some }
        pub open spec fn is_off(&self) -> bool {
            // `off()` is the derived default: no filter entries at all (every target is off) and no text filter
            self.filters().len() == 0 && !self.has_textfilter()
        }
    //@ fn src/log_specification.rs impl LogSpecification / fn new_with
    //@   ret r
    //@   props C17
    //@   ens[new_with.post] r.filters().len() == 1 && mf_entry(r.filters()[0]) == (Entry { name: None, level: level_filter }) && !r.has_textfilter()
    //@ fn src/log_specification.rs impl LogSpecification / fn error
    //@   ret r
    //@   ens[LogSpecification::error.post] r.filters().len() == 1 && mf_entry(r.filters()[0]) == (Entry { name: None, level: LevelFilter::Error })
    //@ fn src/log_specification.rs impl LogSpecification / fn warn
    //@   ret r
    //@   ens[LogSpecification::warn.post] r.filters().len() == 1 && mf_entry(r.filters()[0]) == (Entry { name: None, level: LevelFilter::Warn })
    //@ fn src/log_specification.rs impl LogSpecification / fn info
    //@   ret r
    //@   ens[LogSpecification::info.post] r.filters().len() == 1 && mf_entry(r.filters()[0]) == (Entry { name: None, level: LevelFilter::Info })
    //@ fn src/log_specification.rs impl LogSpecification / fn debug
    //@   ret r
    //@   ens[LogSpecification::debug.post] r.filters().len() == 1 && mf_entry(r.filters()[0]) == (Entry { name: None, level: LevelFilter::Debug })
    //@ fn src/log_specification.rs impl LogSpecification / fn trace
    //@   ret r
    //@   ens[LogSpecification::trace.post] r.filters().len() == 1 && mf_entry(r.filters()[0]) == (Entry { name: None, level: LevelFilter::Trace })
    //@ fn src/log_specification.rs impl LogSpecification / fn off
    //@   ret r
    //@   props C17
    //@   ens[off.post] r.is_off()

        /// head of `parse`: the text is split at '/'; more than two pieces: the overall structure is malformed, nothing is kept
        pub(crate) fn parse_head<S: AsRef<str>>(spec: S) -> (r: Result<Self, FlexiLoggerError>)
            ensures
                r is Err <==> split_seq(as_ref_text::<S>(&spec), seq!['/']).len() > 2, //@label parse.head.err_iff_too_many_slashes C17
                r is Err ==> r->Err_0 is Parse && (r->Err_0->Parse_0)@.len() > 0 && (r->Err_0->Parse_1).is_off(), //@label parse.head.err_keeps_nothing C17
        {
            let ghost pieces = split_seq(as_ref_text::<S>(&spec), seq!['/']);
    //@ span src/log_specification.rs impl LogSpecification / fn parse
    //@   from let mut parse_errs = String::new();
    //@   before if let Some(m) = mods
    //@   rename parse_head
    //@   rule R22g *
    //@   rule R32 *
            // (wrapper, not copied code) what the locals of the copied statements hold when the head is passed
            assert(parse_errs@.len() == 0 && dirs@.len() == 0);
            assert(mods is Some && (mods->Some_0)@ == pieces[0]);
            assert(pieces.len() == 1 ==> filter is None);
            assert(pieces.len() == 2 ==> filter is Some && (filter->Some_0)@ == pieces[1]);
            Ok(Self::off())
        }

        /// body of the loop of `parse` over the comma-separated parts: one part
        pub(crate) fn parse_part(s: &str, parse_errs_in: String, dirs_in: Vec<ModuleFilter>) -> (r: (String, Vec<ModuleFilter>))
            ensures
                // an empty part (",,", trailing comma) is skipped
                trim_spec(s@).len() == 0 ==> r.0@ == parse_errs_in@ && r.1@ == dirs_in@, //@label parse.part.empty_skipped C17
                // a well-formed part adds exactly its entry, and no error text
                trim_spec(s@).len() > 0 && part_entry(trim_spec(s@)) is Some ==> r.0@ == parse_errs_in@ && r.1@.len() == dirs_in@.len() + 1 && r.1@.subrange(0, dirs_in@.len() as int) == dirs_in@ && mf_entry(r.1@[dirs_in@.len() as int]) == part_entry(trim_spec(s@))->Some_0, //@label parse.part.wellformed_kept C17
                // a malformed part adds error text and nothing else
                trim_spec(s@).len() > 0 && part_entry(trim_spec(s@)) is None ==> r.0@.len() > 0 && r.1@ == dirs_in@, //@label parse.part.malformed_reported C17
                // error text is never taken away
                parse_errs_in@.len() > 0 ==> r.0@.len() > 0, //@label parse.part.errors_kept C17
        {
            let mut parse_errs = parse_errs_in;
            let mut dirs = dirs_in;
            proof { reveal_strlit(""); }
    //@ span src/log_specification.rs impl LogSpecification / fn parse
    //@   block for s in m.split(',')
    //@   rename parse_part
    //@   rule R30c *
    //@   rule R32 *
    //@   rule R34 *
            (parse_errs, dirs)
        }

        /// the error arm of the closure that compiles the text filter
        pub(crate) fn parse_regex_err(e: regex::Error, parse_errs_in: String) -> (r: (Option<Box<Regex>>, String))
            ensures r.0 is None && r.1@.len() > 0, //@label parse.regex.err_reported C17
        {
            let mut parse_errs = parse_errs_in;
            let x =
    //@ span src/log_specification.rs impl LogSpecification / fn parse
    //@   blocknth 2/2 Err(e) =>
    //@   rename parse_regex_err
    //@   rule R32 *
            ;
            (x, parse_errs)
        }

        /// tail of `parse`: Ok iff no error text was collected; in both cases the specification holds the collected entries, sorted
        pub(crate) fn parse_tail(dirs: Vec<ModuleFilter>, textfilter: Option<Box<Regex>>, parse_errs: String) -> (r: Result<Self, FlexiLoggerError>)
            ensures
                r is Ok <==> parse_errs@.len() == 0, //@label parse.tail.err_iff_errors C17
                r is Ok ==> sorted_perm_of(dirs@, (r->Ok_0).filters()) && (r->Ok_0).has_textfilter() == (textfilter is Some), //@label parse.tail.ok_spec C17,C05
                r is Err ==> r->Err_0 is Parse && (r->Err_0->Parse_0)@ == parse_errs@ && sorted_perm_of(dirs@, (r->Err_0->Parse_1).filters()) && (r->Err_0->Parse_1).has_textfilter() == (textfilter is Some), //@label parse.tail.err_spec C17
        {
    //@ span src/log_specification.rs impl LogSpecification / fn parse
    //@   from let logspec = Self
    //@   toend
    //@   rename parse_tail
        }
    }

    //@ fn src/log_specification.rs fn push_err
    //@   props C17
    //@   ens[push_err.post.nonempty] s@.len() > 0 || old(parse_errs)@.len() > 0 ==> final(parse_errs)@.len() > 0
    //@   ens[push_err.post.first] old(parse_errs)@.len() == 0 ==> final(parse_errs)@ == s@
    //@   canary
    //@ fn src/log_specification.rs fn parse_err
    //@   ret r
    //@   props C17
    //@   ens[parse_err.post] r is Err && r->Err_0 is Parse && r->Err_0->Parse_0 == errors && r->Err_0->Parse_1 == logspec
    //@ fn src/log_specification.rs fn parse_level_filter
    //@   ret r
    //@   props C17
    //@   rule R22g *
    //@   rule R32 *
    //@   ens[parse_level_filter.post] match level_word(as_ref_text::<S>(&s)) { Some(l) => r is Ok && r->Ok_0 == l, None => r is Err && r->Err_0 is LevelFilter }
    //@ fn src/log_specification.rs fn contains_whitespace
    //@   ret r
    //@   props C17
    //@   rule R33 1
    //@   rule R32 *
    //@   ens[contains_whitespace.post.result] r == has_ws(s@)
    //@   ens[contains_whitespace.post.reported] r ==> final(parse_errs)@.len() > 0
    //@   ens[contains_whitespace.post.silent] !r ==> final(parse_errs)@ == old(parse_errs)@
    //@   canary

    // ---------------------------------------------------------------------------------------------------------------
    // Display: the text form lists the default level (if the list ends with the default entry) and then EVERY named entry
    // ---------------------------------------------------------------------------------------------------------------
    pub open spec fn level_lower(l: LevelFilter) -> Seq<char> { lower_spec(level_text(l)) }
    /// the head: the default level, if the last entry of the (sorted) list is the default entry
    pub open spec fn render_head(mfs: Seq<ModuleFilter>) -> (Seq<char>, bool) {
        if mfs.len() > 0 && mfs[mfs.len() - 1].module_name is None { (level_lower(mfs[mfs.len() - 1].level_filter), true) } else { (Seq::empty(), false) }
    }
    /// head + the first k entries: every named entry as `name = level`, separated by ", "
    pub open spec fn render_upto(mfs: Seq<ModuleFilter>, k: int) -> (Seq<char>, bool)
        decreases k
    {
        if k <= 0 { render_head(mfs) } else {
            let (t, comma) = render_upto(mfs, k - 1);
            match mfs[k - 1].module_name {
                Some(name) => ((if comma { t + ", "@ } else { t }) + name@ + " = "@ + level_lower(mfs[k - 1].level_filter), true),
                None => (t, comma),
            }
        }
    }
    impl LogSpecification {
    //@ fn src/log_specification.rs impl From<LevelFilter> for LogSpecification / fn from
    //@   ret r
    //@   props C17
    //@   ens[From<LevelFilter>::from.post] value == LevelFilter::Off ==> r.is_off()
    //@   ens[From<LevelFilter>::from.post.level] value != LevelFilter::Off ==> r.filters().len() == 1 && mf_entry(r.filters()[0]) == (Entry { name: None, level: value })
    //@ fn src/log_specification.rs impl std::fmt::Display for LogSpecification / fn fmt
    //@   ret r
    //@   props C17
    //@   rule R40 *
    //@   attr #[verifier::loop_isolation(false)]
    //@   loop 1 iter it
    //@   loop 1 inv[Display::fmt.loop.rendered] (f.text(), write_comma) == render_upto(self.module_filters@, it.index@ as int)
    //@   loop 1 inv it.seq().len() == self.module_filters@.len() && forall|k: int| 0 <= k < it.seq().len() ==> *it.seq()[k] == self.module_filters@[k]
    //@   req[Display::fmt.pre.empty] old(f).text().len() == 0
    //@   ens[Display::fmt.post.rendered] r is Ok ==> final(f).text() == render_upto(self.filters(), self.filters().len() as int).0
    //@   canary
    }

    // ---------------------------------------------------------------------------------------------------------------
    // the fold of `parse_part` over all parts
    // ---------------------------------------------------------------------------------------------------------------
    /// the entries of the well-formed parts, in order
    pub open spec fn kept(parts: Seq<Seq<char>>) -> Seq<Entry>
        decreases parts.len()
    {
        if parts.len() == 0 { Seq::empty() } else {
            let t = trim_spec(parts.last());
            if t.len() > 0 && part_entry(t) is Some { kept(parts.drop_last()).push(part_entry(t)->Some_0) } else { kept(parts.drop_last()) }
        }
    }
    pub open spec fn some_malformed(parts: Seq<Seq<char>>) -> bool {
        exists|i: int| 0 <= i < parts.len() && trim_spec(#[trigger] parts[i]).len() > 0 && part_entry(trim_spec(parts[i])) is None
    }
    /// one step as the postcondition of `parse_part` states it (errs: is error text present; dirs: the entries so far)
    pub open spec fn step(part: Seq<char>, errs: bool, dirs: Seq<Entry>, errs2: bool, dirs2: Seq<Entry>) -> bool {
        let t = trim_spec(part);
        (t.len() == 0 ==> errs2 == errs && dirs2 == dirs)
        && (t.len() > 0 && part_entry(t) is Some ==> errs2 == errs && dirs2 == dirs.push(part_entry(t)->Some_0))
        && (t.len() > 0 && part_entry(t) is None ==> errs2 && dirs2 == dirs)
    }
    /// the step is a function: what `parse_part`'s postcondition leaves as the only possible outcome
    pub open spec fn next(part: Seq<char>, errs: bool, dirs: Seq<Entry>) -> (bool, Seq<Entry>) {
        let t = trim_spec(part);
        if t.len() == 0 { (errs, dirs) } else if part_entry(t) is Some { (errs, dirs.push(part_entry(t)->Some_0)) } else { (true, dirs) }
    }
    pub proof fn lemma_step_functional(part: Seq<char>, errs: bool, dirs: Seq<Entry>, errs2: bool, dirs2: Seq<Entry>)
        requires step(part, errs, dirs, errs2, dirs2),
        ensures (errs2, dirs2) == next(part, errs, dirs),
    {}
    /// all steps, starting without error text and without entries
    pub open spec fn fold(parts: Seq<Seq<char>>) -> (bool, Seq<Entry>)
        decreases parts.len()
    {
        if parts.len() == 0 { (false, Seq::empty()) } else { next(parts.last(), fold(parts.drop_last()).0, fold(parts.drop_last()).1) }
    }
    /// C17: after all parts, error text is present iff some part is malformed, and the entries are exactly the well-formed parts'
    pub proof fn lemma_parts(parts: Seq<Seq<char>>)
        ensures fold(parts).0 == some_malformed(parts), fold(parts).1 == kept(parts),
        decreases parts.len()
    {
        if parts.len() > 0 {
            let init = parts.drop_last();
            lemma_parts(init);
            let t = trim_spec(parts.last());
            let bad_last = t.len() > 0 && part_entry(t) is None;
            // malformed parts of the whole list: those of the initial list, or the last part
            assert(some_malformed(parts) == (some_malformed(init) || bad_last)) by {
                if some_malformed(init) {
                    let i = choose|i: int| 0 <= i < init.len() && trim_spec(#[trigger] init[i]).len() > 0 && part_entry(trim_spec(init[i])) is None;
                    assert(parts[i] == init[i]);
                }
                if bad_last { assert(parts[parts.len() - 1] == parts.last()); }
                if some_malformed(parts) {
                    let i = choose|i: int| 0 <= i < parts.len() && trim_spec(#[trigger] parts[i]).len() > 0 && part_entry(trim_spec(parts[i])) is None;
                    if i < init.len() { assert(init[i] == parts[i]); } else { assert(parts[i] == parts.last()); }
                }
            }
        }
    }
}
}
// plain-Rust glue outside verus!: Display / Debug for the shims (never executed, not verified)
impl std::fmt::Display for flexi_error::FlexiLoggerError { fn fmt(&self, _f: &mut std::fmt::Formatter) -> std::fmt::Result { Ok(()) } }
impl std::fmt::Debug for flexi_error::FlexiLoggerError { fn fmt(&self, _f: &mut std::fmt::Formatter) -> std::fmt::Result { Ok(()) } }
fn main() {}

#![allow(unused_imports, dead_code, unused_variables, unused_mut, unreachable_code)]
// Unit `state`: the file writer's state machine (src/writers/file_log_writer/state.rs)
use vstd::prelude::*;
verus! {
//@ include prelude/base.rs

pub mod parameters {
    use super::*;
    //@ item src/parameters/age.rs enum Age
    //@ item src/parameters/criterion.rs enum Criterion
}

pub mod state {
    use super::*;
    use super::parameters::{Age, Criterion};
    use chrono::{DateTime, Datelike, Local, Timelike};
    use std::path::{Path, PathBuf};

    // ---- specification vocabulary (hand written) ---------------------------------------------
    pub open spec fn same_period(age: Age, a: &DateTime<Local>, b: &DateTime<Local>) -> bool {
        let d = dt_year(a) == dt_year(b) && dt_month(a) == dt_month(b) && dt_day(a) == dt_day(b);
        match age {
            Age::Day => d,
            Age::Hour => d && dt_hour(a) == dt_hour(b),
            Age::Minute => d && dt_hour(a) == dt_hour(b) && dt_minute(a) == dt_minute(b),
            Age::Second => d && dt_hour(a) == dt_hour(b) && dt_minute(a) == dt_minute(b) && dt_second(a) == dt_second(b),
        }
    }

    //@ item src/writers/file_log_writer/state.rs enum RollState
    impl RollState {
        spec fn has_size(&self) -> bool { self is Size || self is AgeOrSize }
        spec fn has_age(&self) -> bool { self is Age || self is AgeOrSize }
        spec fn cur(&self) -> u64 { match self { RollState::Size{current_size, ..} => *current_size, RollState::AgeOrSize{current_size, ..} => *current_size, _ => 0 } }
        spec fn max(&self) -> u64 { match self { RollState::Size{max_size, ..} => *max_size, RollState::AgeOrSize{max_size, ..} => *max_size, _ => 0 } }
        spec fn size_part(&self) -> bool { self.has_size() && self.cur() > self.max() }
        spec fn age_part(&self) -> bool {
            match self {
                RollState::Age{age, created_at} => !same_period(*age, created_at, &clock_now()),
                RollState::AgeOrSize{age, created_at, ..} => !same_period(*age, created_at, &clock_now()),
                _ => false,
            }
        }
        spec fn should_rotate(&self) -> bool { self.size_part() || self.age_part() }

    //@ fn src/writers/file_log_writer/state.rs impl RollState / fn rotation_necessary
    //@   ret r
    //@   props C08,C09,C01
    //@   ens[rotation_necessary.post] r == self.should_rotate()
    //@   canary
    //@ fn src/writers/file_log_writer/state.rs impl RollState / fn size_rotation_necessary
    //@   ret r
    //@   props C08,C01
    //@   ens[size_rotation_necessary.post] r == (current_size > max_size)
    //@   canary
    //@ fn src/writers/file_log_writer/state.rs impl RollState / fn age_rotation_necessary
    //@   ret r
    //@   props C09,C01
    //@   ens[age_rotation_necessary.post] r == !same_period(age, created_at, &clock_now())
    //@   canary
    }
}
}
fn main() {}

#![feature(print_internals)]
#![allow(unused_imports, dead_code, unused_variables, unused_mut, unreachable_code, unused_parens)]
// Unit `state`: the file writer's state machine (src/writers/file_log_writer/state.rs, state/numbers.rs)
// Functions marked `//@ fn` are copied byte for byte from /repo on every run and verified against the
// contracts woven here; `//@ sig` are callees whose contract is assumed in this unit.
use vstd::prelude::*;
verus! {
//@ include prelude/base.rs
//@ autoens len -> u64 => metadata_len(&$x)

pub mod ts_axioms {
    use super::*;
    /// oracle: the local date-time of a system time (`From<SystemTime> for DateTime<Local>`)
    pub uninterp spec fn local_of_systemtime(t: std::time::SystemTime) -> chrono::DateTime<chrono::Local>;
    pub broadcast axiom fn ax_systemtime_into_local(t: std::time::SystemTime, r: chrono::DateTime<chrono::Local>)
        ensures #[trigger] call_ensures(<std::time::SystemTime as Into<chrono::DateTime<chrono::Local>>>::into, (t,), r) ==> r == local_of_systemtime(t);
}
pub mod flexi_error {
    use super::*;
    use vstd::std_specs::convert::FromSpecImpl;
    /// SHIM (trusted): the variants of `FlexiLoggerError` that the functions of this unit can produce.
    /// The real enum derives `thiserror::Error`; `#[from] std::io::Error` is the conversion used by `?`.
    pub enum FlexiLoggerError { Reset, NoFileLogger, OutputBadDirectory, OutputIo(std::io::Error), Poison }
    impl From<std::io::Error> for FlexiLoggerError {
        fn from(e: std::io::Error) -> (r: FlexiLoggerError) { FlexiLoggerError::OutputIo(e) }
    }
    impl FromSpecImpl<std::io::Error> for FlexiLoggerError {
        open spec fn obeys_from_spec() -> bool { true }
        open spec fn from_spec(e: std::io::Error) -> FlexiLoggerError { FlexiLoggerError::OutputIo(e) }
    }
    /// R46 SHIM for `std::io::Error::other(e)` (not used by the code as it is; its parameter type is a `dyn` with two auto traits)
    #[verifier::external_body]
    pub fn vio_error_other<E>(e: E) -> (r: std::io::Error) { unimplemented!() }
}

pub mod util {
    use super::*;
    //@ item src/util.rs enum ErrorCode
    /// permission: which error codes the function under proof may report (DESIGN 3.4)
    pub uninterp spec fn reportable(code: ErrorCode) -> bool;
    pub trait VErr {}
    impl VErr for std::io::Error {}
    impl VErr for super::flexi_error::FlexiLoggerError {}
    /// SHIM for `eprint_err(code, msg, &dyn Error)`: the error channel is outside this unit
    #[verifier::external_body]
    pub(crate) fn eprint_err<E: VErr>(error_code: ErrorCode, msg: &str, err: &E)
        requires
            reportable(error_code), //@label eprint_err.perm.reportable C19
        ensures reported(error_code),
    { unimplemented!() }
    /// token fact (C19, "if" direction): a problem was handed to the error channel with this code - only eprint_err establishes it
    /// (unit `errchan`: eprint_err serves the configured channel)
    pub uninterp spec fn reported(code: ErrorCode) -> bool;
}

pub mod parameters {
    use super::*;
    use std::path::PathBuf;
    //@ item src/parameters/age.rs enum Age
    //@ item src/parameters/criterion.rs enum Criterion
    //@ item src/parameters/cleanup.rs enum Cleanup
    //@ item src/parameters/naming.rs enum Naming
    impl Cleanup {
        pub open spec fn do_cleanup_spec(&self) -> bool { !(self is Never) }
    //@ fn src/parameters/cleanup.rs impl Cleanup / fn do_cleanup
    //@   ret r
    //@   props C07
    //@   ens[do_cleanup.post] r == self.do_cleanup_spec()
    }
    /// TRUSTED: the only `str` without characters is the literal `""` (a `""` pattern matches exactly the empty string)
    pub broadcast axiom fn ax_empty_str(s: &str)
        ensures #![trigger s@] (s@.len() == 0) <==> s == "";
    impl Naming {
        pub(crate) open spec fn writes_direct_spec(self) -> bool {
            match self {
                Naming::NumbersDirect | Naming::TimestampsDirect => true,
                Naming::TimestampsCustomFormat { current_infix, format } => current_infix is None || current_infix->Some_0@.len() == 0,
                _ => false,
            }
        }
        //@ fn src/parameters/naming.rs impl Naming / fn writes_direct
        //@   ret r
        //@   props C07,C14,C01,C06
        //@   prefix proof { reveal_strlit(""); broadcast use ax_empty_str; }
        //@   ens[Naming::writes_direct.post] r == self.writes_direct_spec()
    }

    //@ opaque src/parameters/file_spec.rs struct FileSpec
    //@   dropattr #[derive
    impl Clone for FileSpec {
        #[verifier::external_body]
        fn clone(&self) -> (r: FileSpec) ensures r == *self { unimplemented!() }
    }
    pub open spec fn ostr(o: Option<&str>) -> Option<Seq<char>> { match o { Some(s) => Some(s@), None => None } }
    impl FileSpec {
        /// the path `as_pathbuf` computes (defined and proved in unit `naming`)
        pub uninterp spec fn path_spec(&self, o_infix: Option<Seq<char>>) -> Seq<char>;
        /// result of the directory scan behind `collision_free_infix_for_rotated_file` (not decided)
        pub uninterp spec fn collision_free_spec(&self, infix: Seq<char>) -> Seq<char>;
        //@ sig src/parameters/file_spec.rs impl FileSpec / fn as_pathbuf
        //@   ret r
        //@   ens pathbuf_view(&r) == self.path_spec(ostr(o_infix))
        //@ sig src/parameters/file_spec.rs impl FileSpec / fn collision_free_infix_for_rotated_file
        //@   ret r
        //@   ens r@ == self.collision_free_spec(infix@)
    }
}

pub mod selector {
    /// SHIM: the selector is only passed through here (its meaning: unit `listing`)
    pub struct LogfileSelector { _o: () }
}
pub mod write_mode {
    use super::*;
    use std::time::Duration;
    //@ item src/write_mode.rs const DEFAULT_BUFFER_CAPACITY
    //@ item src/write_mode.rs enum WriteMode
    //@ item src/write_mode.rs enum EffectiveWriteMode
    impl WriteMode {
        /// C15: buffered exactly for the Buffer* modes, with the configured or default capacity
        pub(crate) open spec fn buffersize_spec(&self) -> Option<usize> {
            match self {
                WriteMode::BufferAndFlush | WriteMode::BufferDontFlush => Some(8192usize),
                WriteMode::BufferAndFlushWith(n, _) => Some(*n),
                WriteMode::BufferDontFlushWith(n) => Some(*n),
                _ => None,
            }
        }
    //@ fn src/write_mode.rs impl WriteMode / fn effective_write_mode
    //@   ret r
    //@   props C15
    //@   ens[effective_write_mode.post] match r {
    //@       EffectiveWriteMode::Direct => self is Direct || self is SupportCapture,
    //@       EffectiveWriteMode::BufferAndFlushWith(n) => Some(n) == self.buffersize_spec() && (self is BufferAndFlush || self is BufferAndFlushWith),
    //@       EffectiveWriteMode::BufferDontFlushWith(n) => Some(n) == self.buffersize_spec() && (self is BufferDontFlush || self is BufferDontFlushWith),
    //@       _ => !(self is Direct || self is SupportCapture) && self.buffersize_spec() is None,
    //@   }
    //@ fn src/write_mode.rs impl WriteMode / fn buffersize
    //@   ret r
    //@   props C15
    //@   ens[buffersize.post] r == self.buffersize_spec()
    }
}

pub mod config {
    use super::*;
    use super::parameters::{Cleanup, Criterion, FileSpec, Naming};
    use super::write_mode::WriteMode;
    use std::path::PathBuf;
    //@ item src/writers/file_log_writer/config.rs struct RotationConfig
    //@ item src/writers/file_log_writer/config.rs struct FileLogWriterConfig
}

pub mod infix_filter {
    use super::*;
    use super::state::InfixFormat;
    //@ item src/writers/file_log_writer/infix_filter.rs enum InfixFilter
}

//@ defaults rule R3 *
//@ defaults rule R1 *
//@ defaults rule R1b *
pub mod state {
    use super::*;
    use super::config::{FileLogWriterConfig, RotationConfig};
    use super::infix_filter::InfixFilter;
    use super::util::{eprint_err, ErrorCode};
    use super::parameters::{Age, Cleanup, Criterion, Naming, FileSpec, ostr};
    use super::flexi_error::FlexiLoggerError;
    use super::selector::LogfileSelector;
    use chrono::{DateTime, Datelike, Local, Timelike};
    use std::{
        fs::{remove_file, File, OpenOptions},
        io::{BufWriter},
        path::{Path, PathBuf},
    };
    use timestamps::{creation_timestamp_of_currentfile, infix_from_timestamp, latest_timestamp_file};

    broadcast use group_aspath, cmp_axioms::group_errorkind_eq, ax_fmt_req_all_path_display, vstd::std_specs::fmt::group_fmt_axioms, ax_asosstr_str, ts_axioms::ax_systemtime_into_local;

    //@ item src/writers/file_log_writer/state.rs const CURRENT_INFIX
    //@   rule R6 1

    // =========================================================================================
    // specification vocabulary (hand written)
    // =========================================================================================
    /// C09: "the local clock shows the same day / hour / minute / second"
    pub(crate) open spec fn same_period(age: Age, a: &DateTime<Local>, b: &DateTime<Local>) -> bool {
        let d = dt_year(a) == dt_year(b) && dt_month(a) == dt_month(b) && dt_day(a) == dt_day(b);
        match age {
            Age::Day => d,
            Age::Hour => d && dt_hour(a) == dt_hour(b),
            Age::Minute => d && dt_hour(a) == dt_hour(b) && dt_minute(a) == dt_minute(b),
            Age::Second => d && dt_hour(a) == dt_hour(b) && dt_minute(a) == dt_minute(b) && dt_second(a) == dt_second(b),
        }
    }
    /// oracle: the time stamp `get_creation_timestamp` reads for a path (created, else modified, else now)
    /// oracles: creation / modification time in a file's metadata (not every platform / file system has a creation time), and the
    /// local date-time of a system time
    pub uninterp spec fn md_created(m: &std::fs::Metadata) -> Result<std::time::SystemTime, std::io::Error>;
    pub uninterp spec fn md_modified(m: &std::fs::Metadata) -> Result<std::time::SystemTime, std::io::Error>;
    pub open spec fn local_of(t: std::time::SystemTime) -> DateTime<Local> { ts_axioms::local_of_systemtime(t) }
    pub assume_specification[ std::fs::Metadata::created ](m: &std::fs::Metadata) -> (r: Result<std::time::SystemTime, std::io::Error>)
        ensures r == md_created(m);
    pub assume_specification[ std::fs::Metadata::modified ](m: &std::fs::Metadata) -> (r: Result<std::time::SystemTime, std::io::Error>)
        ensures r == md_modified(m);
    /// the same outcome: both fail, or both succeed with the same time stamp (which error it is only matters to the error channel)
    pub open spec fn same_ts(r: Result<DateTime<Local>, FlexiLoggerError>, s: Result<DateTime<Local>, FlexiLoggerError>) -> bool {
        match (r, s) { (Ok(a), Ok(b)) => a == b, (Err(_), Err(_)) => true, _ => false }
    }
    pub open spec fn io_to_ts(r: Result<std::time::SystemTime, std::io::Error>) -> Result<DateTime<Local>, FlexiLoggerError> {
        match r { Ok(t) => Ok(local_of(t)), Err(e) => Err(FlexiLoggerError::OutputIo(e)) }
    }
    /// C09: the time a file's content was started: its creation time
    pub open spec fn fs_created_ts(p: Seq<char>) -> Result<DateTime<Local>, FlexiLoggerError> {
        match fs_metadata_result(p) { Ok(md) => io_to_ts(md_created(&md)), Err(e) => Err(FlexiLoggerError::OutputIo(e)) }
    }
    /// the fallback: creation time if the metadata has one after all, else the time of the last modification
    pub open spec fn fs_modified_ts(p: Seq<char>) -> Result<DateTime<Local>, FlexiLoggerError> {
        match fs_metadata_result(p) {
            Ok(md) => io_to_ts(match md_created(&md) { Ok(t) => Ok(t), Err(_) => md_modified(&md) }),
            Err(e) => Err(FlexiLoggerError::OutputIo(e)),
        }
    }
    /// C09 anchor "fallback chain": creation time, else modification time, else the current time
    pub(crate) open spec fn creation_ts(p: Seq<char>) -> DateTime<Local> {
        match fs_created_ts(p) {
            Ok(t) => t,
            Err(_) => match fs_modified_ts(p) { Ok(t) => t, Err(_) => clock_now() },
        }
    }

    pub(crate) open spec fn open_flags(config: &FileLogWriterConfig) -> OpenFlags {
        OpenFlags { write: true, create: true, append: config.append, truncate: !config.append }
    }
    pub open spec fn fresh_wview() -> WView { WView { written: Seq::<u8>::empty(), flushed: 0, flush_calls: 0 } }

    pub ghost enum FmtV { Std, Custom(Seq<char>) }
    pub ghost enum NamingV {
        Ts { ts: DateTime<Local>, cur: Option<Seq<char>>, fmt: FmtV },
        NumR(u32),
        NumD(u32),
    }
    pub(crate) open spec fn ostring(o: Option<String>) -> Option<Seq<char>> { match o { Some(s) => Some(s@), None => None } }

    // ---- NamingState ------------------------------------------------------------------------
    //@ item src/writers/file_log_writer/state.rs enum NamingState
    //@ item src/writers/file_log_writer/state.rs enum InfixFormat
    //@   dropattr #[derive
    /// SHIM (trusted): `#[derive(Clone)]` yields a structurally equal value (Verus cannot derive a spec for an enum holding a String)
    impl Clone for InfixFormat {
        #[verifier::external_body]
        fn clone(&self) -> (r: InfixFormat) ensures r == *self { unimplemented!() }
    }
    impl InfixFormat {
        pub(crate) open spec fn fview(&self) -> FmtV { match self { InfixFormat::Std => FmtV::Std, InfixFormat::Custom(s) => FmtV::Custom(s@) } }
        //@ sig src/writers/file_log_writer/state.rs impl InfixFormat / fn custom
        //@   ret r
        //@   ens r is Custom && r->Custom_0@ == fmt@
    }
    impl NamingState {
        pub(crate) closed spec fn infix_filter_spec(&self) -> InfixFilter {
            match self {
                NamingState::Timestamps { infix_format, .. } => InfixFilter::Timstmps(*infix_format),
                _ => InfixFilter::Numbrs,
            }
        }
        pub(crate) closed spec fn nview(&self) -> NamingV {
            match self {
                NamingState::Timestamps { current_timestamp, the_current_infix, infix_format } =>
                    NamingV::Ts { ts: *current_timestamp, cur: ostring(*the_current_infix), fmt: infix_format.fview() },
                NamingState::NumbersRCurrent(i) => NamingV::NumR(*i),
                NamingState::NumbersDirect(i) => NamingV::NumD(*i),
            }
        }
        pub(crate) closed spec fn direct(&self) -> bool {
            self is NumbersDirect || (self is Timestamps && self->the_current_infix is None)
        }
        //@ fn src/writers/file_log_writer/state.rs impl NamingState / fn writes_direct
        //@   ret r
        //@   props C07
        //@   ens[NamingState::writes_direct.post] r == self.direct()
        //@ fn src/writers/file_log_writer/state.rs impl NamingState / fn infix_filter
        //@   ret r
        //@   props C07,C14
        //@   ens[NamingState::infix_filter.post] r == self.infix_filter_spec()
    }

    // ---- RollState --------------------------------------------------------------------------
    //@ item src/writers/file_log_writer/state.rs enum RollState
    impl RollState {
        spec fn has_size(&self) -> bool { self is Size || self is AgeOrSize }
        spec fn has_age(&self) -> bool { self is Age || self is AgeOrSize }
        spec fn cur(&self) -> u64 { match self { RollState::Size{current_size, ..} => *current_size, RollState::AgeOrSize{current_size, ..} => *current_size, _ => 0 } }
        spec fn max(&self) -> u64 { match self { RollState::Size{max_size, ..} => *max_size, RollState::AgeOrSize{max_size, ..} => *max_size, _ => 0 } }
        spec fn age(&self) -> Age { match self { RollState::Age{age, ..} => *age, RollState::AgeOrSize{age, ..} => *age, _ => Age::Day } }
        spec fn created(&self) -> DateTime<Local> { match self { RollState::Age{created_at, ..} => *created_at, RollState::AgeOrSize{created_at, ..} => *created_at, _ => clock_now() } }
        /// C08: the current file already holds more than N bytes
        spec fn size_part(&self) -> bool { self.has_size() && self.cur() > self.max() }
        /// C09: the clock shows a later period than the one in which the current file was started
        spec fn age_part(&self) -> bool { self.has_age() && !same_period(self.age(), &self.created(), &clock_now()) }
        spec fn should_rotate(&self) -> bool { self.size_part() || self.age_part() }
        /// the roll state after a rotation to the file at `p`
        spec fn reset_to(&self, p: Seq<char>) -> RollState {
            match self {
                RollState::Size{max_size, ..} => RollState::Size{max_size: *max_size, current_size: 0},
                RollState::Age{age, ..} => RollState::Age{age: *age, created_at: creation_ts(p)},
                RollState::AgeOrSize{age, max_size, ..} => RollState::AgeOrSize{age: *age, created_at: creation_ts(p), max_size: *max_size, current_size: 0},
            }
        }
        /// the roll state with the size account set to `size` (the age part is kept)
        spec fn with_size(&self, size: u64) -> RollState {
            match self {
                RollState::Size{max_size, ..} => RollState::Size{max_size: *max_size, current_size: size},
                RollState::Age{..} => *self,
                RollState::AgeOrSize{age, created_at, max_size, ..} => RollState::AgeOrSize{age: *age, created_at: *created_at, max_size: *max_size, current_size: size},
            }
        }
        spec fn plus(&self, add: u64) -> RollState {
            match self {
                RollState::Size{max_size, current_size} => RollState::Size{max_size: *max_size, current_size: (*current_size + add) as u64},
                RollState::Age{..} => *self,
                RollState::AgeOrSize{age, created_at, max_size, current_size} => RollState::AgeOrSize{age: *age, created_at: *created_at, max_size: *max_size, current_size: (*current_size + add) as u64},
            }
        }
        spec fn seeded(criterion: Criterion, size: u64, p: Seq<char>) -> RollState {
            match criterion {
                Criterion::Age(age) => RollState::Age { age, created_at: creation_ts(p) },
                Criterion::Size(max_size) => RollState::Size { max_size, current_size: size },
                Criterion::AgeOrSize(age, max_size) => RollState::AgeOrSize { age, created_at: creation_ts(p), max_size, current_size: size },
            }
        }

    //@ fn src/writers/file_log_writer/state.rs impl RollState / fn new
    //@   ret r
    //@   props C08,C06,C09
    //@   ens[RollState::new.post.seed] match r {
    //@       Ok(rs) => rs == RollState::seeded(criterion, if append { metadata_len(&fs_metadata_result(path_view(path))->Ok_0) } else { 0 }, path_view(path))
    //@                 && (append ==> fs_metadata_result(path_view(path)) is Ok),
    //@       Err(_) => append && fs_metadata_result(path_view(path)) is Err,
    //@   }
    //@   canary
    //@ fn src/writers/file_log_writer/state.rs impl RollState / fn rotation_necessary
    //@   ret r
    //@   props C08,C09,C01
    //@   ens[rotation_necessary.post] r == self.should_rotate()
    //@   canary
    //@ fn src/writers/file_log_writer/state.rs impl RollState / fn size_rotation_necessary
    //@   ret r
    //@   props C08,C01
    //@   ens[size_rotation_necessary.post] r == (current_size > max_size)
    //@   canary
    //@ fn src/writers/file_log_writer/state.rs impl RollState / fn age_rotation_necessary
    //@   ret r
    //@   props C09,C01
    //@   ens[age_rotation_necessary.post] r == !same_period(age, created_at, &clock_now())
    //@   canary
    //@ fn src/writers/file_log_writer/state.rs impl RollState / fn set_size
    //@   props C08,C18
    //@   ens[RollState::set_size.post] *final(self) == old(self).with_size(size)
    //@ fn src/writers/file_log_writer/state.rs impl RollState / fn reset_size_and_date
    //@   props C08,C09,C01
    //@   ens[reset_size_and_date.post] *final(self) == old(self).reset_to(path_view(path))
    //@   canary
    //@ sig src/writers/file_log_writer/state.rs impl RollState / fn increase_size
    //@   req old(self).has_size() ==> old(self).cur() + add <= u64::MAX
    //@   ens *final(self) == old(self).plus(add)
    }

    // ---- RotationState / Inner / State -------------------------------------------------------
    //@ item src/writers/file_log_writer/state.rs struct RotationState
    impl RotationState {
    //@ fn src/writers/file_log_writer/state.rs impl RotationState / fn shutdown
    //@   props C04
    //@   ens[RotationState::shutdown.post] final(self).o_cleanup_thread_handle is None
    //@   ens[RotationState::shutdown.frame] final(self).naming_state == old(self).naming_state && final(self).roll_state == old(self).roll_state && final(self).cleanup == old(self).cleanup
    }
    //@ item src/writers/file_log_writer/state.rs enum Inner
    //@   rule R1 1
    impl Inner {
    //@ fn src/writers/file_log_writer/state.rs impl Inner / fn uses_rotation
    //@   ret r
    //@   props C16
    //@   ens[uses_rotation.post] r == match self { Inner::Initial(o_r, _) => o_r is Some, Inner::Active(o_r, _, _) => o_r is Some }
        /// the filter of the active naming scheme; none while not started or without rotation
        pub(crate) closed spec fn infix_filter_of(&self) -> InfixFilter {
            match self { Inner::Active(Some(rs), _, _) => rs.naming_state.infix_filter_spec(), _ => InfixFilter::None }
        }
    //@ fn src/writers/file_log_writer/state.rs impl Inner / fn infix_filter
    //@   ret r
    //@   props C16,C07,C14
    //@   closure ~rs.naming_state.infix_filter() ## sig |rs: &RotationState| -> (r: InfixFilter)
    //@   closure ~rs.naming_state.infix_filter() ## ens r == rs.naming_state.infix_filter_spec()
    //@   ens[Inner::infix_filter.post] r == self.infix_filter_of()
    }
    //@ item src/writers/file_log_writer/state.rs struct State
    //@   dropattr #[derive(Debug)]

    impl State {
        pub closed spec fn active(&self) -> bool { self.inner is Active }
        pub closed spec fn has_rot(&self) -> bool { self.inner is Active && self.inner->Active_0 is Some }
        pub closed spec fn w(&self) -> WView { self.inner->Active_1@ }
        pub closed spec fn wsrc(&self) -> WSrc { self.inner->Active_1.src() }
        pub closed spec fn path(&self) -> Seq<char> { pathbuf_view(&self.inner->Active_2) }
        spec fn rot(&self) -> RotationState { self.inner->Active_0->Some_0 }
        pub closed spec fn should_rotate(&self) -> bool { self.has_rot() && self.rot().roll_state.should_rotate() }
        pub closed spec fn cfg(&self) -> FileLogWriterConfig { self.config }
        /// what existing_log_files asks the listing for: rotation configured?, the filter of the active naming scheme
        pub closed spec fn listing_args(&self) -> (bool, InfixFilter) {
            ((match self.inner { Inner::Initial(o_r, _) => o_r is Some, Inner::Active(o_r, _, _) => o_r is Some }), self.inner.infix_filter_of())
        }
        /// A5: machine arithmetic premises
        pub closed spec fn arith_ok(&self, add: int) -> bool {
            &&& (!self.active() ==> forall|m: std::fs::Metadata| #[trigger] metadata_len(&m) + add <= u64::MAX)
            &&& self.has_rot() ==> {
                &&& (self.rot().roll_state.has_size() ==> self.rot().roll_state.cur() + add <= u64::MAX)
                &&& (self.rot().naming_state is NumbersDirect ==> self.rot().naming_state->NumbersDirect_0 < u32::MAX)
                &&& (self.rot().naming_state is NumbersRCurrent ==> self.rot().naming_state->NumbersRCurrent_0 < u32::MAX)
            }
        }

        /// everything except the writer's view is the same
        pub closed spec fn same_but_writer_view(&self, o: &State) -> bool {
            self.config == o.config && match (self.inner, o.inner) {
                (Inner::Active(r1, w1, p1), Inner::Active(r2, w2, p2)) => r1 == r2 && p1 == p2 && w1.src() == w2.src(),
                (a, b) => a == b,
            }
        }

        pub closed spec fn naming(&self) -> NamingV { self.rot().naming_state.nview() }
        spec fn roll(&self) -> RollState { self.rot().roll_state }
        spec fn writer(&self) -> VWriter { self.inner->Active_1 }

        /// the naming step of a rotation: new naming view and infix of the next file; Err if the step failed
        pub closed spec fn next_naming(cfg: &FileLogWriterConfig, n: NamingV) -> Result<(NamingV, Seq<char>), ()> {
            match n {
                NamingV::Ts { ts, cur: Some(c), fmt } => match timestamps::ctoc_result(cfg, c, true, Some(ts), fmt) {
                    Ok(t) => Ok((NamingV::Ts { ts: t, cur: Some(c), fmt }, c)),
                    Err(_) => Err(()),
                },
                NamingV::Ts { ts, cur: None, fmt } => Ok((NamingV::Ts { ts: clock_now(), cur: None, fmt },
                    cfg.file_spec.collision_free_spec(timestamps::infix_from_ts_spec(clock_now(), cfg.use_utc, fmt)))),
                NamingV::NumR(i) => match numbers::index_for_rcurrent_spec(cfg, Some(i), true) {
                    Ok(j) => Ok((NamingV::NumR(j), CURRENT_INFIX@)),
                    Err(_) => Err(()),
                },
                NamingV::NumD(i) => Ok((NamingV::NumD((i + 1) as u32), numbers::number_infix_spec((i + 1) as u32))),
            }
        }

        /// contract of `mount_next_linewriter_if_necessary(force)` as a relation between pre and post state
        pub closed spec fn mount_post(old: &State, force: bool, new: &State, ok: bool) -> bool {
            &&& new.config == old.config
            &&& if !(old.has_rot() && (force || old.should_rotate())) {
                    ok && *new == *old
                } else {
                    &&& new.has_rot()
                    &&& new.rot().cleanup == old.rot().cleanup
                    &&& new.rot().o_cleanup_thread_handle == old.rot().o_cleanup_thread_handle
                    &&& match State::next_naming(&old.config, old.naming()) {
                        Err(_) => !ok && *new == *old,
                        Ok((nm, infix)) => {
                            &&& new.naming() == nm
                            &&& {
                                // the new file could not be opened: writer, path and roll state stay
                                ||| (!ok && new.writer() == old.writer() && new.inner->Active_2 == old.inner->Active_2 && new.roll() == old.roll())
                                // the writer was replaced by a fresh one on the next file
                                ||| {
                                    &&& new.w() == fresh_wview()
                                    &&& new.wsrc() == src_for(&old.config, Some(infix))
                                    &&& new.path() == old.config.file_spec.path_spec(Some(infix))
                                    &&& new.roll() == old.roll().reset_to(new.path())
                                    &&& (ok <==> list_and_cleanup::cleanup_result(new.rot().o_cleanup_thread_handle, &new.rot().cleanup, &old.config.file_spec,
                                            &new.rot().naming_state.infix_filter_spec(), new.rot().naming_state.direct()) is Ok)
                                }
                            }
                        },
                    }
                }
        }

    //@ fn src/writers/file_log_writer/state.rs impl State / fn mount_next_linewriter_if_necessary
    //@   ret r
    //@   props C01,C08,C09,C19,C07,C18,C16,C06,C14,C15
    //@   req[mount_next.pre.arith] old(self).arith_ok(0)
    //@   ens[mount_next.post] State::mount_post(old(self), force, final(self), r is Ok)
    //@   canary

        /// naming state and infix a logger starts with (C06), from the directory oracles; Err = start-up failed
        pub closed spec fn start_naming(cfg: &FileLogWriterConfig, naming: Naming) -> Result<(NamingV, Seq<char>), ()> {
            match naming {
                Naming::TimestampsDirect => {
                    let ts = timestamps::latest_ts_spec(cfg, !cfg.append, FmtV::Std);
                    Ok((NamingV::Ts { ts, cur: None, fmt: FmtV::Std }, timestamps::infix_from_ts_spec(ts, cfg.use_utc, FmtV::Std)))
                },
                Naming::Timestamps => match timestamps::ctoc_result(cfg, CURRENT_INFIX@, !cfg.append, None, FmtV::Std) {
                    Ok(t) => Ok((NamingV::Ts { ts: t, cur: Some(CURRENT_INFIX@), fmt: FmtV::Std }, CURRENT_INFIX@)),
                    Err(_) => Err(()),
                },
                Naming::TimestampsCustomFormat { current_infix: Some(tok), format } =>
                    match timestamps::ctoc_result(cfg, tok@, !cfg.append, None, FmtV::Custom(format@)) {
                        Ok(t) => Ok((NamingV::Ts { ts: t, cur: Some(tok@), fmt: FmtV::Custom(format@) }, tok@)),
                        Err(_) => Err(()),
                    },
                Naming::TimestampsCustomFormat { current_infix: None, format } => {
                    let ts = timestamps::latest_ts_spec(cfg, !cfg.append, FmtV::Custom(format@));
                    Ok((NamingV::Ts { ts, cur: None, fmt: FmtV::Custom(format@) }, timestamps::infix_from_ts_spec(ts, cfg.use_utc, FmtV::Custom(format@))))
                },
                Naming::Numbers => match numbers::index_for_rcurrent_spec(cfg, None, !cfg.append) {
                    Ok(i) => Ok((NamingV::NumR(i), CURRENT_INFIX@)),
                    Err(_) => Err(()),
                },
                Naming::NumbersDirect => {
                    let idx: u32 = match numbers::highest_index_spec(&cfg.file_spec) {
                        None => 0,
                        Some(h) => if cfg.append { h } else { (h + 1) as u32 },
                    };
                    Ok((NamingV::NumD(idx), numbers::number_infix_spec(idx)))
                },
            }
        }
        /// contract of `initialize_with_rotation`
        pub closed spec fn init_rot_post(cfg: &FileLogWriterConfig, rc: &RotationConfig, bg: bool, inner: &Inner) -> bool {
            &&& inner is Active
            &&& inner->Active_0 is Some
            &&& match State::start_naming(cfg, rc.naming) {
                Err(_) => false,
                Ok((nm, infix)) => {
                    let rs = inner->Active_0->Some_0;
                    let p = pathbuf_view(&inner->Active_2);
                    &&& rs.naming_state.nview() == nm
                    &&& p == cfg.file_spec.path_spec(Some(infix))
                    &&& inner->Active_1@ == fresh_wview()
                    &&& inner->Active_1.src() == src_for(cfg, Some(infix))
                    &&& rs.roll_state == RollState::seeded(rc.criterion, if cfg.append { metadata_len(&fs_metadata_result(p)->Ok_0) } else { 0 }, p)
                    &&& rs.cleanup == rc.cleanup
                    &&& (rs.o_cleanup_thread_handle is Some ==> rc.cleanup.do_cleanup_spec() && bg)
                    // C07: the start-up cleanup ran with the filter of the active naming state and the scheme's writes_direct
                    &&& (rc.cleanup.do_cleanup_spec() ==> list_and_cleanup::cleanup_result(None, &rc.cleanup, &cfg.file_spec,
                            &rs.naming_state.infix_filter_spec(), rc.naming.writes_direct_spec()) is Ok)
                    &&& (rs.o_cleanup_thread_handle is Some ==> Ok::<list_and_cleanup::CleanupThreadHandle, std::io::Error>(rs.o_cleanup_thread_handle->Some_0)
                            == list_and_cleanup::cleanup_thread_result(rc.cleanup, cfg.file_spec, &rs.naming_state.infix_filter_spec(), rc.naming.writes_direct_spec()))
                },
            }
        }
        pub closed spec fn highest_ok(&self) -> bool {
            numbers::highest_index_spec(&self.config.file_spec) is Some ==> numbers::highest_index_spec(&self.config.file_spec)->Some_0 < u32::MAX - 2
        }

    //@ fn src/writers/file_log_writer/state.rs impl State / fn initialize_with_rotation
    //@   ret r
    //@   props C06,C01,C07,C08,C09,C14,C16
    //@   req[initialize_with_rotation.pre.arith] self.highest_ok()
    //@   ens[initialize_with_rotation.post] r is Ok ==> State::init_rot_post(&self.config, rotate_config, cleanup_in_background_thread, &r->Ok_0)
    //@   ens[initialize_with_rotation.post.err] State::start_naming(&self.config, rotate_config.naming) is Err ==> r is Err
    //@   canary

        /// contract of `initialize` for a state that was still `Initial` and is `Active` afterwards
        pub closed spec fn init_post(old: &State, new: &State) -> bool {
            &&& new.config == old.config
            &&& old.inner is Initial
            &&& new.active()
            &&& new.w() == fresh_wview()
            &&& match old.inner->Initial_0 {
                None => !new.has_rot() && new.path() == old.config.file_spec.path_spec(None) && new.wsrc() == src_for(&old.config, None),
                Some(rc) => State::init_rot_post(&old.config, &rc, old.inner->Initial_1, &new.inner),
            }
        }
    //@ fn src/writers/file_log_writer/state.rs impl State / fn initialize
    //@   ret r
    //@   props C06,C01,C19,C08,C09,C07,C14,C16,C15
    //@   req[initialize.pre.arith] old(self).highest_ok()
    //@   ens[initialize.post.active] old(self).active() ==> r is Ok && *final(self) == *old(self)
    //@   ens[initialize.post.err] r is Err ==> *final(self) == *old(self)
    //@   ens[initialize.post.ok] !old(self).active() && r is Ok ==> State::init_post(old(self), final(self))
    //@   canary

        /// the write step proper: `write_all(buf)` on the current writer, then size accounting (C01, C08, C19)
        pub closed spec fn append_post(s1: &State, buf: Seq<u8>, new: &State, ok: bool) -> bool {
            &&& new.config == s1.config
            &&& s1.active() && new.active()
            &&& new.inner->Active_2 == s1.inner->Active_2
            &&& new.wsrc() == s1.wsrc()
            &&& new.w().flush_calls == s1.w().flush_calls
            &&& new.w().flushed >= s1.w().flushed
            &&& new.has_rot() == s1.has_rot()
            &&& if ok {
                    &&& new.w().written == s1.w().written + buf
                    &&& (s1.has_rot() ==> new.rot() == RotationState { roll_state: s1.roll().plus(buf.len() as u64), ..s1.rot() })
                } else {
                    &&& is_prefix(s1.w().written, new.w().written)
                    &&& is_prefix(new.w().written, s1.w().written + buf)
                    &&& (s1.has_rot() ==> new.rot() == s1.rot())
                }
        }
        /// contract of `write_buffer(buf)`
        pub closed spec fn write_post(old: &State, buf: Seq<u8>, new: &State, ok: bool) -> bool {
            if !old.active() && !new.active() {
                // start-up failed: nothing happened, the next call tries again (C19)
                !ok && *new == *old
            } else {
                exists|s0: State, s1: State, rot_ok: bool| #![trigger State::mount_post(&s0, false, &s1, rot_ok)] {
                    &&& (if old.active() { s0 == *old } else { State::init_post(old, &s0) })
                    &&& State::mount_post(&s0, false, &s1, rot_ok)
                    // C19: a rotation that could not be completed is reported (and the record still goes to the current file)
                    &&& (!rot_ok ==> super::util::reported(ErrorCode::LogFile))
                    &&& State::append_post(&s1, buf, new, ok)
                    // C19: once the state is active the record's own write is attempted, whatever became of the rotation
                    &&& write_attempted(buf)
                }
            }
        }
    //@ fn src/writers/file_log_writer/state.rs impl State / fn write_buffer
    //@   ret r
    //@   rule R46 *
    //@   props C01,C08,C09,C19,C15,C18,C06,C14,C07,C16
    //@   req[write_buffer.pre.arith] old(self).arith_ok(buf@.len() as int) && old(self).highest_ok()
    //@   req[write_buffer.pre.report] forall|c: ErrorCode| #[trigger] super::util::reportable(c) <==> c is LogFile
    //@   ens[write_buffer.post] State::write_post(old(self), buf@, final(self), r is Ok)
    //@   closure ~eprint_err(ErrorCode::LogFile ## sig |e: FlexiLoggerError| -> (u: ())
    //@   closure ~eprint_err(ErrorCode::LogFile ## req super::util::reportable(ErrorCode::LogFile)
    //@   closure ~eprint_err(ErrorCode::LogFile ## ens super::util::reported(ErrorCode::LogFile)
    //@   canary

        /// C08 (F16): after a reopen the size account is the length of the file at the stored path — the file that is written
        /// to from now on (0 if it cannot be looked at); everything else of the rotation state, the path and the
        /// configuration are unchanged
        pub closed spec fn reopen_frame(&self, o: &State) -> bool {
            self.config == o.config && self.active() == o.active()
            && (o.active() ==> self.inner->Active_2 == o.inner->Active_2
                && (o.inner->Active_0 is Some) == (self.inner->Active_0 is Some)
                && (o.inner->Active_0 is Some ==> self.rot().naming_state == o.rot().naming_state && self.rot().cleanup == o.rot().cleanup
                    && self.rot().o_cleanup_thread_handle == o.rot().o_cleanup_thread_handle
                    && self.rot().roll_state == o.rot().roll_state.with_size(
                        match fs_metadata_result(o.path()) { Ok(md) => metadata_len(&md), Err(_) => 0 })))
        }
        pub closed spec fn same_writer(&self, o: &State) -> bool { self.writer() == o.writer() }
        /// the writer is still the old one, flushed once more (nothing written, nothing lost)
        pub closed spec fn same_writer_flushed(&self, o: &State) -> bool {
            self.writer().src() == o.writer().src() && self.w().written == o.w().written && self.w().flush_calls == o.w().flush_calls + 1 && self.w().flushed >= o.w().flushed
        }
        pub closed spec fn shutdown_frame(&self, o: &State) -> bool {
            self.same_but_writer_view(o) || (o.has_rot() && self.has_rot()
              && self.config == o.config && self.inner->Active_2 == o.inner->Active_2 && self.wsrc() == o.wsrc()
              && self.rot().naming_state == o.rot().naming_state && self.rot().roll_state == o.rot().roll_state && self.rot().cleanup == o.rot().cleanup)
        }
        pub closed spec fn handle_taken(&self) -> bool { self.has_rot() && self.rot().o_cleanup_thread_handle is None }
        pub closed spec fn is_new(&self, config: FileLogWriterConfig, o_rc: Option<RotationConfig>, bg: bool) -> bool {
            self.config == config && self.inner == Inner::Initial(o_rc, bg)
        }
        pub open spec fn reopen_flags() -> OpenFlags { OpenFlags { write: false, create: true, append: true, truncate: false } }
    //@ fn src/writers/file_log_writer/state.rs impl State / fn reopen_outputfile
    //@   ret r
    //@   props C18,C14,C08,C09
    //@   closure ~md.len() ## sig |md: std::fs::Metadata| -> (r: u64)
    //@   closure ~md.len() ## ens r == metadata_len(&md)
    //@   ens[reopen.post.frame] r is Ok ==> final(self).reopen_frame(old(self))
    //@   ens[reopen.post.initial] !old(self).active() ==> r is Ok && *final(self) == *old(self)
    //@   ens[reopen.post.ok] old(self).active() && r is Ok ==> final(self).w() == fresh_wview()
    //@       && final(self).wsrc() == (WSrc { path: old(self).path(), flags: State::reopen_flags(), buffered: None })
    //@   ens[reopen.post.err] old(self).active() && r is Err ==> final(self).same_writer_flushed(old(self))
    //@       || (final(self).w() == fresh_wview() && final(self).wsrc() == (WSrc { path: path_with_extension(old(self).path(), "ShortLivingTempFileForReOpen"@), flags: State::reopen_flags(), buffered: None }))
    //@   canary
    //@ fn src/writers/file_log_writer/state.rs impl State / fn shutdown
    //@   props C04,C15
    //@   ens[State::shutdown.post.frame] final(self).shutdown_frame(old(self))
    //@   ens[State::shutdown.post.written] old(self).active() ==> final(self).active() && final(self).w().written == old(self).w().written && final(self).w().flushed >= old(self).w().flushed
    //@   ens[State::shutdown.post.flush_called] old(self).active() ==> final(self).w().flush_calls == old(self).w().flush_calls + 1
    //@   ens[State::shutdown.post.handle_taken] old(self).has_rot() ==> final(self).handle_taken()
    //@   ens[State::shutdown.post.initial] !old(self).active() ==> *final(self) == *old(self)
    //@   canary
    //@ fn src/writers/file_log_writer/state.rs impl State / fn new
    //@   ret r
    //@   props C06
    //@   ens[State::new.post] r.is_new(config, o_rotation_config, cleanup_in_background_thread)
    //@ fn src/writers/file_log_writer/state.rs impl State / fn config
    //@   ret r
    //@   props C18
    //@   ens[State::config.post] *r == self.cfg()

        // =====================================================================================
        // history lemmas over the contracts (pure proofs, no code): C01 / C08 / C09 / C19
        // =====================================================================================
        /// One accepted write on an active state: either the whole buffer was appended to the writer that was current,
        /// or - only if the rotation criterion held - the writer was replaced by a fresh one that holds exactly the
        /// buffer, and then the closed writer is left with exactly what it had (mount_next never writes).
        proof fn lemma_write_step(old: &State, buf: Seq<u8>, new: &State) //@lemma C01,C08,C09
            requires old.active(), State::write_post(old, buf, new, true), old.arith_ok(buf.len() as int),
            ensures
                new.active(),
                new.w().written == old.w().written + buf || new.w().written == Seq::<u8>::empty() + buf,
                // a cut only when the criterion held before the write (no early close)
                !(new.w().written == old.w().written + buf) ==> old.should_rotate(),
                // without the criterion nothing but the append happens: same writer, same path
                !old.should_rotate() ==> new.w().written == old.w().written + buf && new.path() == old.path() && new.wsrc() == old.wsrc(),
                // C08: size accounting
                new.has_rot() && new.roll().has_size() ==> (new.roll().cur() == old.roll().cur() + buf.len() && new.w().written == old.w().written + buf)
                    || (new.roll().cur() == buf.len() && old.should_rotate()),
        {
            let (s0, s1, rot_ok) = choose|s0: State, s1: State, rot_ok: bool| #![trigger State::mount_post(&s0, false, &s1, rot_ok)]
                s0 == *old && State::mount_post(&s0, false, &s1, rot_ok) && State::append_post(&s1, buf, new, true);
            assert(s0 == *old);
        }
        /// A failed write loses at most that write (C19): what was written before is still a prefix, the size account
        /// is the one of the state the write was attempted on.
        proof fn lemma_failed_write_step(old: &State, buf: Seq<u8>, new: &State) //@lemma C19,C01
            requires old.active(), State::write_post(old, buf, new, false),
            ensures
                new.active(),
                is_prefix(old.w().written, new.w().written) || is_prefix(Seq::<u8>::empty(), new.w().written),
                !old.should_rotate() ==> is_prefix(old.w().written, new.w().written) && is_prefix(new.w().written, old.w().written + buf),
        {
            let (s0, s1, rot_ok) = choose|s0: State, s1: State, rot_ok: bool| #![trigger State::mount_post(&s0, false, &s1, rot_ok)]
                s0 == *old && State::mount_post(&s0, false, &s1, rot_ok) && State::append_post(&s1, buf, new, false);
            assert(s0 == *old);
        }

        /// the bytes accepted so far: initial content of the first writer plus every accepted buffer in order
        pub open spec fn accepted(init: Seq<u8>, bufs: Seq<Seq<u8>>, n: int) -> Seq<u8>
            decreases n
        {
            if n <= 0 { init } else { State::accepted(init, bufs, n - 1) + bufs[n - 1] }
        }
        /// the closed segments (writers that were replaced) concatenated, after n writes
        pub open spec fn closed(states: Seq<State>, bufs: Seq<Seq<u8>>, n: int) -> Seq<u8>
            decreases n
        {
            if n <= 0 { Seq::<u8>::empty() }
            else if states[n].w().written == states[n - 1].w().written + bufs[n - 1] { State::closed(states, bufs, n - 1) }
            else { State::closed(states, bufs, n - 1) + states[n - 1].w().written }
        }
        /// C01 (history): for every sequence of accepted writes, the closed segments followed by the current writer's
        /// content are exactly the accepted buffers, each once and in order.
        pub proof fn lemma_partition(states: Seq<State>, bufs: Seq<Seq<u8>>, n: int) //@lemma C01
            requires
                0 <= n <= bufs.len(), states.len() == bufs.len() + 1, states[0].active(),
                forall|i: int| 0 <= i < bufs.len() ==> #[trigger] State::write_post(&states[i], bufs[i], &states[i + 1], true),
                forall|i: int| 0 <= i < bufs.len() ==> (#[trigger] states[i]).arith_ok(bufs[i].len() as int),
            ensures
                states[n].active(),
                State::closed(states, bufs, n) + states[n].w().written == State::accepted(states[0].w().written, bufs, n),
            decreases n
        {
            if n > 0 {
                State::lemma_partition(states, bufs, n - 1);
                assert(State::write_post(&states[n - 1], bufs[n - 1], &states[n - 1 + 1], true));
                State::lemma_write_step(&states[n - 1], bufs[n - 1], &states[n]);
                let c = State::closed(states, bufs, n - 1);
                let w0 = states[n - 1].w().written;
                let b = bufs[n - 1];
                if states[n].w().written == w0 + b {
                    assert(c + (w0 + b) =~= (c + w0) + b);
                } else {
                    assert(states[n].w().written == Seq::<u8>::empty() + b);
                    assert((c + w0) + (Seq::<u8>::empty() + b) =~= (c + w0) + b);
                }
            } else {
                assert(Seq::<u8>::empty() + states[0].w().written =~= states[0].w().written);
            }
        }

    //@ fn src/writers/file_log_writer/state.rs impl State / fn existing_log_files
    //@   ret r
    //@   props C16
    //@   ens[State::existing_log_files.post] r@ == list_and_cleanup::elf_result(&self.cfg().file_spec, self.listing_args().0, &self.listing_args().1, selector)
    //@ fn src/writers/file_log_writer/state.rs impl State / fn flush
    //@   ret r
    //@   props C04,C15
    //@   ens[flush.post.frame] final(self).same_but_writer_view(old(self))
    //@   ens[flush.post.written] old(self).active() ==> final(self).w().written == old(self).w().written
    //@   ens[flush.post.flushed] old(self).active() && r is Ok ==> final(self).w().flushed == final(self).w().written.len()
    //@   ens[flush.post.called] old(self).active() ==> final(self).w().flush_calls == old(self).w().flush_calls + 1
    //@   ens[flush.post.initial] !old(self).active() ==> r is Ok && *final(self) == *old(self)
    //@   canary
    }

    /// what `open_log_file(config, o_infix)` attaches a fresh writer to (C06: append vs truncate; C15: buffering; C16: path)
    pub(crate) open spec fn src_for(config: &FileLogWriterConfig, o_infix: Option<Seq<char>>) -> WSrc {
        WSrc { path: config.file_spec.path_spec(o_infix), flags: open_flags(config), buffered: config.write_mode.buffersize_spec() }
    }
    //@ fn src/writers/file_log_writer/state.rs fn open_log_file
    //@   ret r
    //@   props C06,C15,C16,C01,C14,C18
    //@   ens[open_log_file.post.path] r is Ok ==> pathbuf_view(&r->Ok_0.1) == config.file_spec.path_spec(ostr(o_infix))
    //@   ens[open_log_file.post.fresh] r is Ok ==> r->Ok_0.0@ == fresh_wview()
    //@   ens[open_log_file.post.src] r is Ok ==> r->Ok_0.0.src() == src_for(config, ostr(o_infix))
    //@   ens[open_log_file.post.opened] r is Ok ==> opened_token()
    //@   ens[open_log_file.post.symlink] r is Ok ==> symlink_ok(config, config.file_spec.path_spec(ostr(o_infix)))
    //@   count 1 create_symlink_if_possible(
    //@   canary

    // ---- free functions of state.rs ----------------------------------------------------------------
    //@ fn src/writers/file_log_writer/state.rs fn get_creation_timestamp
    //@   ret r
    //@   props C09,C06
    //@   closure ~try_get_modification_timestamp ## sig |_e: FlexiLoggerError| -> (r: Result<DateTime<Local>, FlexiLoggerError>)
    //@   closure ~try_get_modification_timestamp ## ens same_ts(r, fs_modified_ts(path_view(path)))
    //@   closure ~get_current_timestamp ## sig |_e: FlexiLoggerError| -> (r: DateTime<Local>)
    //@   closure ~get_current_timestamp ## ens r == clock_now()
    //@   ens[get_creation_timestamp.post] r == creation_ts(path_view(path))
    //@ fn src/writers/file_log_writer/state.rs fn try_get_creation_timestamp
    //@   ret r
    //@   props C09,C06
    //@   ens[try_get_creation_timestamp.post] same_ts(r, fs_created_ts(path_view(path)))
    //@ fn src/writers/file_log_writer/state.rs fn try_get_modification_timestamp
    //@   ret r
    //@   props C09,C06
    //@   rule R3 *
    //@   closure ~md.modified() ## sig |_e: std::io::Error| -> (r: Result<std::time::SystemTime, std::io::Error>)
    //@   closure ~md.modified() ## ens r == md_modified(&md)
    //@   ens[try_get_modification_timestamp.post] same_ts(r, fs_modified_ts(path_view(path)))
    //@ fn src/writers/file_log_writer/state.rs fn get_current_timestamp
    //@   ret r
    //@   props C09
    //@   ens[get_current_timestamp.post] r == clock_now()

    // ---- callees outside state.rs proper ---------------------------------------------------------
    pub mod timestamps {
        use super::*;
        /// oracles for the directory / name computations of timestamps.rs (not decided in this unit)
        pub uninterp spec fn infix_from_ts_spec(ts: DateTime<Local>, use_utc: bool, fmt: FmtV) -> Seq<char>;
        pub uninterp spec fn ctoc_result(config: &FileLogWriterConfig, current_infix: Seq<char>, rotate: bool,
            o_date: Option<DateTime<Local>>, fmt: FmtV) -> Result<DateTime<Local>, std::io::Error>;
        pub uninterp spec fn latest_ts_spec(config: &FileLogWriterConfig, rotate: bool, fmt: FmtV) -> DateTime<Local>;
        pub(crate) open spec fn odate(o: Option<&DateTime<Local>>) -> Option<DateTime<Local>> { match o { Some(d) => Some(*d), None => None } }
        //@ sig src/writers/file_log_writer/state/timestamps.rs fn infix_from_timestamp
        //@   ret r
        //@   ens r@ == infix_from_ts_spec(*ts, use_utc, fmt.fview())
        //@ sig src/writers/file_log_writer/state/timestamps.rs fn creation_timestamp_of_currentfile
        //@   ret r
        //@   ens r == ctoc_result(config, current_infix@, rotate_rcurrent, odate(o_date_for_rotated_file), fmt.fview())
        //@ sig src/writers/file_log_writer/state/timestamps.rs fn latest_timestamp_file
        //@   ret r
        //@   ens r == latest_ts_spec(config, rotate, fmt.fview())
    }
    pub mod numbers {
        use super::*;
        use super::super::parameters::FileSpec;
        broadcast use group_aspath, cmp_axioms::group_errorkind_eq;
        /// `r{idx:0>5}`: format! is outside the verifier; injectivity is NOT assumed anywhere
        pub uninterp spec fn number_infix_spec(idx: u32) -> Seq<char>;
        /// oracle for the directory scan of get_highest_index (not decided)
        pub uninterp spec fn highest_index_spec(file_spec: &FileSpec) -> Option<u32>;
        //@ sig src/writers/file_log_writer/state/numbers.rs fn number_infix
        //@   ret r
        //@   ens r@ == number_infix_spec(idx)
        //@ sig src/writers/file_log_writer/state/numbers.rs fn get_highest_index
        //@   ret r
        //@   ens r == highest_index_spec(file_spec)

        /// C01/C06: index to rotate to / start with, as a function of the answer of the rename
        pub(super) open spec fn index_for_rcurrent_spec(config: &FileLogWriterConfig, o_idx: Option<u32>, rotate: bool) -> Result<u32, std::io::Error> {
            let start: u32 = match o_idx {
                Some(i) => i,
                None => match highest_index_spec(&config.file_spec) { Some(h) => (h + 1) as u32, None => 0 },
            };
            if !rotate { Ok(start) } else {
                match fs_rename_result(config.file_spec.path_spec(Some(CURRENT_INFIX@)), config.file_spec.path_spec(Some(number_infix_spec(start)))) {
                    Ok(()) => Ok((start + 1) as u32),
                    Err(e) => if io_error_kind(&e) == std::io::ErrorKind::NotFound { Ok(start) } else { Err(e) },
                }
            }
        }
        //@ fn src/writers/file_log_writer/state/numbers.rs fn index_for_rcurrent
        //@   ret r
        //@   props C01,C06,C19,C14,C07,C16
        //@   req o_index_for_rcurrent is Some ==> o_index_for_rcurrent->Some_0 < u32::MAX
        //@   req o_index_for_rcurrent is None && highest_index_spec(&config.file_spec) is Some ==> highest_index_spec(&config.file_spec)->Some_0 < u32::MAX - 1
        //@   closure ~get_highest_index ## sig || -> (r: Option<u32>)
        //@   closure ~get_highest_index ## req highest_index_spec(&config.file_spec) is Some ==> highest_index_spec(&config.file_spec)->Some_0 < u32::MAX
        //@   closure ~get_highest_index ## ens r == match highest_index_spec(&config.file_spec) { Some(h) => Some((h + 1) as u32), None => None }
        //@   closure ~idx + 1 ## sig |idx: u32| -> (r: u32)
        //@   closure ~idx + 1 ## req idx < u32::MAX
        //@   closure ~idx + 1 ## ens r == idx + 1
        //@   ens[index_for_rcurrent.post.oracle] r == index_for_rcurrent_spec(config, o_index_for_rcurrent, rotate_rcurrent)
        //@   canary
    }
    pub mod list_and_cleanup {
        use super::*;
        use super::super::parameters::{FileSpec, Cleanup};
        use super::super::selector::LogfileSelector;
        use std::path::PathBuf;
        //@ opaque src/writers/file_log_writer/state/list_and_cleanup.rs struct CleanupThreadHandle
        impl CleanupThreadHandle {
        //@ sig src/writers/file_log_writer/state/list_and_cleanup.rs impl CleanupThreadHandle / fn shutdown
        }
        pub(crate) open spec fn ohandle(o: Option<&CleanupThreadHandle>) -> Option<CleanupThreadHandle> { match o { Some(h) => Some(*h), None => None } }
        /// oracle: outcome of the cleanup step (decided for its selection rule in unit/harness `cleanup`)
        pub uninterp spec fn cleanup_result(o_handle: Option<CleanupThreadHandle>, cleanup: &Cleanup, file_spec: &FileSpec,
            infix_filter: &InfixFilter, writes_direct: bool) -> Result<(), std::io::Error>;
        pub uninterp spec fn cleanup_thread_result(cleanup: Cleanup, file_spec: FileSpec, infix_filter: &InfixFilter, writes_direct: bool)
            -> Result<CleanupThreadHandle, std::io::Error>;
        /// oracle: the listing (composition proved in unit `listing`: existing_log_files.post)
        pub uninterp spec fn elf_result(file_spec: &FileSpec, use_rotation: bool, infix_filter: &InfixFilter, selector: &super::super::selector::LogfileSelector) -> Seq<std::path::PathBuf>;
        //@ sig src/writers/file_log_writer/state/list_and_cleanup.rs fn existing_log_files
        //@   ret r
        //@   ens r@ == elf_result(file_spec, use_rotation, infix_filter, selector)
        //@ sig src/writers/file_log_writer/state/list_and_cleanup.rs fn remove_or_compress_too_old_logfiles
        //@   ret r
        //@   props C07
        //@   req[cleanup.pre.after_open] opened_token()
        //@   ens r == cleanup_result(ohandle(o_cleanup_thread_handle), cleanup_config, file_spec, infix_filter, writes_direct)
        //@ sig src/writers/file_log_writer/state/list_and_cleanup.rs fn start_cleanup_thread
        //@   ret r
        //@   ens r == cleanup_thread_result(cleanup, file_spec, infix_filter, writes_direct)
    }
    mod platform {
        use super::*;
        /// prophecy-style oracle (A11): what the configured symlink points to after the verified call;
        /// `create_symlink_if_possible(link, path)` (re)creates it (failures go to the error channel: not modelled)
        pub uninterp spec fn symlink_after(link: Seq<char>) -> Seq<char>;
        //@ sig src/writers/file_log_writer/state.rs mod platform / fn create_symlink_if_possible
        //@   ens symlink_after(path_view(link)) == path_view(path)
    }
    pub(crate) open spec fn symlink_ok(config: &FileLogWriterConfig, target: Seq<char>) -> bool {
        config.o_create_symlink is Some ==> platform::symlink_after(pathbuf_view(&config.o_create_symlink->Some_0)) == target
    }
}
}
// plain-Rust glue outside verus!: Debug for the opaque shims (never executed, not verified)
macro_rules! shim_debug { ($($t:ty),*) => { $(impl std::fmt::Debug for $t { fn fmt(&self, _f: &mut std::fmt::Formatter) -> std::fmt::Result { Ok(()) } })* } }
shim_debug!(parameters::FileSpec, VWriter, state::InfixFormat, flexi_error::FlexiLoggerError);
fn main() {}

#![feature(pattern)]
#![feature(allocator_api)]
#![allow(unused_imports, dead_code, unused_variables, unused_mut, unreachable_code, unused_parens)]
// Unit `handle_async` (C15, C04, C20; feature async): StateHandle / AsyncHandle, asynchronous arm
// (src/writers/file_log_writer/state_handle.rs): what is put on the channel to the writer thread.
// A data message must never be a control message (ASYNC_FLUSH / ASYNC_SHUTDOWN), because the writer thread
// dispatches on the message content (unit `dispatch`).
use vstd::prelude::*;
verus! {
//@ include prelude/types.rs
//@ include prelude/sync.rs
//@ include prelude/combinators.rs

#[verifier::external_type_specification]
#[verifier::external_body]
pub struct ExRecord<'a>(log::Record<'a>);
#[verifier::external_type_specification]
#[verifier::external_body]
#[verifier::reject_recursive_types(T)]
pub struct ExArrayQueue<T>(crossbeam_queue::ArrayQueue<T>);
#[verifier::external_type_specification]
#[verifier::external_body]
#[verifier::reject_recursive_types(T)]
pub struct ExSender<T>(crossbeam_channel::Sender<T>);
#[verifier::external_type_specification]
#[verifier::external_body]
#[verifier::reject_recursive_types(T)]
pub struct ExSendError<T>(crossbeam_channel::SendError<T>);
#[verifier::external_type_specification]
#[verifier::external_body]
#[verifier::reject_recursive_types(T)]
pub struct ExJoinHandle<T>(std::thread::JoinHandle<T>);

/// permission: which message may be put on the channel to the writer thread
pub uninterp spec fn send_ok(m: Seq<u8>) -> bool;
pub uninterp spec fn send_msg_ok<T>(v: T) -> bool;
pub broadcast axiom fn ax_send_msg_ok(v: Vec<u8>)
    ensures #[trigger] send_msg_ok::<Vec<u8>>(v) == send_ok(v@);
pub assume_specification<T>[ crossbeam_channel::Sender::<T>::send ](s: &crossbeam_channel::Sender<T>, msg: T) -> (r: Result<(), crossbeam_channel::SendError<T>>)
    requires
        send_msg_ok::<T>(msg), //@label Sender::send.perm C15
;
/// pooled buffers are empty: the writer thread clears a buffer before it pushes it (permission ArrayQueue::push.perm, unit `dispatch`)
pub assume_specification<T>[ crossbeam_queue::ArrayQueue::<T>::pop ](q: &crossbeam_queue::ArrayQueue<T>) -> (r: Option<T>)
    ensures r is Some ==> pooled_empty::<T>(r->Some_0);
pub uninterp spec fn pooled_empty<T>(v: T) -> bool;
pub broadcast axiom fn ax_pooled_empty(v: Vec<u8>)
    ensures #[trigger] pooled_empty::<Vec<u8>>(v) == (v@.len() == 0);
/// permission: only an empty buffer may be put (back) into the pool (in the code as it is only the writer thread does that,
/// unit `dispatch`; a handle that recycles a buffer itself must clear it first)
pub uninterp spec fn pool_push_ok<T>(v: T) -> bool;
pub broadcast axiom fn ax_pool_push_ok(v: Vec<u8>)
    ensures #[trigger] pool_push_ok::<Vec<u8>>(v) == (v@.len() == 0);
pub assume_specification<T>[ crossbeam_queue::ArrayQueue::<T>::push ](q: &crossbeam_queue::ArrayQueue<T>, v: T) -> (r: Result<(), T>)
    requires
        pool_push_ok::<T>(v), //@label ArrayQueue::push.perm C15,C20
;
pub assume_specification<T: Clone>[ <[T] as std::borrow::ToOwned>::to_owned ](s: &[T]) -> (r: Vec<T>)
    ensures r@.len() == s@.len(), to_owned_rel::<T>(s@, r@);
pub uninterp spec fn to_owned_rel<T>(s: Seq<T>, r: Seq<T>) -> bool;
pub broadcast axiom fn ax_to_owned_u8(s: Seq<u8>, r: Seq<u8>)
    ensures #[trigger] to_owned_rel::<u8>(s, r) == (r == s);

/// `vec.extend(slice)` appends the slice
#[verifier::allow(undeclared_external_trait)]
pub assume_specification<'a, T: Copy + 'a, A: std::alloc::Allocator, I: std::iter::IntoIterator<Item = &'a T>>[ <Vec<T, A> as std::iter::Extend<&'a T>>::extend ](v: &mut Vec<T, A>, it: I)
    ensures extend_rel::<T, I>(old(v)@, it, final(v)@);
pub uninterp spec fn extend_rel<T, I>(before: Seq<T>, it: I, after: Seq<T>) -> bool;
pub broadcast axiom fn ax_extend_u8_slice(before: Seq<u8>, it: &[u8], after: Seq<u8>)
    ensures #[trigger] extend_rel::<u8, &[u8]>(before, it, after) == (after == before + it@);

pub assume_specification<T, E, F: FnOnce(&E)>[ Result::<T, E>::inspect_err ](res: Result<T, E>, f: F) -> (r: Result<T, E>)
    requires res is Err ==> f.requires((&res->Err_0,)),
    ensures r == res;
/// `<Vec<u8> as io::Write>::write_all` appends the bytes and cannot fail
pub assume_specification<A: std::alloc::Allocator>[ <Vec<u8, A> as std::io::Write>::write_all ](v: &mut Vec<u8, A>, buf: &[u8]) -> (r: std::io::Result<()>)
    ensures r is Ok, final(v)@ == old(v)@ + buf@;

/// R23 SHIM for `slice.chunks(n)` (not used by the code as it is): pieces of at most n bytes whose concatenation is the slice
pub open spec fn concat_chunks(c: Seq<&[u8]>) -> Seq<u8> decreases c.len() { if c.len() == 0 { Seq::empty() } else { concat_chunks(c.drop_last()) + c.last()@ } }
pub trait VChunks: vstd::view::View<V = Seq<u8>> {
    fn vchunks(&self, n: usize) -> (r: Vec<&[u8]>)
        requires n > 0,
        ensures concat_chunks(r@) == self@, forall|i: int| 0 <= i < r@.len() ==> 0 < (#[trigger] r@[i])@.len() <= n,
            self@.len() > n ==> r@.len() >= 2;
}
impl VChunks for [u8] {
    #[verifier::external_body]
    fn vchunks(&self, n: usize) -> (r: Vec<&[u8]>)
    { self.chunks(n).collect() }
}
pub mod shims {
    use super::*;
    /// SHIM (R4): the fn-pointer alias FormatFunction
    #[derive(Clone, Copy)]
    pub struct VFormatFn { _o: () }
    //@ include prelude/dnow_shim.rs
    /// oracle: the bytes a format function produces for a record (the format functions are outside the verifier, C20)
    pub uninterp spec fn fmt_out(f: VFormatFn, record: &log::Record) -> Seq<u8>;
    impl VFormatFn {
        #[verifier::external_body]
        pub fn call(&self, w: &mut Vec<u8>, now: &mut DeferredNow, record: &log::Record) -> (r: Result<(), std::io::Error>)
            requires
                now_ok(old(now).origin()), //@label FormatFunction::call.same_now C20
            ensures r is Ok ==> final(w)@ == old(w)@ + fmt_out(*self, record), final(now).origin() == old(now).origin(),
        { unimplemented!() }
    }
    pub enum ErrorCode { Write, Format }
    pub trait VErr {}
    impl VErr for std::io::Error {}
    impl<'a> VErr for &'a std::io::Error {}
    #[verifier::external_body]
    pub(crate) fn eprint_err<E: VErr>(error_code: ErrorCode, msg: &str, err: &E) { unimplemented!() }
    /// SHIM for std::time::Duration (only compared with ZERO_DURATION here): a number of nanoseconds
    pub type VDuration = u128;
    pub const ZERO_DURATION: VDuration = 0;
    pub struct WriteMode { _o: () }
    pub uninterp spec fn flush_interval_of(m: WriteMode) -> VDuration;
    impl WriteMode {
        #[verifier::external_body]
        pub(crate) fn get_flush_interval(&self) -> (r: VDuration) ensures r == flush_interval_of(*self) { unimplemented!() }
    }
    pub struct FileLogWriterConfig { pub line_ending: &'static [u8], pub write_mode: WriteMode }
    pub struct State { pub cfg: FileLogWriterConfig }
    impl State {
        #[verifier::external_body]
        pub fn config(&self) -> (r: &FileLogWriterConfig) ensures *r == self.cfg { unimplemented!() }
        // the synchronous arm is decided in unit `handle`; here every function requires the Async arm
        #[verifier::external_body]
        pub fn write_buffer(&mut self, buf: &[u8]) -> (r: std::io::Result<()>) requires false { unimplemented!() }
        #[verifier::external_body]
        pub fn flush(&mut self) -> (r: std::io::Result<()>) requires false { unimplemented!() }
        #[verifier::external_body]
        pub fn shutdown(&mut self) requires false { unimplemented!() }
    }
    #[verifier::external_body]
    pub fn io_err(s: &'static str) -> std::io::Error { unimplemented!() }
}
pub mod util {
    use super::*;
    //@ item src/util.rs const ASYNC_FLUSH
    //@   bytesconst
    //@ item src/util.rs const ASYNC_SHUTDOWN
    //@   bytesconst
}
pub mod state {
    use super::*;
    use super::shims::*;
    use std::sync::{Arc, Mutex};
    use std::thread::JoinHandle;
    use {crossbeam_channel::Sender, crossbeam_queue::ArrayQueue};
    /// token fact / permission: the flusher thread is started (only) with the configured, non-zero interval
    pub uninterp spec fn flusher_ok(d: VDuration) -> bool;
    pub uninterp spec fn flusher_started() -> bool;
    /// oracle: the writer thread's channel was made for this state, message capacity and pool
    pub uninterp spec fn writer_of(s: Sender<Vec<u8>>) -> (Arc<Mutex<State>>, usize, Arc<ArrayQueue<Vec<u8>>>);
    #[verifier::external_body]
    pub(crate) fn start_async_fs_writer(am_state: Arc<Mutex<State>>, message_capa: usize, a_pool: Arc<ArrayQueue<Vec<u8>>>) -> (r: (Sender<Vec<u8>>, Mutex<Option<JoinHandle<()>>>))
        ensures writer_of(r.0) == (am_state, message_capa, a_pool)
    { unimplemented!() }
    #[verifier::external_body]
    pub(crate) fn start_async_fs_flusher(async_writer: Sender<Vec<u8>>, flush_interval: VDuration)
        requires
            flusher_ok(flush_interval), //@label start_async_fs_flusher.perm C04
        ensures flusher_started(),
    { unimplemented!() }
}
pub assume_specification<T>[ crossbeam_queue::ArrayQueue::<T>::new ](cap: usize) -> (r: crossbeam_queue::ArrayQueue<T>);
pub assume_specification<T>[ <crossbeam_channel::Sender<T> as Clone>::clone ](s: &crossbeam_channel::Sender<T>) -> (r: crossbeam_channel::Sender<T>)
    ensures r == *s;
pub mod state_handle {
    use super::*;
    use super::shims::*;
    use super::util::{ASYNC_FLUSH, ASYNC_SHUTDOWN, ASYNC_FLUSH_spec, ASYNC_SHUTDOWN_spec};
    use std::sync::{Arc, Mutex};
    use std::thread::JoinHandle;
    use log::Record;
    use std::io::Write;
    use {crossbeam_channel::Sender, crossbeam_queue::ArrayQueue};
    type FormatFunction = VFormatFn;
    broadcast use ax_send_msg_ok, ax_pooled_empty, ax_to_owned_u8, ax_extend_u8_slice, ax_pool_push_ok, ax_same_val;

    //@ item src/writers/file_log_writer/state_handle.rs enum StateHandle
    //@   dropattr #[derive
    //@ item src/writers/file_log_writer/state_handle.rs struct SyncHandle
    //@ item src/writers/file_log_writer/state_handle.rs struct AsyncHandle

    pub(crate) open spec fn is_control(m: Seq<u8>) -> bool { m == ASYNC_FLUSH_spec() || m == ASYNC_SHUTDOWN_spec() }

    /// C15 anchor "record messages always end with the line ending, so they can never equal a control message"
    pub(crate) proof fn lemma_framed_not_control(x: Seq<u8>, e: Seq<u8>) //@lemma C15
        requires e.len() > 0, e.last() == 10u8,
        ensures !is_control(x + e),
    {
        let m = x + e;
        assert(m.last() == 10u8);
        assert(ASYNC_FLUSH_spec().last() == 70u8);
        assert(ASYNC_SHUTDOWN_spec().last() == 83u8);
    }
    impl AsyncHandle {
        pub closed spec fn ending(&self) -> Seq<u8> { self.line_ending@ }
        pub closed spec fn fmt(&self) -> VFormatFn { self.format_function }
        pub closed spec fn capa(&self) -> usize { self.message_capa }
        pub closed spec fn made_for(&self) -> (Arc<Mutex<State>>, usize, Arc<ArrayQueue<Vec<u8>>>) { super::state::writer_of(self.sender) }
        pub closed spec fn parts(&self) -> (Arc<Mutex<State>>, Arc<ArrayQueue<Vec<u8>>>) { (self.am_state, self.a_pool) }
    //@ fn src/writers/file_log_writer/state_handle.rs impl AsyncHandle / fn new
    //@   ret r
    //@   props C20,C15,C04
    //@   req[AsyncHandle::new.pre.perm] forall|d: VDuration| #[trigger] super::state::flusher_ok(d) <==> (d == flush_interval_of(state.cfg.write_mode) && d != 0)
    //@   ens[AsyncHandle::new.post.framing] r.fmt() == format_function && r.ending() == state.cfg.line_ending@ && r.capa() == message_capa
    //@   ens[AsyncHandle::new.post.thread] r.made_for() == (r.parts().0, message_capa, r.parts().1)
    //@   ens[AsyncHandle::new.post.flusher] flush_interval_of(state.cfg.write_mode) != 0 ==> super::state::flusher_started()
    //@ fn src/writers/file_log_writer/state_handle.rs impl AsyncHandle / fn write
    //@   ret r
    //@   props C20,C15
    //@   rule R4c 1
    //@   rule R3 *
    //@   req[AsyncHandle::write.pre.ending] self.ending().len() > 0 && self.ending().last() == 10u8
    //@   req[AsyncHandle::write.pre.perm] forall|m: Seq<u8>| #[trigger] send_ok(m) <==> m == fmt_out(self.fmt(), record) + self.ending()
    //@   req[AsyncHandle::write.pre.same_now] forall|o: int| #[trigger] now_ok(o) <==> o == old(now).origin()
    //@   ens[AsyncHandle::write.post.same_now] final(now).origin() == old(now).origin()
    //@   canary
    //@ fn src/writers/file_log_writer/state_handle.rs impl AsyncHandle / fn pop_buffer
    //@   ret r
    //@   props C15
    //@   closure ~Vec::with_capacity ## sig || -> (r: Vec<u8>)
    //@   closure ~Vec::with_capacity ## ens r@.len() == 0
    //@   ens[pop_buffer.post.empty] r@.len() == 0
    }
    /// token fact: only joining the writer thread establishes it (R21 shim for `th.join().ok()`)
    pub uninterp spec fn joined() -> bool;
    #[verifier::external_body]
    pub fn vjoin(th: JoinHandle<()>) -> (r: Option<()>)
        ensures joined()
    { th.join().ok() }
    impl StateHandle {
        pub closed spec fn thread_lock_poisoned(&self) -> bool { mutex_poisoned(&self->Async_0.mo_thread_handle) }
        pub closed spec fn thread_present(&self) -> bool { (*mutex_content(&self->Async_0.mo_thread_handle)) is Some }
    //@ fn src/writers/file_log_writer/state_handle.rs impl StateHandle / fn new_async
    //@   ret r
    //@   props C20,C15
    //@   req[new_async.pre.perm] forall|d: VDuration| #[trigger] super::state::flusher_ok(d) <==> (d == flush_interval_of(state.cfg.write_mode) && d != 0)
    //@   ens[StateHandle::new_async.post] r is Async && r->Async_0.fmt() == format_function && r->Async_0.ending() == state.cfg.line_ending@ && r->Async_0.capa() == message_capa
    //@ fn src/writers/file_log_writer/state_handle.rs impl StateHandle / fn plain_write
    //@   ret r
    //@   props C15
    //@   rule R3 *
    //@   rule R23 *
    //@   req[plain_write.async.pre.perm] forall|m: Seq<u8>| #[trigger] send_ok(m) <==> (self is Async && m == buffer@ && !is_control(m))
    //@   req[plain_write.async.pre.arm] self is Async
    //@   ens[plain_write.async.post] r is Ok ==> r->Ok_0 == buffer@.len()
    //@ fn src/writers/file_log_writer/state_handle.rs impl StateHandle / fn flush
    //@   ret r
    //@   props C04,C15
    //@   req[flush.async.pre.perm] forall|m: Seq<u8>| #[trigger] send_ok(m) <==> (self is Async && m == ASYNC_FLUSH_spec())
    //@   req[flush.async.pre.arm] self is Async
    //@ fn src/writers/file_log_writer/state_handle.rs impl StateHandle / fn shutdown
    //@   props C04,C15
    //@   rule R21 *
    //@   rule R3 *
    //@   closure ~th.join() ## sig |th: JoinHandle<()>| -> (r: Option<()>)
    //@   closure ~th.join() ## ens joined()
    //@   req[shutdown.async.pre.perm] forall|m: Seq<u8>| #[trigger] send_ok(m) <==> (self is Async && m == ASYNC_SHUTDOWN_spec())
    //@   req[shutdown.async.pre.arm] self is Async
    //@   ens[StateHandle::shutdown.async.post.joined] !self.thread_lock_poisoned() && self.thread_present() ==> joined()
    }
}
}
fn main() {}

#![feature(print_internals)]
#![allow(unused_imports, dead_code, unused_variables, unused_mut, unreachable_code, unused_parens)]
// Unit `timestamps` (C09, C06, C14, C19): creation_timestamp_of_currentfile, path_for_rotated_file_from_timestamp,
// infix_from_timestamp is an oracle (chrono formatting) — src/writers/file_log_writer/state/timestamps.rs
use vstd::prelude::*;
verus! {
//@ include prelude/base.rs

pub mod parameters {
    use super::*;
    use std::path::PathBuf;
    //@ opaque src/parameters/file_spec.rs struct FileSpec
    //@   dropattr #[derive
    pub open spec fn ostr(o: Option<&str>) -> Option<Seq<char>> { match o { Some(s) => Some(s@), None => None } }
    impl FileSpec {
        pub uninterp spec fn path_spec(&self, o_infix: Option<Seq<char>>) -> Seq<char>;
        pub uninterp spec fn collision_free_spec(&self, infix: Seq<char>) -> Seq<char>;
        //@ sig src/parameters/file_spec.rs impl FileSpec / fn as_pathbuf
        //@   ret r
        //@   ens pathbuf_view(&r) == self.path_spec(ostr(o_infix))
        //@ sig src/parameters/file_spec.rs impl FileSpec / fn collision_free_infix_for_rotated_file
        //@   ret r
        //@   ens r@ == self.collision_free_spec(infix@)
    }
}
pub mod config {
    use super::*;
    use super::parameters::FileSpec;
    /// SHIM: the fields of FileLogWriterConfig these functions read
    pub struct FileLogWriterConfig { pub file_spec: FileSpec, pub use_utc: bool }
}
pub mod state {
    use super::*;
    use chrono::{DateTime, Local};
    use std::path::{Path, PathBuf};
    /// SHIM: InfixFormat reduced to its view
    pub enum InfixFormat { Std, Custom(String) }
    pub ghost enum FmtV { Std, Custom(Seq<char>) }
    impl InfixFormat {
        pub open spec fn fview(&self) -> FmtV { match self { InfixFormat::Std => FmtV::Std, InfixFormat::Custom(s) => FmtV::Custom(s@) } }
    }
    /// oracle (unit `state` proves get_creation_timestamp against the created / modified / now fallback chain)
    pub uninterp spec fn creation_ts(p: Seq<char>) -> DateTime<Local>;
    #[verifier::external_body]
    pub fn get_creation_timestamp(path: &Path) -> (r: DateTime<Local>) ensures r == creation_ts(path_view(path)) { unimplemented!() }

    pub mod timestamps {
        use super::*;
        use super::super::config::FileLogWriterConfig;
        use super::super::parameters::FileSpec;
        broadcast use group_aspath, cmp_axioms::group_errorkind_eq;

        pub uninterp spec fn infix_from_ts_spec(ts: DateTime<Local>, use_utc: bool, fmt: FmtV) -> Seq<char>;
        //@ sig src/writers/file_log_writer/state/timestamps.rs fn infix_from_timestamp
        //@   ret r
        //@   ens r@ == infix_from_ts_spec(*ts, use_utc, fmt.fview())

        /// C09: the rotated file is named after the time stamp handed in (the stored start time of its content),
        /// made collision free; C14: inside the family
        pub open spec fn rotated_path_spec(fs: &FileSpec, use_utc: bool, ts: DateTime<Local>, fmt: FmtV) -> Seq<char> {
            fs.path_spec(Some(fs.collision_free_spec(infix_from_ts_spec(ts, use_utc, fmt))))
        }
        //@ fn src/writers/file_log_writer/state/timestamps.rs fn path_for_rotated_file_from_timestamp
        //@   ret r
        //@   props C09,C14
        //@   ens[path_for_rotated.post] pathbuf_view(&r) == rotated_path_spec(file_spec, use_utc, *timestamp_for_rotated_file, fmt.fview())

        pub open spec fn odate(o: Option<&DateTime<Local>>) -> Option<DateTime<Local>> { match o { Some(d) => Some(*d), None => None } }
        /// C06/C09/C19: rename current -> rotated(date) iff rotate; only NotFound is tolerated; result = creation time of the current path
        pub open spec fn ctoc_spec(config: &FileLogWriterConfig, current_infix: Seq<char>, rotate: bool, o_date: Option<DateTime<Local>>, fmt: FmtV)
            -> Result<DateTime<Local>, std::io::Error>
        {
            let cur = config.file_spec.path_spec(Some(current_infix));
            if !rotate { Ok(creation_ts(cur)) } else {
                let date = match o_date { Some(d) => d, None => creation_ts(cur) };
                match fs_rename_result(cur, rotated_path_spec(&config.file_spec, config.use_utc, date, fmt)) {
                    Ok(()) => Ok(creation_ts(cur)),
                    Err(e) => if io_error_kind(&e) == std::io::ErrorKind::NotFound { Ok(creation_ts(cur)) } else { Err(e) },
                }
            }
        }
        //@ fn src/writers/file_log_writer/state/timestamps.rs fn creation_timestamp_of_currentfile
        //@   ret r
        //@   props C09,C06,C14,C19
        //@   closure ~get_creation_timestamp ## sig || -> (r: DateTime<Local>)
        //@   closure ~get_creation_timestamp ## ens r == creation_ts(pathbuf_view(&current_path))
        //@   ens[creation_timestamp_of_currentfile.post] r == ctoc_spec(config, current_infix@, rotate_rcurrent, odate(o_date_for_rotated_file), fmt.fview())
        //@   count 1 std::fs::rename(
        //@   canary
    }
}
}
fn main() {}
